"""C24 -- Pooled connections carry no state from a previous checkout (reset-before-return)."""

from __future__ import annotations

import ast

from ..astutil import call_name, calls_in, dotted, name_stores, test_atoms, unparse, walk_local
from ..cfg import no_exc
from ..report import Registry, sub, chain
from ._helpers_rules_c import (
    PathSense, _ann_class, both, call_nodes, calls_ending, cut_edges, cut_normal_out, is_false, is_true,
    kw_or_pos, loc_of, must_pass, outcome, own_calls, rcfg, test_edges,
)
from ._helpers_rob_a import normal_form


def _nf(ctx, key, *keep, alias="all"):
    """The anchored function in refactoring-robust normal form (extracted helpers inlined, single-assignment
    locals resolved; see _helpers_rob_a).  `keep`: the callee names the rule recognises by name."""
    return normal_form(ctx, ctx.func(key), keep=keep, alias=alias)

R = Registry(
    "C24",
    title="Pooled connections carry no state from a previous checkout",
    decides=(
        "reset-before-return shape of the check-in path: _finalize_fairy resets (or invalidates) before "
        "every check-in of a live connection; _ConnectionFairy._reset rolls back / commits under the "
        "configured reset style and skips only when the transaction was already reset; Connection.close "
        "claims transaction_reset only after closing its transaction, and that claim is backed: the call "
        "chain behind it (Transaction.close -> _do_close -> _close_impl -> _connection_rollback_impl -> "
        "Connection._rollback*_impl, with dynamic dispatch over the transaction classes) reaches "
        "dialect.do_rollback on every normal path except enumerated, justified bypasses (C24-R6); every "
        "connection characteristic that is set has a registered reset finaliser -- registered on every path, "
        "bound to the whole collection being applied -- which check-in drains before returning the record; a "
        "finaliser that raises never reaches _return_conn() with the record live (propagates, or the record is "
        "invalidated); reset_isolation_level restores the engine-wide configured level (AUTOCOMMIT included) when "
        "there is one, else the detected default -- the level the on-connect hook gives a new connection (C24-R7)."
    ),
    not_decided="backend-visible transaction / isolation state; custom reset event handlers; reset_on_return=None.",
)

POOL = "pool/base.py"
ENG = "engine/base.py"
DEF = "engine/default.py"
CHR = "engine/characteristics.py"


# ---------------------------------------------------------------------- C24-R1 (shared with C26-R5)
def finalize_fairy_reset(ctx):
    f = _nf(ctx, f"{POOL}::_finalize_fairy", "checkin", "_reset", "invalidate")
    g = rcfg(ctx, f)
    ps = PathSense(g)
    ctx.require(len(f.params) >= 2, "_finalize_fairy lost its (dbapi_connection, connection_record) parameters")
    dbapi, rec = f.params[0], f.params[1]
    checkin = call_nodes(g, lambda nm, c: nm == f"{rec}.checkin")
    reset = calls_ending(g, "_reset")
    inval = call_nodes(g, lambda nm, c: nm == f"{rec}.invalidate")
    ctx.require(checkin, f"no {rec}.checkin() call in _finalize_fairy")
    ctx.require(reset, "no ._reset() call in _finalize_fairy")
    live = test_edges(g, lambda t, p: t == f"{dbapi} is None" and p is False)
    ctx.require(live, f"no `{dbapi} is not None` branch in _finalize_fairy")
    live_tests = {a for a, _, _ in live}
    # (a) a live connection reaches check-in only after a completed reset or an invalidation
    w = None
    for n in checkin:
        w = g.always_preceded(n, live_tests)
        if w:
            break
    key = f.key + ":reset-before-checkin"
    if w:
        ctx.violation(key, f"check-in is reachable without testing whether {dbapi} is live", f.loc, w)
    else:
        w = ps.witness([b for _, _, b in live], checkin, avoid=inval, edge_ok=cut_normal_out(reset))
        # the start nodes themselves may be reset nodes: witness() does not test starts against avoid
        ctx.check(w is None, key,
                  "a live connection can be checked in without a completed reset and without being invalidated",
                  "every path live-connection -> checkin passes a completed _reset() or record.invalidate()", f.loc, w)
    # (b) an exception out of _reset reaches check-in only through invalidate
    w = ps.witness(reset, checkin, avoid=inval, start_edge_ok=lambda a, b, lab: lab == "exc")
    ctx.check(w is None, f.key + ":reset-failure-invalidates",
              "an exception raised by _reset() can reach checkin() without record.invalidate()",
              "reset failure -> invalidate(e) -> checkin", f.loc, w)
    # (c) the invalidation receives the caught exception and happens for every exception class
    hs = [n for n in g.nodes if n.kind == "handler" and set(g.reachable([n.id], edge_ok=no_exc)) & set(inval)]
    ok = bool(hs)
    for h in hs:
        t = h.stmt.type
        tn = dotted(t) if t is not None else "BaseException"
        if tn is None or tn.split(".")[-1] != "BaseException":
            ok = False
    ctx.check(ok, f.key + ":handler-catches-all",
              "the handler that invalidates after a failed reset does not catch BaseException "
              "(a cancelled / interrupted reset would skip invalidation)",
              "except BaseException -> invalidate", f.loc)


@R.rule("C24-R1", floor=3, template="T-PATH",
        desc="_finalize_fairy: a live connection is reset (or its record invalidated) before every "
             "check-in; a failing reset leads to record.invalidate(e) before check-in")
def r1(ctx):
    finalize_fairy_reset(ctx)


# ---------------------------------------------------------------------- C24-R2
def _style_edges(g, style):
    def pred(t, p):
        if not p or " is " not in t:
            return False
        left, _, right = t.partition(" is ")
        return left.endswith("_reset_on_return") and right.split(".")[-1] == style
    return test_edges(g, pred)


@R.rule("C24-R2", floor=3, template="T-GUARD",
        desc="_ConnectionFairy._reset: under reset_rollback do_rollback is skipped only when "
             "transaction_was_reset; under reset_commit do_commit runs; the reset event is dispatched "
             "on every call")
def r2(ctx):
    f = _nf(ctx, f"{POOL}::_ConnectionFairy._reset", "do_rollback", "do_commit", "reset")
    g = ctx.cfg(f)
    ctx.require("transaction_was_reset" in f.params and "asyncio_safe" in f.params,
                "_reset lost its transaction_was_reset / asyncio_safe parameters")
    rb = calls_ending(g, "do_rollback")
    cm = calls_ending(g, "do_commit")
    # rollback
    e_rb = _style_edges(g, "reset_rollback")
    ctx.require(e_rb, "no `_reset_on_return is reset_rollback` branch in _reset")
    skip = test_edges(g, lambda t, p: t == "transaction_was_reset" and p is True)
    w = must_pass(g, [b for _, _, b in e_rb], [g.exit], rb, edge_ok=both(no_exc, cut_edges(skip)))
    ctx.check(w is None, f.key + ":rollback",
              "under reset_rollback a path returns without do_rollback() although the transaction was not reset",
              "reset_rollback: do_rollback unless transaction_was_reset", f.loc, w)
    # commit
    e_cm = _style_edges(g, "reset_commit")
    ctx.require(e_cm, "no `_reset_on_return is reset_commit` branch in _reset")
    w = must_pass(g, [b for _, _, b in e_cm], [g.exit], cm, edge_ok=no_exc)
    ctx.check(w is None, f.key + ":commit", "under reset_commit a path returns without do_commit()",
              "reset_commit: do_commit on every path", f.loc, w)
    # reset event on every call (an empty listener collection needs no dispatch)
    disp = call_nodes(g, lambda nm, c: nm.endswith("dispatch.reset"))
    ctx.require(disp, "no dispatch.reset(...) call in _reset")
    empty = test_edges(g, lambda t, p: t.endswith("dispatch.reset") and p is False)
    w = must_pass(g, [g.entry], [g.exit], disp, edge_ok=both(no_exc, cut_edges(empty)))
    ctx.check(w is None, f.key + ":reset-event",
              "a path through _reset returns without dispatching the reset event although listeners exist",
              "dispatch.reset on every call", f.loc, w)


# ---------------------------------------------------------------------- C24-R3
@R.rule("C24-R3", floor=2, template="T-GUARD",
        desc="Connection.close: _close_special(transaction_reset=True) only after self._transaction.close(); "
             "otherwise the pooled connection is closed with a full reset")
def r3(ctx):
    f = _nf(ctx, f"{ENG}::Connection.close", "_close_special", "close", alias="dotted")
    g = ctx.cfg(f)
    ps = PathSense(g)
    special = call_nodes(
        g, lambda nm, c: nm.endswith("._close_special") and is_true(kw_or_pos(c, "transaction_reset", 0) or ast.Constant(False)))
    tclose = call_nodes(g, lambda nm, c: nm == "self._transaction.close")
    ctx.require(special, "no _close_special(transaction_reset=True) call in Connection.close")
    w = ps.witness([g.entry], special, avoid=tclose)
    ctx.check(w is None, f.key + ":transaction_reset",
              "_close_special(transaction_reset=True) is reachable without self._transaction.close() having run "
              "(the pool would skip its rollback on a connection that still has a transaction)",
              "transaction_reset=True only after self._transaction.close()", f.loc, w)
    # the path without a transaction releases the pooled connection through a resetting close()
    conn_names = {n for n, v, _ in name_stores(f.node) if v is not None and dotted(v) == "self._dbapi_connection"}
    full = call_nodes(
        g, lambda nm, c: nm == "self._dbapi_connection.close"
        or (nm.endswith(".close") and nm.rsplit(".", 1)[0] in conn_names))
    notrans = test_edges(g, lambda t, p: t == "self._transaction" and p is False)
    ctx.require(notrans, "no `if self._transaction` branch in Connection.close")
    gone = test_edges(g, lambda t, p: t == "self._dbapi_connection is None" and p is True)
    w = ps.witness([b for _, _, b in notrans], [g.exit], avoid=full + special, edge_ok=both(no_exc, cut_edges(gone)))
    w2 = ps.witness([b for _, _, b in notrans], special)
    ctx.check(w is None and w2 is None, f.key + ":plain-close",
              "without an open transaction the pooled connection is not released through close() (full reset)",
              "no transaction -> conn.close() (reset with transaction_was_reset=False)", f.loc, w or w2)


# ---------------------------------------------------------------------- C24-R4
def _local_defs(fn, name):
    return [v for nm, v, _ in name_stores(fn) if nm == name and v is not None]


def _through_locals(fn, expr, depth=0):
    """dotted text of `expr` with a leading local alias replaced by its (single) definition."""
    d = dotted(expr)
    if d is None or depth > 4:
        return d
    head, _, rest = d.partition(".")
    defs = _local_defs(fn, head)
    if len(defs) == 1:
        base = _through_locals(fn, defs[0], depth + 1)
        if base is not None:
            return base + ("." + rest if rest else "")
    return d


def _ancestors(pm, node, stop):
    out, cur = [], pm.get(node)
    while cur is not None and cur is not stop:
        out.append(cur)
        cur = pm.get(cur)
    return out


def _root_names(fn, expr, seen=None):
    """Names `expr` is computed from, followed through local definitions (transitively)."""
    seen = set() if seen is None else seen
    out = set()
    for x in ast.walk(expr):
        if isinstance(x, ast.Name) and isinstance(x.ctx, ast.Load) and x.id not in seen:
            seen.add(x.id)
            out.add(x.id)
            for v in _local_defs(fn, x.id):
                out |= _root_names(fn, v, seen)
            # a list built by a loop instead of a comprehension (`xs = []` / `for k in coll: xs.append(f(k))`)
            # is computed from what it is filled with and from what drives the filling loop
            for a in ast.walk(fn):
                if isinstance(a, (ast.For, ast.AsyncFor)):
                    for c in ast.walk(a):
                        if isinstance(c, ast.Call) and isinstance(c.func, ast.Attribute) and c.func.attr in ("append", "add", "extend", "insert") \
                                and isinstance(c.func.value, ast.Name) and c.func.value.id == x.id:
                            out |= _root_names(fn, a.iter, seen)
                            for arg in c.args:
                                out |= _root_names(fn, arg, seen)
    return out


_COPIES = {"list", "tuple", "set", "frozenset", "dict", "sorted", "immutabledict", "OrderedDict"}
_VIEWS = {"keys", "items", "copy", "union"}


def _covers(fn, expr, param, depth=0):
    """Is `expr` the whole collection `param` (itself, a copy, its key view, an unfiltered comprehension
    over it, or a local defined only as such)?"""
    if depth > 5:
        return False
    if isinstance(expr, ast.Name):
        if expr.id == param:
            return True
        defs = _local_defs(fn, expr.id)
        return bool(defs) and all(_covers(fn, v, param, depth + 1) for v in defs)
    if isinstance(expr, ast.Call):
        nm = (call_name(expr) or "").rsplit(".", 1)[-1]
        if nm in _COPIES and len(expr.args) == 1 and not expr.keywords:
            return _covers(fn, expr.args[0], param, depth + 1)
        if nm in _VIEWS and isinstance(expr.func, ast.Attribute) and not expr.args:
            return _covers(fn, expr.func.value, param, depth + 1)
        return False
    if isinstance(expr, (ast.ListComp, ast.SetComp, ast.GeneratorExp, ast.DictComp)):
        return len(expr.generators) == 1 and not expr.generators[0].ifs \
            and _covers(fn, expr.generators[0].iter, param, depth + 1)
    return False


@R.rule("C24-R4", floor=7, template="T-PATH",
        desc="every set_connection_characteristic is paired with a registered _reset_characteristics "
             "finaliser (also when a later characteristic fails); checkin drains finalize_callback before "
             "_return_conn, and a finaliser that raises never reaches _return_conn with the record live; __close clears it")
def r4(ctx):
    f = _nf(ctx, f"{DEF}::DefaultDialect._set_connection_characteristics", "set_connection_characteristic",
            "_reset_characteristics", alias=None)
    g = ctx.cfg(f)
    setc = calls_ending(g, "set_connection_characteristic")
    ctx.require(setc, "no set_connection_characteristic() call in _set_connection_characteristics")

    def is_register(nm, c):
        if nm.rsplit(".", 1)[-1] not in ("append", "appendleft") or not isinstance(c.func, ast.Attribute):
            return False
        if not (_through_locals(f.node, c.func.value) or "").endswith("finalize_callback"):
            return False
        return any(isinstance(x, ast.Attribute) and x.attr == "_reset_characteristics" for a in c.args for x in ast.walk(a))
    reg = call_nodes(g, is_register)
    # registered on every normal path after the set call, or already registered before any set call runs
    pending = [n for n in setc if not reg or g.always_preceded(n, reg) is not None]
    w = (must_pass(g, pending, [g.exit], reg, edge_ok=no_exc) if pending else None) if reg \
        else ['no finaliser registration at all']
    ctx.check(bool(reg) and w is None, f.key + ":finaliser-registered",
              "a path sets a connection characteristic and returns without registering the "
              "_reset_characteristics finaliser on the connection record",
              "set_connection_characteristic -> finalize_callback.append(partial(_reset_characteristics))", f.loc, w)
    # exceptional exit after at least one characteristic was set: the finaliser must already be registered
    # (the first set call has nothing to undo if it raises itself; a later one leaves earlier settings behind)
    if reg:
        bad = None
        for n in setc:
            if g.always_preceded(n, reg) is None:
                continue
            # can this node run again after having completed once (loop) and then raise?
            again = n in g.reachable([b for b, lab in g.succ[n] if lab != "exc"], avoid=reg, edge_ok=no_exc)
            later = [m for m in setc if m != n and m in g.reachable([b for b, lab in g.succ[n] if lab != "exc"], avoid=reg, edge_ok=no_exc)]
            if again or later:
                src = [n] if again else later
                bad = g.must_pass(src, [g.raise_exit], reg, start_edge_ok=lambda a, b, lab: lab == "exc")
                if bad:
                    bad = ["(after a previous set_connection_characteristic completed)"] + bad
                    break
        ctx.check(bad is None, f.key + ":finaliser-on-error",
                  "when a later set_connection_characteristic() raises, characteristics already set on the DBAPI "
                  "connection have no reset finaliser registered: the connection returns to the pool with them",
                  "finaliser registered before any characteristic can be left set", f.loc, bad)
    # the finaliser resets (at least) every name this call applies: its bound argument is the whole collection
    # the set loop is driven by, not a filtered / unrelated one
    pm = f.pm
    params = set(f.params) - {"self", "cls"}
    driven = set()
    for n in setc:
        st = g.nodes[n].stmt
        loops = [a for a in _ancestors(pm, st, f.node) if isinstance(a, (ast.For, ast.AsyncFor))]
        ctx.require(loops, "set_connection_characteristic() is no longer driven by a loop over the requested characteristics")
        for lp in loops:
            driven |= _root_names(f.node, lp.iter) & params
    bound = []
    for n in reg:
        for c in calls_in(g.nodes[n].stmt):
            if isinstance(c.func, (ast.Name, ast.Attribute)) and (call_name(c) or "").rsplit(".", 1)[-1] == "partial" \
                    and c.args and isinstance(c.args[0], ast.Attribute) and c.args[0].attr == "_reset_characteristics":
                bound.append(c)
    if reg:
        ctx.require(bound, "the _reset_characteristics finaliser is not registered as functools.partial(self._reset_characteristics, <names>)")
        coll = driven
        ctx.require(coll, "cannot tell which parameter of _set_connection_characteristics drives the set calls")
        bad = [(unparse(b), p_) for b in bound for p_ in sorted(coll)
               if not any(_covers(f.node, a, p_) for a in b.args[1:])]
        ctx.check(not bad, f.key + ":finaliser-covers-set-names",
                  "the reset finaliser is bound to something other than the complete collection that drives the "
                  "set_connection_characteristic() calls: " + "; ".join(f"`{b}` does not cover `{p_}`" for b, p_ in bad)
                  + " (a characteristic that is applied may never be reset)",
                  "partial(_reset_characteristics, <the collection being applied>)", f.loc)
    # checkin drains the callbacks before returning the record
    fc = _nf(ctx, f"{POOL}::_ConnectionRecord.checkin", "_return_conn", alias="dotted")
    gc_ = ctx.cfg(fc)
    ret = calls_ending(gc_, "_return_conn")
    ctx.require(ret, "no _return_conn() call in _ConnectionRecord.checkin")
    drained = True
    cleared = call_nodes(gc_, lambda nm, c: nm.endswith("finalize_callback.clear"))
    for n in ret:
        atoms = []
        for t, pol in gc_.edge_guards(n):
            atoms.extend(test_atoms(t, pol))
        # ... or the pending finalisers were discarded (error path that invalidates the record: nothing left to reset)
        if ("self.finalize_callback", False) not in atoms and not (cleared and gc_.always_preceded(n, cleared) is None):
            drained = False
    ctx.check(drained, fc.key + ":drain-before-return",
              "_return_conn() is reachable while finalize_callback may still hold finalisers",
              "_return_conn dominated by `finalize_callback` empty", fc.loc)
    # each popped finaliser is invoked (on a live connection)
    popped = {n for n, v, _ in name_stores(fc.node)
              if isinstance(v, ast.Call) and (call_name(v) or "").rsplit(".", 1)[0].endswith("finalize_callback")
              and (call_name(v) or "").rsplit(".", 1)[-1] in ("pop", "popleft")}
    ctx.require(popped, "checkin does not pop finalisers from finalize_callback")
    pops = call_nodes(gc_, lambda nm, c: nm.endswith("finalize_callback.pop") or nm.endswith("finalize_callback.popleft"))
    invoke = call_nodes(gc_, lambda nm, c: nm in popped)
    conn_names = {n for n, v, _ in name_stores(fc.node) if v is not None and dotted(v) == "self.dbapi_connection"}
    dead = test_edges(gc_, lambda t, p: p is True and t.endswith(" is None")
                      and (t[:-8] in conn_names or t[:-8] == "self.dbapi_connection"))
    loop_heads = [n.id for n in gc_.nodes if n.kind == "test" and isinstance(n.stmt, ast.While)]
    w = must_pass(gc_, pops, loop_heads + [gc_.exit], invoke, edge_ok=both(no_exc, cut_edges(dead)))
    ctx.check(bool(invoke) and w is None, fc.key + ":finaliser-invoked",
              "a finaliser popped from finalize_callback is dropped without being called on a live connection",
              "every popped finaliser is called with the DBAPI connection", fc.loc, w)
    # a finaliser that FAILS has not reset its characteristic: the record must not be handed back to the pool live.
    # Either the exception leaves checkin (today), or the record is invalidated / closed before _return_conn; an
    # exceptional exit of the invocation that reaches _return_conn otherwise (swallowing handler, `finally`) pools the
    # DBAPI connection with the previous user's isolation level.  Same shape as C24-R1's reset-failure-invalidates.
    fk = _nf(ctx, f"{POOL}::_ConnectionRecord.checkin", "_return_conn", "invalidate", "__close", "close", alias="dotted")
    gk = rcfg(ctx, fk)
    popped_k = {n for n, v, _ in name_stores(fk.node)
                if isinstance(v, ast.Call) and (call_name(v) or "").rsplit(".", 1)[0].endswith("finalize_callback")
                and (call_name(v) or "").rsplit(".", 1)[-1] in ("pop", "popleft")}
    invoke_k = call_nodes(gk, lambda nm, c: nm in popped_k)
    ret_k = calls_ending(gk, "_return_conn")
    ctx.require(invoke_k and ret_k, "checkin (helpers inlined, `invalidate`/`__close` kept): finaliser invocation or _return_conn() not found")
    discard = call_nodes(gk, lambda nm, c: nm in ("self.invalidate", "self.__close", "self.close"))
    w = PathSense(gk).witness(invoke_k, ret_k, avoid=discard, start_edge_ok=lambda a, b, lab: lab == "exc")
    ctx.check(w is None, fc.key + ":finaliser-failure-not-pooled",
              "an exception raised by a finaliser (the reset of the connection characteristics, e.g. of the isolation "
              "level, failed) can reach _return_conn() without the record being invalidated: the DBAPI connection goes "
              "back into the pool with the previous user's characteristic still set",
              "a failing finaliser never reaches _return_conn() with the record live", fc.loc, w)
    # __close discards pending finalisers (the connection they would reset is gone)
    fx = _nf(ctx, f"{POOL}::_ConnectionRecord.__close", "_close_connection", alias="dotted")
    gx = ctx.cfg(fx)
    clr = call_nodes(gx, lambda nm, c: nm.endswith("finalize_callback.clear"))
    w = must_pass(gx, [gx.entry], [gx.exit], clr, edge_ok=no_exc)
    ctx.check(bool(clr) and w is None, fx.key + ":clear",
              "__close can complete without clearing finalize_callback (stale finalisers would run on the next connection)",
              "finalize_callback.clear() on every normal path", fx.loc, w)


# ---------------------------------------------------------------------- C24-R5
def _is_abstract_or_unimplemented(fi) -> bool:
    if any(d.split(".")[-1] == "abstractmethod" for d in fi.decorators):
        return True
    body = [s for s in fi.node.body if not (isinstance(s, ast.Expr) and isinstance(s.value, ast.Constant))]
    if len(body) == 1 and isinstance(body[0], ast.Raise):
        nm = body[0].exc
        if isinstance(nm, ast.Call):
            nm = nm.func
        return (dotted(nm) or "").split(".")[-1] == "NotImplementedError"
    return False


@R.rule("C24-R5", floor=8, template="T-EXHAUST",
        desc="every ConnectionCharacteristic subclass implements a working set_connection_characteristic "
             "and reset_characteristic; every connection_characteristics entry is such a class")
def r5(ctx):
    ix = ctx.index
    base = ix.cls(f"{CHR}::ConnectionCharacteristic")
    subs = ix.subclasses(base)
    ctx.require(subs, "no ConnectionCharacteristic subclasses found")
    base_setconn = base.methods.get("set_connection_characteristic")
    ctx.require(base_setconn is not None, "ConnectionCharacteristic.set_connection_characteristic missing")
    delegates = {(call_name(c) or "") for c in calls_in(base_setconn.node)}
    ctx.require("self.set_characteristic" in delegates,
                "base set_connection_characteristic no longer delegates to self.set_characteristic")
    good = set()
    for c in subs:
        problems = []
        rs = ix.resolve_method(c, "reset_characteristic")
        if rs is None or _is_abstract_or_unimplemented(rs):
            problems.append("reset_characteristic is not implemented")
        sc = ix.resolve_method(c, "set_connection_characteristic")
        if sc is None or _is_abstract_or_unimplemented(sc):
            problems.append("set_connection_characteristic is not implemented")
        elif sc is base_setconn:
            s2 = ix.resolve_method(c, "set_characteristic")
            if s2 is None or _is_abstract_or_unimplemented(s2):
                problems.append("set_characteristic (used by the inherited set_connection_characteristic) is not implemented")
        if not problems:
            good.add(c)
        ctx.check(not problems, c.key, "; ".join(problems), "set + reset implemented", c.loc)
    # tables
    dialect = ix.cls(f"{DEF}::DefaultDialect")
    n_entries = 0
    for c in [dialect] + ix.subclasses(dialect):
        for val in c.assigns.get("connection_characteristics", []):
            for d in [x for x in ast.walk(val) if isinstance(x, ast.Dict)]:
                for k, v in zip(d.keys, d.values):
                    ctx.require(k is not None and isinstance(k, ast.Constant) and isinstance(k.value, str),
                                f"{c.key}.connection_characteristics: non-literal key {unparse(k) if k else '**'}")
                    key = f"{c.key}.connection_characteristics[{k.value}]"
                    n_entries += 1
                    tgt = None
                    if isinstance(v, ast.Call) and dotted(v.func):
                        tgt = ix.resolve(c.module, dotted(v.func))
                    ctx.check(tgt in good, key,
                              f"entry `{unparse(v)}` is not an instance of a ConnectionCharacteristic class with set+reset",
                              f"-> {getattr(tgt, 'name', '?')}", f"{c.module.path}:{v.lineno}")
    ctx.require(n_entries, "no connection_characteristics dict entries found")


# ---------------------------------------------------------------------- C24-R6
# DBAPI-level calls that end the transaction on the pooled connection (meaning of the Dialect API)
RESET_EFFECTS = {"do_rollback", "do_commit", "do_rollback_twophase", "do_commit_twophase"}
CLAIM_KEYWORDS = ("transaction_reset", "transaction_was_reset")

# Branch outcomes that may bypass the rollback although the pool is then told "already reset".
SKIP_OK = {
    f"{ENG}::Connection._rollback_impl:skips-reset[self._still_open_and_dbapi_connection_is_valid=False]":
        "no live DBAPI connection behind the fairy (closed / invalidated): the fairy is finalised with "
        "dbapi_connection None, nothing is reset and nothing live is returned to the pool",
    f"{ENG}::Connection._rollback_twophase_impl:skips-reset[self._still_open_and_dbapi_connection_is_valid=False]":
        "no live DBAPI connection behind the fairy (closed / invalidated): nothing live is returned to the pool",
    # shape of the alternative fix for the `failing COMMIT, then close()` finding (see notes/str-j.md): _close_impl rolls
    # back when `self.is_active or self.connection._transaction is self`.  The remaining bypass needs the second disjunct
    # to be false, i.e. the transaction is no longer the connection's current one -- but Connection.close() only calls
    # close() on `self._transaction`, the object RootTransaction.__init__ published as `connection._transaction` with
    # `self.connection = connection` (no other non-None store exists: C23-R3), so it cannot be taken from there.
    f"{ENG}::RootTransaction._close_impl:skips-reset[self.is_active=False, self.connection._transaction is self=False]":
        "unreachable from Connection.close(): the transaction it closes is by construction connection._transaction",
}


def _is_reset_effect(call: ast.Call) -> bool:
    nm = call_name(call) or ""
    parts = nm.split(".")
    return len(parts) >= 2 and parts[-1] in RESET_EFFECTS and parts[-2].lstrip("_") == "dialect"


def _attr_class(ix, cls, attr):
    """Declared class of `self.<attr>` (class-level annotation somewhere in the MRO), else None."""
    for k in ix.mro(cls):
        for st in k.node.body:
            if isinstance(st, ast.AnnAssign) and isinstance(st.target, ast.Name) and st.target.id == attr:
                r = _ann_class(ix, k.module, st.annotation)
                if r is not None:
                    return r
    return None


def _call_targets(ix, cls, call):
    """[(concrete class, FuncInfo, receiver suffix)] for `self.m()` / `self.attr.m()` seen from the
    concrete class `cls` (dynamic dispatch: the declared class of the attribute and its subclasses)."""
    parts = (call_name(call) or "").split(".")
    if parts[0] != "self" or len(parts) not in (2, 3):
        return []
    if len(parts) == 2:
        t = ix.resolve_method(cls, parts[1])
        return [(cls, t, "")] if t is not None else []
    d = _attr_class(ix, cls, parts[1])
    if d is None:
        return []
    out = []
    for c in [d] + ix.subclasses(d):
        t = ix.resolve_method(c, parts[2])
        if t is not None:
            out.append((c, t, "." + parts[1]))
    return out


def _rebase(txt: str, prefix: str) -> str:
    if txt == "self" or txt.startswith("self."):
        return prefix + txt[4:]
    return txt


class _ResetChain:
    """Inter-procedural `does this call reach a transaction-ending DBAPI call on every normal path`.
    A function is *capable* when it contains a reset effect or a call to a capable method; every
    branch edge that commits a path to leave a capable function without passing such a node is
    recorded as a *skip* (keyed by function + guard)."""

    MAX_DEPTH = 8

    def __init__(self, ctx):
        self.ctx = ctx
        self.skips = {}      # key -> dict(label, atoms, loc, path, fi, chain)
        self.partial = {}    # key -> text (an override in the dispatch set that never resets)

    def call_capable(self, cls, f, call, prefix, stack):
        """Does `call` (inside method f, executed with self of concrete class cls) reach a reset effect?
        With dynamic dispatch every candidate must; a candidate that never does is reported."""
        tg = _call_targets(self.ctx.index, cls, call)
        if not tg:
            return False
        res = [(C, t, self.capable(C, t, prefix + sfx, stack)) for C, t, sfx in tg]
        if not any(r for _, _, r in res):
            return False
        for C, t, r in res:
            if not r:
                self.partial[f"{t.key}:never-resets[{C.name}]"] = (
                    f"for a {C.name}, {t.qualname} (reached from {f.qualname} by dynamic dispatch) never "
                    f"reaches {'/'.join(sorted(RESET_EFFECTS))}", t.loc)
        return True

    def capable(self, cls, f, prefix, stack):
        ctx, ix = self.ctx, self.ctx.index
        if len(stack) >= self.MAX_DEPTH or (cls.key, f.key) in stack:
            return False
        stack = stack + [(cls.key, f.key)]
        g = rcfg(ctx, f)
        T = set()
        normal = g.reachable([g.entry], edge_ok=no_exc)   # handlers are not part of the normal path
        for n in g.nodes:
            if n.id not in normal:
                continue
            for c in own_calls(n):
                if _is_reset_effect(c):
                    T.add(n.id)
                    break
                if self.call_capable(cls, f, c, prefix, stack):
                    T.add(n.id)
                    break
        if not T:
            return False
        pred = {}
        for a, outs in g.succ.items():
            for b, lab in outs:
                if lab != "exc":
                    pred.setdefault(b, []).append(a)

        def back(starts):
            seen, todo = set(starts), list(starts)
            while todo:
                x = todo.pop()
                for p in pred.get(x, ()):
                    if p not in seen:
                        seen.add(p)
                        todo.append(p)
            return seen
        can_t = back(T)
        to_exit = back([g.exit])
        pre = g.reachable([g.entry], avoid=T, edge_ok=no_exc)
        if g.entry not in can_t:
            return False
        for a in sorted(pre):
            if a not in can_t or a in T:
                continue
            for b, lab in g.succ[a]:
                if lab == "exc" or b in can_t or b not in to_exit:
                    continue
                n = g.nodes[a]
                oc = outcome(g, a, lab)
                if n.kind == "test" and oc is not None:
                    atoms = test_atoms(n.stmt.test, oc == "true")
                    label = ", ".join(f"{t}={p}" for t, p in atoms)
                else:
                    atoms = []
                    label = f"{n.kind}:{n.describe().split(' ', 1)[-1]}"
                key = f"{f.key}:skips-reset[{label}]"
                if key in self.skips:
                    continue
                w = g.witness([g.entry], [a], avoid=T, edge_ok=no_exc) or [a]
                w2 = g.witness([b], [g.exit], edge_ok=no_exc) or []
                path = [f"in {f.qualname} (self = {prefix}):"] + g.describe_path(list(w) + [b] + list(w2)[1:])
                dom = [f"{t}={p}" for tt, pp in g.edge_guards(a) for t, p in test_atoms(tt, pp)]
                self.skips[key] = dict(
                    label=label, atoms=[(_rebase(t, prefix), p) for t, p in atoms], fi=f,
                    loc=f"{f.module.path}:{getattr(n.stmt, 'lineno', f.node.lineno)}", path=path,
                    when=", ".join(dom + [label]))
        return True


def _reset_claims(ctx):
    """[(FuncInfo, call)]: calls in the package that tell the pool `the transaction was already
    reset` with a value that is neither False nor a forwarded parameter."""
    ix = ctx.index
    out = []
    for m in ix.all_modules():
        if not any(k in m.source for k in CLAIM_KEYWORDS):
            continue
        for fi in ix.all_functions(m):
            if fi.type_only:
                continue
            for c in calls_in(fi.node):
                for k in c.keywords:
                    if k.arg in CLAIM_KEYWORDS:
                        v = k.value
                        if isinstance(v, ast.Constant) and v.value is False:
                            continue
                        if isinstance(v, ast.Name) and v.id in fi.params:
                            continue
                        out.append((fi, c, v))
    seen, uniq = set(), []
    for fi, c, v in out:
        if id(c) not in seen:
            seen.add(id(c))
            uniq.append((fi, c, v))
    # the claim is judged in the normal form of its function (helpers inlined, `trans = self._transaction` resolved):
    # the claim call is looked up again there (a claim inside an extracted helper is found by the package scan above
    # in the helper itself, which is analysed like any other function)
    res = []
    for fi in {id(x[0]): x[0] for x in uniq}.values():
        keep = {(call_name(c) or "?").rsplit(".", 1)[-1] for f2, c, v in uniq if f2 is fi}
        nf = normal_form(ctx, fi, keep=keep | {"close"}, alias="dotted")
        for c in calls_in(nf.node):
            for k in c.keywords:
                if k.arg in CLAIM_KEYWORDS:
                    v = k.value
                    if isinstance(v, ast.Constant) and v.value is False:
                        continue
                    if isinstance(v, ast.Name) and v.id in nf.params:
                        continue
                    res.append((nf, c, v))
    return res


def _known_when_true(fi, g, bnodes, name, depth=0):
    """Atoms implied by the local `name` being true at the claim: the conjunctive atoms common to all of its
    non-False definitions.  A definition evaluated after the backing call says nothing about the state the call
    saw; a definition that merely copies another local (`flag = was_active`) carries that local's knowledge."""
    defs = [(v, st) for nm, v, st in name_stores(fi.node) if nm == name and v is not None]
    live = [(v, st) for v, st in defs if not is_false(v)]
    per_def = []
    for v, st in live:
        if isinstance(v, ast.Name) and depth < 3:
            per_def.append({(v.id, True)} | _known_when_true(fi, g, bnodes, v.id, depth + 1))
            continue
        dn = g.nodes_for(st)
        after = any(d in g.reachable(bnodes, include_starts=False) for d in dn)
        per_def.append(set() if (is_true(v) or after) else set(test_atoms(v, True)))
    return set.intersection(*per_def) if per_def else set()


# floor: today 4 instances (1 claim site + 3 bypass branches); only the claim-site instance is mandatory -- the
# number of bypass branches legitimately shrinks when one is removed by a fix, and a backed claim implies that a
# DBAPI effect call was found (the rule cannot be blind and pass).
@R.rule("C24-R6", floor=1, template="T-PATH",
        desc="every site that tells the pool `transaction already reset` is dominated by a call that reaches "
             "dialect.do_rollback/do_commit on every normal path (followed through the call graph with dynamic "
             "dispatch); each branch that bypasses the DBAPI call is either implied false by the guard of the "
             "claim, or a frozen `no live connection` case")
def r6(ctx):
    ix = ctx.index
    claims = _reset_claims(ctx)
    ctx.require(claims, "no call passes transaction_reset / transaction_was_reset = <claim> any more")
    chain = _ResetChain(ctx)
    for fi, call, val in claims:
        ctx.require(is_true(val), f"{fi.key}: reset claim value `{unparse(val)}` is not the constant True "
                                  "(guard the call instead; value-dependent claims are not understood)")
        ctx.require(fi.cls is not None, f"{fi.key}: reset claim outside a class")
        g = ctx.cfg(fi)
        claim_nodes = [n.id for n in g.nodes if any(c is call for c in own_calls(n))]
        ctx.require(claim_nodes, f"{fi.key}: claim call not found in the CFG")
        backing = []   # (node, prefix)
        for n in g.nodes:
            for c in own_calls(n):
                if c is call:
                    continue
                if chain.call_capable(fi.cls, fi, c, "self", [(fi.cls.key, fi.key)]):
                    backing.append((n.id, None))
        if not backing:
            # Nothing here can be followed to a DBAPI rollback.  That is a definite finding only when another rule
            # (C24-R3, on the same function) has independently established that the transaction is not closed
            # before the claim; otherwise the call graph may simply not be resolvable any more: unknown, not a violation.
            corroborated = any(i.verdict == "violation" and i.rule == "C24-R3" and i.key.startswith(fi.key + ":")
                               for i in ctx.instances)
            ctx.require(corroborated,
                        f"{fi.key}: no call in this function can be followed to dialect.do_rollback()/do_commit(): "
                        "either the rollback chain behind the `transaction already reset` claim is broken, or the "
                        "call graph (self.m() / annotated self.attr.m()) can no longer be resolved")
            ctx.violation(fi.key + ":reset-claim-backed",
                          "the pool is told the transaction was already reset, but nothing in this function reaches "
                          "dialect.do_rollback()/do_commit()", fi.loc)
            continue
        w = None
        dominating = []
        ps = PathSense(g)
        for cn in claim_nodes:
            dominating = [b for b, _ in backing if ps.witness([g.entry], [cn], avoid=[b]) is None]
            if not dominating:
                w = ps.witness([g.entry], [cn], avoid=[b for b, _ in backing]) or [g.nodes[cn].describe()]
                break
        key = fi.key + ":reset-claim-backed"
        ctx.check(w is None, key,
                  "the pool is told the transaction was already reset, but no call that can reach "
                  "dialect.do_rollback()/do_commit() precedes this on every path",
                  "claim dominated by " + ", ".join(sorted({g.nodes[b].describe() for b in dominating})), fi.loc, w)
        # what is known when the claim is made: dominating branch outcomes, locals expanded to their definitions
        facts = set()
        bnodes = [b for b, _ in backing]
        for cn in claim_nodes:
            for t, pol in g.edge_guards(cn):
                for txt, p in test_atoms(t, pol):
                    facts.add((txt, p))
                    if not (p and txt.isidentifier()):
                        continue
                    facts |= _known_when_true(fi, g, bnodes, txt)
    for key, (msg, loc) in sorted(chain.partial.items()):
        ctx.violation(key, msg + " although the caller tells the pool the transaction was reset", loc)
    for key, s in sorted(chain.skips.items()):
        contradicted = [(t, p) for t, p in s["atoms"] if (t, not p) in facts]
        if contradicted:
            ctx.ok(key, "bypass impossible when the claim is made: the claim is guarded by "
                        + ", ".join(f"{t}={not p}" for t, p in contradicted))
        elif key in SKIP_OK:
            ctx.ok(key, "frozen: " + SKIP_OK[key], nontrivial=False)
        else:
            ctx.violation(
                key,
                f"when {s['when']}, {s['fi'].qualname} returns without reaching the DBAPI rollback/commit "
                f"({'/'.join(sorted(RESET_EFFECTS))}), yet the caller then tells the pool the transaction was "
                "already reset (transaction_reset=True) so the pool skips its own rollback-on-return: the DBAPI "
                "connection is pooled with the previous user's transaction open",
                s["loc"], s["path"])


# ---------------------------------------------------------------------- C24-R7 (str2-k, round-2 seed C24_4)
# What "default isolation level" of a pooled connection means (documented for create_engine(isolation_level=...) and
# Dialect.reset_isolation_level): the level configured for the whole engine when there is one -- that is what the
# on-connect hook puts every new DBAPI connection into -- otherwise the level detected on the first connection.
ISO_CONFIGURED = "self._on_connect_isolation_level"
ISO_DETECTED = "self.default_isolation_level"
ISO_SINKS = ("_assert_and_set_isolation_level", "set_isolation_level")


def _is_iso_sink(callee: str) -> bool:
    return callee.rsplit(".", 1)[-1] in ISO_SINKS


@R.rule("C24-R7", floor=5, template="T-TABLE (scenario evaluation) / sibling agreement",
        desc="reset_isolation_level (every implementation under DefaultDialect) restores the level the on-connect hook "
             "gives a new connection: with an engine-wide level configured (_on_connect_isolation_level is not None) "
             "every path sets exactly that level, whatever was detected on the server; without one, the detected "
             "default_isolation_level; IsolationLevelCharacteristic.reset_characteristic goes through it")
def r7(ctx):
    from ._helpers_rob_c1 import Opaque, Unsupported
    from ._helpers_rob_e2 import expand
    from ._helpers_str2_k import call_arg, callee_of, explore_effects
    ix = ctx.index
    base = ix.cls(f"{DEF}::DefaultDialect")
    impls = [(c, c.methods["reset_isolation_level"]) for c in [base] + ix.subclasses(base)
             if "reset_isolation_level" in c.methods and not c.methods["reset_isolation_level"].type_only]
    ctx.require(any(c is base for c, _ in impls), "DefaultDialect.reset_isolation_level vanished")
    # A configured level other than AUTOCOMMIT is what detection then reports (the first connection is inspected after
    # the on-connect hook ran): there the two attributes name the same level and either spelling restores it.  AUTOCOMMIT
    # is not a server-side level: detection reports the transactional level underneath it.
    is_ac = [ISO_CONFIGURED + " == 'AUTOCOMMIT'", "'AUTOCOMMIT' == " + ISO_CONFIGURED]
    scenarios = [
        ("engine-level-autocommit", {ISO_CONFIGURED + " is None": False, ISO_CONFIGURED: True, **{a: True for a in is_ac}},
         (ISO_CONFIGURED, repr("AUTOCOMMIT")), "the engine is configured with create_engine(isolation_level='AUTOCOMMIT')"),
        ("engine-level-configured", {ISO_CONFIGURED + " is None": False, ISO_CONFIGURED: True, **{a: False for a in is_ac},
                                     ISO_DETECTED + " is None": False, ISO_DETECTED: True},
         (ISO_CONFIGURED, ISO_DETECTED), "an engine-wide isolation level other than AUTOCOMMIT is configured"),
        ("no-engine-level", {ISO_CONFIGURED + " is None": True, ISO_CONFIGURED: False, **{a: False for a in is_ac},
                             ISO_DETECTED + " is None": False, ISO_DETECTED: True}, (ISO_DETECTED,),
         "no engine-wide isolation level is configured"),
    ]
    for c, m in impls:
        params = [p for p in m.params if p not in ("self",)]
        for tag, scen, expected, words in scenarios:
            key = f"{m.key}:{tag}"
            try:
                paths = explore_effects(ctx, m, [Opaque("self")] + [Opaque(p) for p in params], cls=c, no_follow=ISO_SINKS,
                                        scenario=scen)
            except Unsupported as e:
                ctx.error(f"{m.key}: cannot be evaluated symbolically: {e}")
            bad, n_ret = None, 0
            for assign, (kind, _val), effects in paths:
                if kind != "return":
                    continue
                n_ret += 1
                sinks = [op for op in effects if _is_iso_sink(callee_of(op))]
                if any(callee_of(op).endswith(".reset_isolation_level") and not callee_of(op).startswith("self.") for op in effects):
                    continue        # an override that delegates to the base implementation (judged on its own)
                extra = ", ".join(f"{k}={v}" for k, v in sorted(assign.items()) if k not in scen)
                if not sinks:
                    bad = bad or f"a path{' (' + extra + ')' if extra else ''} returns without setting any isolation level"
                    continue
                lvl = call_arg(sinks[-1], 1, "level")
                got = lvl.label if isinstance(lvl, Opaque) else repr(lvl)
                if got not in expected:
                    bad = bad or (f"the connection is left at `{got}`{' (when ' + extra + ')' if extra else ''} instead of "
                                  f"`{expected[0]}`")
            ctx.require(n_ret, f"{m.key}: no returning path when {words}")
            ctx.check(bad is None, key,
                      f"when {words}, {bad}: the next checkout of this pooled connection does not get the engine's "
                      f"default isolation level" + (" (detection reports the transactional level underneath AUTOCOMMIT: "
                                                    "an AUTOCOMMIT engine silently turns transactional, un-committed "
                                                    "work of the next user is rolled back on return)" if tag == "engine-level-autocommit" else ""),
                      f"every path sets {' / '.join(expected)}", m.loc)
    # sibling: what a NEW connection is given on connect is the configured level itself
    oc = ctx.func(f"{DEF}::DefaultDialect._builtin_onconnect")
    sinks = [c_ for c_ in calls_in(oc.node, into_nested=True) if _is_iso_sink(call_name(c_) or "")]
    ctx.require(sinks, f"{oc.key}: no isolation-level call in the on-connect hook")
    lv = [kw_or_pos(c_, "level", 1) for c_ in sinks]
    ok = all(v is not None and dotted(expand(oc.node, v)) == ISO_CONFIGURED for v in lv)
    ctx.check(ok, oc.key + ":applies-configured-level",
              "the on-connect hook sets `" + ", ".join(unparse(v) if v is not None else "?" for v in lv)
              + f"`, not {ISO_CONFIGURED}: new and reset connections of one engine would disagree",
              f"new connections get {ISO_CONFIGURED}", oc.loc)
    # the characteristic's reset goes through dialect.reset_isolation_level on every path
    rc = ctx.func(f"{CHR}::IsolationLevelCharacteristic.reset_characteristic")
    frc = _nf(ctx, rc.key, "reset_isolation_level", alias="dotted")
    grc = ctx.cfg(frc)
    thru = call_nodes(grc, lambda nm, c_: nm.endswith(".reset_isolation_level"))
    w = must_pass(grc, [grc.entry], [grc.exit], thru, edge_ok=no_exc) if thru else ["no dialect.reset_isolation_level() call"]
    ctx.check(w is None, rc.key + ":through-dialect-reset",
              "IsolationLevelCharacteristic.reset_characteristic can return without dialect.reset_isolation_level()",
              "reset_characteristic -> dialect.reset_isolation_level(dbapi_conn)", rc.loc, w)


# ---------------------------------------------------------------------- self-test battery
_RESET_CALL = (
    "            fairy._reset(\n"
    "                pool,\n"
    "                transaction_was_reset=transaction_was_reset,\n"
    "                terminate_only=detach,\n"
    "                asyncio_safe=can_manipulate_connection,\n"
    "            )\n"
)
R.mutant("finalize-reset-only-when-detached", POOL,
         sub(_RESET_CALL + "\n            if detach:\n",
             "            if detach:\n" + _RESET_CALL.replace("            ", "                ")), "C24-R1")
R.mutant("finalize-no-invalidate-on-reset-error", POOL,
         sub("            if connection_record:\n                connection_record.invalidate(e=e)\n            if not isinstance(e, Exception):\n",
             "            if not isinstance(e, Exception):\n"), "C24-R1")
R.mutant("finalize-invalidate-only-when-echo", POOL,
         sub("            if connection_record:\n                connection_record.invalidate(e=e)\n            if not isinstance(e, Exception):",
             "            if connection_record and echo:\n                connection_record.invalidate(e=e)\n            if not isinstance(e, Exception):"), "C24-R1")
R.mutant("finalize-handler-except-exception", POOL,
         sub("        except BaseException as e:\n            pool.logger.error(\n                \"Exception during reset or similar\"",
             "        except Exception as e:\n            pool.logger.error(\n                \"Exception during reset or similar\""), "C24-R1")
R.mutant("reset-rollback-only-when-echo", POOL,
         sub("                        self.dbapi_connection,\n                    )\n                pool._dialect.do_rollback(self)\n",
             "                        self.dbapi_connection,\n                    )\n                    pool._dialect.do_rollback(self)\n"), "C24-R2")
R.mutant("reset-rollback-condition-flipped", POOL,
         sub("            if transaction_was_reset:\n                if self._echo:", "            if not transaction_was_reset:\n                if self._echo:"), "C24-R2")
R.mutant("reset-commit-dropped", POOL,
         sub("            pool._dialect.do_commit(self)\n", "            pass\n"), "C24-R2")
R.mutant("reset-event-skipped-when-not-asyncio-safe", POOL,
         sub("        if pool.dispatch.reset:\n            pool.dispatch.reset(", "        if pool.dispatch.reset and asyncio_safe:\n            pool.dispatch.reset("), "C24-R2")
R.mutant("close-plain-close-dropped", ENG,
         sub("            else:\n                conn.close()\n\n            # There is a slight chance", "            else:\n                pass\n\n            # There is a slight chance"), "C24-R3")
R.mutant("characteristics-finaliser-only-in-transaction", DEF,
         sub("        connection.connection._connection_record.finalize_callback.append(\n            functools.partial(self._reset_characteristics, characteristics)\n        )\n",
             "        if connection.in_transaction():\n            connection.connection._connection_record.finalize_callback.append(\n                functools.partial(self._reset_characteristics, characteristics)\n            )\n"), "C24-R4")
R.mutant("checkin-return-before-drain", POOL,
         chain(sub("        try:\n            while self.finalize_callback:\n", "        pool._return_conn(self)\n        try:\n            while self.finalize_callback:\n"),
               sub("            pool._return_conn(self)\n            raise\n\n        pool._return_conn(self)\n", "            raise\n")), "C24-R4")
R.mutant("checkin-drain-if-not-while", POOL,
         sub("            while self.finalize_callback:\n                finalizer = self.finalize_callback.pop()", "            if self.finalize_callback:\n                finalizer = self.finalize_callback.pop()"), "C24-R4")
R.mutant("checkin-finaliser-not-called", POOL,
         sub("                if connection is not None:\n                    finalizer(connection)\n", "                if connection is not None and pool._pre_ping:\n                    finalizer(connection)\n"), "C24-R4")
R.mutant("close-does-not-clear-finalisers", POOL,
         sub("        self.finalize_callback.clear()\n        if self.__pool.dispatch.close:", "        if self.__pool.dispatch.close:"), "C24-R4")
R.mutant("characteristic-reset-removed", "dialects/postgresql/base.py",
         sub("    def reset_characteristic(self, dialect, dbapi_conn):\n        dialect.set_deferrable(dbapi_conn, False)\n\n", ""), "C24-R5")
R.mutant("characteristic-table-wrong-class", DEF,
         sub('"logging_token": characteristics.LoggingTokenCharacteristic(),', '"logging_token": characteristics.ConnectionCharacteristic(),'), "C24-R5")
R.mutant("characteristic-set-unimplemented", CHR,
         sub("    def set_connection_characteristic(\n        self,\n        dialect: Dialect,\n        conn: Connection,\n        dbapi_conn: DBAPIConnection,\n        value: Any,\n    ) -> None:\n        if value:\n            conn._message_formatter = lambda msg: \"[%s] %s\" % (value, msg)\n        else:\n            del conn._message_formatter\n\n", ""), "C24-R5")
# benign refactors
R.mutant("benign-rename-skip-reset", ENG, sub("skip_reset", "trans_closed", count=3), None)
R.mutant("benign-finalize-extra-logging", POOL,
         sub("            assert fairy.dbapi_connection is dbapi_connection\n", "            assert fairy.dbapi_connection is dbapi_connection\n            pool.logger.debug(\"resetting %r\", dbapi_connection)\n"), None)
R.mutant("benign-checkin-rename-finalizer", POOL,
         sub("                finalizer = self.finalize_callback.pop()\n                if connection is not None:\n                    finalizer(connection)\n",
             "                fn = self.finalize_callback.pop()\n                if connection is not None:\n                    fn(connection)\n"), None)
R.mutant("benign-reset-reorder-echo", POOL,
         sub("            if self._echo:\n                pool.logger.debug(\n                    \"Connection %s commit-on-return\",\n                    self.dbapi_connection,\n                )\n            pool._dialect.do_commit(self)\n",
             "            pool._dialect.do_commit(self)\n            if self._echo:\n                pool.logger.debug(\n                    \"Connection %s commit-on-return\",\n                    self.dbapi_connection,\n                )\n"), None)

# ---- added by str-j (adversarial seeds C24_1, C24_2; observation `failing commit then close`)
_REGISTER = (
    "        connection.connection._connection_record.finalize_callback.append(\n"
    "            functools.partial(self._reset_characteristics, characteristics)\n"
    "        )\n"
)
# seed C24_2: "de-duplicated" registration -- only when no finaliser is pending yet (through a local alias)
R.mutant("characteristics-finaliser-deduped", DEF,
         sub(_REGISTER,
             "        callbacks = connection.connection._connection_record.finalize_callback\n"
             "        if not callbacks:\n"
             "            callbacks.append(\n"
             "                functools.partial(self._reset_characteristics, characteristics)\n"
             "            )\n"), "C24-R4")
R.mutant("characteristics-finaliser-only-transactional-names", DEF,
         sub("functools.partial(self._reset_characteristics, characteristics)",
             "functools.partial(self._reset_characteristics, [n for n, o, _ in characteristic_values if o.transactional])"),
         "C24-R4")
R.mutant("benign-characteristics-finaliser-through-alias", DEF,
         sub(_REGISTER,
             "        callbacks = connection.connection._connection_record.finalize_callback\n"
             "        callbacks.append(functools.partial(self._reset_characteristics, tuple(characteristics)))\n"), None)
# seed C24_1: Connection._rollback_impl decides from Connection-level options not to call the driver
_RB_LOG = (
    "            if self._echo:\n"
    "                if self._is_autocommit_isolation():\n"
    "                    if self.dialect.skip_autocommit_rollback:\n"
    "                        self._log_info(\n"
    "                            \"ROLLBACK will be skipped by \"\n"
    "                            \"skip_autocommit_rollback\"\n"
    "                        )\n"
    "                    else:\n"
    "                        self._log_info(\n"
    "                            \"ROLLBACK using DBAPI connection.rollback(); \"\n"
    "                            \"set skip_autocommit_rollback to prevent fully\"\n"
    "                        )\n"
    "                else:\n"
    "                    self._log_info(\"ROLLBACK\")\n"
)
_RB_LOG_RESTRUCTURED = (
    "            if self._is_autocommit_isolation():\n"
    "                if self.dialect.skip_autocommit_rollback:\n"
    "                    if self._echo:\n"
    "                        self._log_info(\n"
    "                            \"ROLLBACK will be skipped by \"\n"
    "                            \"skip_autocommit_rollback\"\n"
    "                        )\n"
    "%s"
    "                elif self._echo:\n"
    "                    self._log_info(\n"
    "                        \"ROLLBACK using DBAPI connection.rollback(); \"\n"
    "                        \"set skip_autocommit_rollback to prevent fully\"\n"
    "                    )\n"
    "            elif self._echo:\n"
    "                self._log_info(\"ROLLBACK\")\n"
)
R.mutant("rollback-impl-returns-early-on-connection-level-autocommit", ENG,
         sub(_RB_LOG, _RB_LOG_RESTRUCTURED % "                    return\n"), "C24-R6")
R.mutant("benign-rollback-impl-logging-restructured", ENG, sub(_RB_LOG, _RB_LOG_RESTRUCTURED % ""), None)
R.mutant("rollback-twophase-only-when-prepared", ENG,
         sub("        if self._still_open_and_dbapi_connection_is_valid:\n            assert isinstance(self._transaction, TwoPhaseTransaction)\n            try:\n                self.engine.dialect.do_rollback_twophase(",
             "        if self._still_open_and_dbapi_connection_is_valid and is_prepared:\n            assert isinstance(self._transaction, TwoPhaseTransaction)\n            try:\n                self.engine.dialect.do_rollback_twophase("),
         "C24-R6")
R.mutant("twophase-do-close-only-detaches", ENG,
         sub("    def _connection_begin_impl(self) -> None:\n        self.connection._begin_twophase_impl(self)\n",
             "    def _connection_begin_impl(self) -> None:\n        self.connection._begin_twophase_impl(self)\n\n"
             "    def _do_close(self) -> None:\n        self._deactivate_from_connection()\n        self.connection._transaction = None\n"),
         "C24-R6")
R.mutant("benign-rollback-impl-extracted-helper", ENG,
         sub("            try:\n                self.engine.dialect.do_rollback(self.connection)\n            except BaseException as e:\n                self._handle_dbapi_exception(e, None, None, None, None)\n\n    def _commit_impl(self) -> None:\n",
             "            self._emit_rollback()\n\n    def _emit_rollback(self) -> None:\n        try:\n            self.engine.dialect.do_rollback(self.connection)\n        except BaseException as e:\n            self._handle_dbapi_exception(e, None, None, None, None)\n\n    def _commit_impl(self) -> None:\n"),
         None)
R.mutant("benign-close-impl-renamed-flag", ENG,
         sub("    def _close_impl(self, try_deactivate: bool = False) -> None:\n        try:\n            if self.is_active:\n                self._connection_rollback_impl()\n",
             "    def _close_impl(self, try_deactivate: bool = False) -> None:\n        try:\n            active = self.is_active\n            self.connection._log_debug(\"closing %r\", self) if False else None\n            if self.is_active:\n                self._connection_rollback_impl()\n"),
         None)

# ---- rob-A: the three Connection.close mutants above no longer apply after the `failing COMMIT, then close()` fix
#      (skip_reset = self._transaction.is_active); same edits against today's text
R.mutant("close-skip-reset-always-2", ENG,
         sub("            self._transaction.close()\n        else:\n            skip_reset = False\n",
             "            self._transaction.close()\n        else:\n            skip_reset = True\n"), "C24-R3")
R.mutant("close-special-without-transaction-close-2", ENG,
         sub("            skip_reset = self._transaction.is_active\n            self._transaction.close()\n",
             "            skip_reset = self._transaction.is_active\n"), "C24-R3")
R.mutant("close-claims-reset-for-inactive-transaction", ENG,
         sub("            skip_reset = self._transaction.is_active\n            self._transaction.close()\n",
             "            skip_reset = True\n            self._transaction.close()\n"), "C24-R6")

# ---------------------------------------------------------------------- rob-A: behaviour-preserving refactorings
# (families of the stored benign/rfA_4, rfA_5 + variants; the rules analyse the normal form, see _helpers_rob_a)
_RB_BRANCH = (
    "            if transaction_was_reset:\n"
    "                if self._echo:\n"
    "                    pool.logger.debug(\n"
    "                        \"Connection %s reset, transaction already reset\",\n"
    "                        self.dbapi_connection,\n"
    "                    )\n"
    "            else:\n"
    "                if self._echo:\n"
    "                    pool.logger.debug(\n"
    "                        \"Connection %s rollback-on-return\",\n"
    "                        self.dbapi_connection,\n"
    "                    )\n"
    "                pool._dialect.do_rollback(self)\n"
)
R.mutant("benign-rob-reset-rollback-branch-extracted", POOL,
         chain(sub("        if pool._reset_on_return is reset_rollback:\n" + _RB_BRANCH + "        elif pool._reset_on_return is reset_commit:\n",
                   "        reset_style = pool._reset_on_return\n        if reset_style is reset_rollback:\n"
                   "            self._rollback_on_return(pool, transaction_was_reset)\n        elif reset_style is reset_commit:\n"),
               sub("    def _reset(\n        self,\n        pool: Pool,\n",
                   "    def _rollback_on_return(self, pool: Pool, already_reset: bool) -> None:\n"
                   + _RB_BRANCH.replace("            ", "        ", 1).replace("\n            ", "\n        ").replace("if transaction_was_reset", "if already_reset")
                   + "\n    def _reset(\n        self,\n        pool: Pool,\n")), None)
# ... the same extraction with the rollback dropped for the echo-less case is seen through
R.mutant("rob-reset-rollback-helper-only-when-echo", POOL,
         chain(sub("        if pool._reset_on_return is reset_rollback:\n" + _RB_BRANCH + "        elif pool._reset_on_return is reset_commit:\n",
                   "        if pool._reset_on_return is reset_rollback:\n            self._rollback_on_return(pool, transaction_was_reset)\n"
                   "        elif pool._reset_on_return is reset_commit:\n"),
               sub("    def _reset(\n        self,\n        pool: Pool,\n",
                   "    def _rollback_on_return(self, pool: Pool, already_reset: bool) -> None:\n"
                   "        if not already_reset and self._echo:\n"
                   "            pool.logger.debug(\"Connection %s rollback-on-return\", self.dbapi_connection)\n"
                   "            pool._dialect.do_rollback(self)\n\n"
                   "    def _reset(\n        self,\n        pool: Pool,\n")), "C24-R2")
R.mutant("benign-rob-reset-asyncio-guard-inverted", POOL,
         sub("        if not asyncio_safe:\n            return\n\n        if pool._reset_on_return is reset_rollback:\n" + _RB_BRANCH
             + "        elif pool._reset_on_return is reset_commit:\n            if self._echo:\n                pool.logger.debug(\n"
               "                    \"Connection %s commit-on-return\",\n                    self.dbapi_connection,\n                )\n"
               "            pool._dialect.do_commit(self)\n",
             "        if asyncio_safe:\n            style = pool._reset_on_return\n            if style is reset_commit:\n"
             "                if self._echo:\n                    pool.logger.debug(\"Connection %s commit-on-return\", self.dbapi_connection)\n"
             "                pool._dialect.do_commit(self)\n            elif style is reset_rollback:\n"
             + _RB_BRANCH.replace("\n            ", "\n                ").replace("            if transaction_was_reset", "                if transaction_was_reset", 1)), None)
_CLOSE_OLD = (
    "        if self._transaction:\n"
    "            # a transaction that is inactive but still attached (its COMMIT\n"
    "            # failed) is closed without a ROLLBACK; tell the pool the\n"
    "            # connection was reset only if a rollback was really emitted\n"
    "            skip_reset = self._transaction.is_active\n"
    "            self._transaction.close()\n"
    "        else:\n"
    "            skip_reset = False\n"
    "\n"
    "        if self._dbapi_connection is not None:\n"
    "            conn = self._dbapi_connection\n"
    "\n"
    "            # as we just closed the transaction, close the connection\n"
    "            # pool connection without doing an additional reset\n"
    "            if skip_reset:\n"
    "                cast(\"_ConnectionFairy\", conn)._close_special(\n"
    "                    transaction_reset=True\n"
    "                )\n"
    "            else:\n"
    "                conn.close()\n"
)
R.mutant("benign-rob-close-aliases-inverted", ENG,
         sub(_CLOSE_OLD,
             "        trans = self._transaction\n        if not trans:\n            was_reset = False\n        else:\n"
             "            was_reset = trans.is_active\n            trans.close()\n\n"
             "        fairy = self._dbapi_connection\n        if fairy is not None:\n"
             "            if was_reset:\n                cast(\"_ConnectionFairy\", fairy)._close_special(transaction_reset=True)\n"
             "            else:\n                fairy.close()\n"), None)
# early exit when there is no pooled connection; transaction part first through a helper returning the flag
R.mutant("benign-rob-close-transaction-part-extracted", ENG,
         chain(sub(_CLOSE_OLD,
                   "        skip_reset = self._close_transaction()\n\n        if self._dbapi_connection is not None:\n"
                   "            conn = self._dbapi_connection\n            if skip_reset:\n"
                   "                cast(\"_ConnectionFairy\", conn)._close_special(\n                    transaction_reset=True\n                )\n"
                   "            else:\n                conn.close()\n"),
               sub("    def close(self) -> None:\n        \"\"\"Close this :class:`_engine.Connection`.\n",
                   "    def _close_transaction(self) -> bool:\n        if not self._transaction:\n            return False\n"
                   "        was_active = self._transaction.is_active\n        self._transaction.close()\n        return was_active\n\n"
                   "    def close(self) -> None:\n        \"\"\"Close this :class:`_engine.Connection`.\n")), None)
# ... and the helper that forgets to close the transaction but still answers True is seen through
R.mutant("rob-close-transaction-helper-does-not-close", ENG,
         chain(sub(_CLOSE_OLD,
                   "        skip_reset = self._close_transaction()\n\n        if self._dbapi_connection is not None:\n"
                   "            conn = self._dbapi_connection\n            if skip_reset:\n"
                   "                cast(\"_ConnectionFairy\", conn)._close_special(\n                    transaction_reset=True\n                )\n"
                   "            else:\n                conn.close()\n"),
               sub("    def close(self) -> None:\n        \"\"\"Close this :class:`_engine.Connection`.\n",
                   "    def _close_transaction(self) -> bool:\n        if not self._transaction:\n            return False\n"
                   "        return True\n\n"
                   "    def close(self) -> None:\n        \"\"\"Close this :class:`_engine.Connection`.\n")), "C24-R3")
_HANDLER = ("            pool.logger.error(\n                \"Exception during reset or similar\", exc_info=True\n            )\n"
            "            if connection_record:\n                connection_record.invalidate(e=e)\n")
R.mutant("benign-rob-finalize-reset-failure-helper", POOL,
         chain(sub(_HANDLER, "            _reset_failed(pool, connection_record, e)\n"),
               sub("def _finalize_fairy(\n",
                   "def _reset_failed(pool: Pool, rec: Optional[_ConnectionRecord], err: BaseException) -> None:\n"
                   "    pool.logger.error(\"Exception during reset or similar\", exc_info=True)\n"
                   "    if rec:\n        rec.invalidate(e=err)\n\n\ndef _finalize_fairy(\n")), None)
R.mutant("rob-finalize-reset-failure-helper-only-logs", POOL,
         chain(sub(_HANDLER, "            _reset_failed(pool, connection_record, e)\n"),
               sub("def _finalize_fairy(\n",
                   "def _reset_failed(pool: Pool, rec: Optional[_ConnectionRecord], err: BaseException) -> None:\n"
                   "    pool.logger.error(\"Exception during reset or similar\", exc_info=True)\n\n\ndef _finalize_fairy(\n")), "C24-R1")
R.mutant("benign-rob-finalize-live-flag", POOL,
         sub("    if dbapi_connection is not None:\n        if connection_record and echo:\n",
             "    live = dbapi_connection is not None\n    if live:\n        if connection_record and echo:\n"), None)
# (since the fix b091da1 the drain loop and the checkin event sit inside `try: ... except BaseException as err:` -- 12 columns)
_DRAIN = ("            while self.finalize_callback:\n                finalizer = self.finalize_callback.pop()\n"
          "                if connection is not None:\n                    finalizer(connection)\n")
_CHECKIN_FIXED = ("        try:\n" + _DRAIN + "            if pool.dispatch.checkin:\n                pool.dispatch.checkin(connection, self)\n"
                  "        except BaseException as err:\n            # the connection may not be completely reset: don't pool it,\n"
                  "            # but give the pool its slot back\n            self.finalize_callback.clear()\n            self.invalidate(e=err)\n"
                  "            pool._return_conn(self)\n            raise\n\n        pool._return_conn(self)\n")
R.mutant("benign-rob-checkin-drain-helper", POOL,
         chain(sub(_DRAIN + "            if pool.dispatch.checkin:\n", "            self._run_finalizers(connection)\n            if pool.dispatch.checkin:\n"),
               sub("    def checkin(self, _fairy_was_created: bool = True) -> None:\n",
                   "    def _run_finalizers(self, dbapi_conn: Optional[DBAPIConnection]) -> None:\n"
                   "        callbacks = self.finalize_callback\n        while callbacks:\n            fn = callbacks.pop()\n"
                   "            if dbapi_conn is None:\n                continue\n            fn(dbapi_conn)\n\n"
                   "    def checkin(self, _fairy_was_created: bool = True) -> None:\n")), None)
R.mutant("benign-rob-characteristics-register-helper", DEF,
         chain(sub(_REGISTER, "        self._register_reset(connection, characteristics)\n"),
               sub("    def _set_connection_characteristics(self, connection, characteristics):\n",
                   "    def _register_reset(self, conn, names):\n"
                   "        record = conn.connection._connection_record\n"
                   "        record.finalize_callback.append(\n            functools.partial(self._reset_characteristics, names)\n        )\n\n"
                   "    def _set_connection_characteristics(self, connection, characteristics):\n")), None)
R.mutant("benign-rob-characteristics-values-built-by-loop", DEF,
         sub("        characteristic_values = [\n            (name, self.connection_characteristics[name], value)\n            for name, value in characteristics.items()\n        ]\n",
             "        characteristic_values = []\n        for name, value in characteristics.items():\n"
             "            characteristic_values.append(\n                (name, self.connection_characteristics[name], value)\n            )\n"), None)

# ---------------------------------------------------------------------- str2-k: round-2 seeds C24_3 (checkin swallows a
# failing finaliser) and C24_4 (reset_isolation_level forgets the engine-wide level)
_INVOKE = "                if connection is not None:\n                    finalizer(connection)\n"
R.mutant("checkin-seed3-failing-finaliser-swallowed", POOL,
         sub(_INVOKE,
             "                if connection is not None:\n                    try:\n                        finalizer(connection)\n"
             "                    except Exception:\n                        pool.logger.error(\n"
             "                            \"Exception during connection finalizer\", exc_info=True\n                        )\n"), "C24-R4")
R.mutant("checkin-return-conn-in-finally-of-drain", POOL,
         sub(_CHECKIN_FIXED,
             "        try:\n" + _DRAIN + "            if pool.dispatch.checkin:\n                pool.dispatch.checkin(connection, self)\n"
             "        finally:\n            pool._return_conn(self)\n"), "C24-R4")
R.mutant("rob-checkin-drain-helper-suppresses-finaliser-errors", POOL,
         chain(sub(_DRAIN + "            if pool.dispatch.checkin:\n", "            self._run_finalizers(connection)\n            if pool.dispatch.checkin:\n"),
               sub("    def checkin(self, _fairy_was_created: bool = True) -> None:\n",
                   "    def _run_finalizers(self, dbapi_conn: Optional[DBAPIConnection]) -> None:\n"
                   "        callbacks = self.finalize_callback\n        while callbacks:\n            fn = callbacks.pop()\n"
                   "            if dbapi_conn is None:\n                continue\n            try:\n                fn(dbapi_conn)\n"
                   "            except Exception as err:\n                util.warn(\"finalizer failed: %s\" % err)\n\n"
                   "    def checkin(self, _fairy_was_created: bool = True) -> None:\n")), "C24-R4")
R.mutant("benign-checkin-failing-finaliser-invalidates-record", POOL,
         sub(_INVOKE,
             "                if connection is not None:\n                    try:\n                        finalizer(connection)\n"
             "                    except BaseException as err:\n                        pool.logger.error(\n"
             "                            \"Exception during connection finalizer\", exc_info=True\n                        )\n"
             "                        self.invalidate(e=err)\n"), None)
R.mutant("benign-checkin-failing-finaliser-logged-and-reraised", POOL,
         sub(_INVOKE,
             "                if connection is not None:\n                    try:\n                        finalizer(connection)\n"
             "                    except Exception:\n                        pool.logger.error(\n"
             "                            \"Exception during connection finalizer\", exc_info=True\n                        )\n"
             "                        raise\n"), None)
R.mutant("benign-checkin-failing-finaliser-closes-record-in-helper", POOL,
         chain(sub(_INVOKE,
                   "                if connection is not None:\n                    try:\n                        finalizer(connection)\n"
                   "                    except Exception as err:\n                        self._finalizer_failed(err)\n"),
               sub("    def checkin(self, _fairy_was_created: bool = True) -> None:\n",
                   "    def _finalizer_failed(self, err: BaseException) -> None:\n"
                   "        self.__pool.logger.error(\"finalizer failed\", exc_info=True)\n        self.invalidate(e=err)\n\n"
                   "    def checkin(self, _fairy_was_created: bool = True) -> None:\n")), None)

_RESET_ISO = (
    "        if self._on_connect_isolation_level is not None:\n"
    "            assert (\n"
    "                self._on_connect_isolation_level == \"AUTOCOMMIT\"\n"
    "                or self._on_connect_isolation_level\n"
    "                == self.default_isolation_level\n"
    "            )\n"
    "            self._assert_and_set_isolation_level(\n"
    "                dbapi_conn, self._on_connect_isolation_level\n"
    "            )\n"
    "        else:\n"
    "            assert self.default_isolation_level is not None\n"
    "            self._assert_and_set_isolation_level(\n"
    "                dbapi_conn,\n"
    "                self.default_isolation_level,\n"
    "            )\n"
)
R.mutant("reset-iso-seed4-detected-default-first", DEF,
         sub(_RESET_ISO,
             "        level = self.default_isolation_level\n        if level is None:\n"
             "            level = self._on_connect_isolation_level\n        assert level is not None\n"
             "        self._assert_and_set_isolation_level(dbapi_conn, level)\n"), "C24-R7")
R.mutant("reset-iso-branch-test-flipped", DEF,
         sub("    def reset_isolation_level(self, dbapi_conn):\n        if self._on_connect_isolation_level is not None:\n",
             "    def reset_isolation_level(self, dbapi_conn):\n        if self._on_connect_isolation_level is None:\n"), "C24-R7")
R.mutant("reset-iso-always-detected-default", DEF,
         sub(_RESET_ISO,
             "        assert self.default_isolation_level is not None\n"
             "        self._assert_and_set_isolation_level(\n            dbapi_conn, self.default_isolation_level\n        )\n"), "C24-R7")
R.mutant("reset-iso-configured-level-only-validated", DEF,
         sub(_RESET_ISO,
             "        if self._on_connect_isolation_level is not None:\n"
             "            assert self._on_connect_isolation_level in self._gen_allowed_isolation_levels(dbapi_conn)\n"
             "            return\n"
             "        self._assert_and_set_isolation_level(dbapi_conn, self.default_isolation_level)\n"), "C24-R7")
R.mutant("reset-iso-helper-prefers-detected-default", DEF,
         chain(sub(_RESET_ISO, "        self._assert_and_set_isolation_level(dbapi_conn, self._reset_target_level())\n"),
               sub("    def reset_isolation_level(self, dbapi_conn):\n",
                   "    def _reset_target_level(self):\n        return self.default_isolation_level or self._on_connect_isolation_level\n\n"
                   "    def reset_isolation_level(self, dbapi_conn):\n")), "C24-R7")
R.mutant("onconnect-hook-applies-detected-default", DEF,
         sub("                self._assert_and_set_isolation_level(\n                    dbapi_conn, self._on_connect_isolation_level\n                )\n\n            return builtin_connect\n",
             "                self._assert_and_set_isolation_level(\n                    dbapi_conn, self.default_isolation_level\n                )\n\n            return builtin_connect\n"), "C24-R7")
R.mutant("iso-characteristic-reset-sets-detected-default-itself", CHR,
         sub("        dialect.reset_isolation_level(dbapi_conn)\n",
             "        if dialect.default_isolation_level is not None:\n"
             "            dialect.set_isolation_level(dbapi_conn, dialect.default_isolation_level)\n"), "C24-R7")
R.mutant("benign-reset-iso-branches-inverted", DEF,
         sub(_RESET_ISO,
             "        if self._on_connect_isolation_level is None:\n            assert self.default_isolation_level is not None\n"
             "            self._assert_and_set_isolation_level(dbapi_conn, self.default_isolation_level)\n"
             "            return\n"
             "        self._assert_and_set_isolation_level(dbapi_conn, self._on_connect_isolation_level)\n"), None)
R.mutant("benign-reset-iso-level-local-single-call", DEF,
         sub(_RESET_ISO,
             "        configured = self._on_connect_isolation_level\n        level = self.default_isolation_level\n"
             "        if configured is not None:\n            level = configured\n"
             "        assert level is not None\n        self._assert_and_set_isolation_level(dbapi_conn, level)\n"), None)
R.mutant("benign-reset-iso-target-level-helper", DEF,
         chain(sub(_RESET_ISO, "        self._assert_and_set_isolation_level(dbapi_conn, self._reset_target_level())\n"),
               sub("    def reset_isolation_level(self, dbapi_conn):\n",
                   "    def _reset_target_level(self):\n        if self._on_connect_isolation_level is not None:\n"
                   "            return self._on_connect_isolation_level\n        return self.default_isolation_level\n\n"
                   "    def reset_isolation_level(self, dbapi_conn):\n")), None)
R.mutant("benign-reset-iso-conditional-expression", DEF,
         sub(_RESET_ISO,
             "        self._assert_and_set_isolation_level(\n            dbapi_conn,\n"
             "            self.default_isolation_level\n            if self._on_connect_isolation_level is None\n"
             "            else self._on_connect_isolation_level,\n        )\n"), None)
R.mutant("benign-reset-iso-configured-only-when-autocommit", DEF,
         sub(_RESET_ISO,
             "        if self._on_connect_isolation_level == \"AUTOCOMMIT\":\n"
             "            self._assert_and_set_isolation_level(dbapi_conn, \"AUTOCOMMIT\")\n"
             "        else:\n            assert self.default_isolation_level is not None\n"
             "            self._assert_and_set_isolation_level(dbapi_conn, self.default_isolation_level)\n"), None)
R.mutant("benign-onconnect-hook-level-through-local", DEF,
         sub("        if self._on_connect_isolation_level is not None:\n\n            def builtin_connect(dbapi_conn, conn_rec):\n"
             "                self._assert_and_set_isolation_level(\n                    dbapi_conn, self._on_connect_isolation_level\n                )\n",
             "        level = self._on_connect_isolation_level\n        if level is not None:\n\n            def builtin_connect(dbapi_conn, conn_rec):\n"
             "                self._assert_and_set_isolation_level(dbapi_conn, level)\n"), None)
# the pool-slot leak of the original tree (findings/C24_failing_finaliser_leaks_pool_slot.py) is fixed in /repo (b091da1): the handler
# clears, invalidates, returns the record and re-raises.  Same handler with the two discard steps swapped: same behaviour
R.mutant("benign-checkin-failing-finaliser-invalidated-cleared-returned-reraised", POOL,
         sub("            self.finalize_callback.clear()\n            self.invalidate(e=err)\n            pool._return_conn(self)\n",
             "            self.invalidate(e=err)\n            self.finalize_callback.clear()\n            pool._return_conn(self)\n"), None)
R.mutant("checkin-failing-finaliser-returned-without-invalidation", POOL,
         sub("            self.finalize_callback.clear()\n            self.invalidate(e=err)\n            pool._return_conn(self)\n",
             "            self.finalize_callback.clear()\n            pool._return_conn(self)\n"), "C24-R4")
