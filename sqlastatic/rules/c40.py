"""C40 -- Loader strategies change how data is loaded, never what is loaded (sibling-agreement clauses).

Equality of object graphs under every loader option assignment is a statement about rows and is NOT decided.
Decided are necessary clauses that are visible in the shape of orm/strategy_options.py (the writer of loader
options) and orm/strategies.py (the strategies that consume them):

* the vocabulary the option methods write (strategy keys, `local_opts` keys) is the vocabulary the strategies
  are registered under / read (judged by running the option methods on a model);
* the loader strategies that load a relationship with SQL of their own form a family (discovered from the
  documented loader options through the strategy registry, not listed by class name); every member applies
  the relationship's `order_by` and the option's `.and_()` criteria to the SQL it builds, and a member that
  loads through another member hands the option on;
* column loader options never take the identity columns (primary key, discriminator) out of the SELECT
  (judged by running the deferred column loader's setup_query on models).
"""

from __future__ import annotations

import ast
import itertools
from typing import Any, Dict, List, Optional, Set, Tuple

from ..astutil import dotted, unparse
from ..errors import AnalysisError
from ..index import ClassInfo, FuncInfo
from ..oracles import load
from ..report import Registry, chain, sub
from ._helpers_na_c import ClassVal, FuncVal, Inst, Lite, ModelRaise, Unsupported
from ._helpers_str2_z1 import LiteSQL, ordered_column_groups

R = Registry(
    "C40",
    title="Loader strategies change how data is loaded, never what is loaded",
    decides=(
        "sibling-agreement clauses of C40: (R1) every strategy key and every local_opts key written by a loader "
        "option method of orm/strategy_options.py (option methods run on a model) is registered with strategy_for() "
        "/ read by a strategy, and every local_opts key a strategy reads is written by some option; (R2) every "
        "relationship loader strategy that builds SQL of its own (family discovered from the documented loader "
        "options through the strategy registry) lets relationship(order_by=...) flow into an ordering of that SQL, "
        "and a strategy without SQL of its own loads through such a strategy; (R3) every such strategy uses the "
        "option's additional criteria (PropComparator.and_()) as a value in the SQL it builds, and a strategy that "
        "loads through another one hands the option / its criteria on at the delegating call; (R4) the deferred "
        "column loader keeps primary key and discriminator columns in the SELECT whenever a loader option is present, "
        "honours undefer_group / only_load_props, and the undeferred column loader adds every column it represents "
        "(setup_query run on models); (R5) every ordered group of key columns the selectin loader's query-info "
        "builders return is in the order of the primary key whose identity-key tuples it is compared with (builders "
        "run on a model whose join condition lists the pairs in another order); (R6) the ORM SELECT compile state "
        "decides to nest the statement for each documented row-limiting method (limit / offset / fetch) alone when "
        "the joined collection loader has raised its flags (decision run on a model).  These are clauses of C40, not "
        "the behaviour."
    ),
    not_decided=(
        "equality of result rows and object graphs across strategy assignments (the form of the LIMIT/OFFSET wrapping, DISTINCT, "
        "inheritance, yield_per, populate_existing, identity map shortcuts), the content of the SQL each strategy "
        "emits, with_loader_criteria() (applied by the ORM compile state for every statement), contains_eager "
        "(the user supplies the SQL), cache-key aspects (C02)."
    ),
)

OPTS = "orm/strategy_options.py"
STRAT = "orm/strategies.py"
ABSTRACT_LOAD = f"{OPTS}::_AbstractLoad"


# ============================================================================================ static helpers

def _mro(ix, c: ClassInfo, _memo: Dict[int, List[ClassInfo]]) -> List[ClassInfo]:
    """own C3 (Index.mro memoizes some classes before their bases are linked, see notes/na-c.md)"""
    k = id(c)
    if k in _memo:
        return _memo[k]
    bases = [b for b in c.bases if b is not None]
    seqs = [list(_mro(ix, b, _memo)) for b in bases] + [list(bases)]
    out = [c]
    seqs = [s for s in seqs if s]
    while seqs:
        for s in seqs:
            cand = s[0]
            if not any(any(x is cand for x in t[1:]) for t in seqs):
                break
        else:
            cand = seqs[0][0]
        out.append(cand)
        seqs = [[x for x in s if x is not cand] for s in seqs]
        seqs = [s for s in seqs if s]
    _memo[k] = out
    return out


def _registrations(ctx) -> Dict[str, Dict[tuple, ClassInfo]]:
    """{property class key: {strategy key: strategy class}} from the `@<PropertyClass>.strategy_for(**kw)`
    class decorators"""
    ix = ctx.index
    out: Dict[str, Dict[tuple, ClassInfo]] = {}
    for c in ix.all_classes():
        for d in c.node.decorator_list:
            if not (isinstance(d, ast.Call) and isinstance(d.func, ast.Attribute) and d.func.attr == "strategy_for"):
                continue
            owner = ix.resolve(c.module, dotted(d.func.value) or "")
            if not isinstance(owner, ClassInfo):
                raise AnalysisError(f"C40: strategy_for() receiver of {c.key} does not resolve to a class")
            try:
                kw = {k.arg: ast.literal_eval(k.value) for k in d.keywords}
            except Exception:
                raise AnalysisError(f"C40: strategy_for() of {c.key} has non-constant arguments")
            if d.args or any(k.arg is None for k in d.keywords):
                raise AnalysisError(f"C40: strategy_for() of {c.key} is not called with plain keywords")
            out.setdefault(owner.key, {})[tuple(sorted(kw.items(), key=lambda kv: kv[0]))] = c
    return out


# ============================================================================================ option methods on a model

def _option_variants(f: FuncInfo) -> List[Tuple[list, dict]]:
    """argument sets for a loader option method: model attributes for the required parameters, and for every
    optional parameter its default plus one non-default value (False -> True, None -> 3)"""
    a = f.node.args
    pos = [x.arg for x in a.posonlyargs + a.args][1:]
    ndef = len(a.defaults)
    required = pos[: len(pos) - ndef] if ndef else pos
    optional = pos[len(pos) - ndef:] if ndef else []
    defaults = list(a.defaults)
    kwonly = [(x.arg, d) for x, d in zip(a.kwonlyargs, a.kw_defaults)]
    choices: List[Tuple[str, list]] = []
    for name, d in list(zip(optional, defaults)) + kwonly:
        if isinstance(d, ast.Constant) and d.value is False:
            choices.append((name, [False, True]))
        elif isinstance(d, ast.Constant) and d.value is None:
            choices.append((name, [None, 3]))
    out = []
    for combo in itertools.islice(itertools.product(*[c[1] for c in choices]), 16):
        kw = {n: v for (n, _), v in zip(choices, combo)}
        args: list = []
        for n in required:
            m = Inst(None, {}, label=f"<{n}>")
            m.model = True
            args.append("g" if n in ("name",) else m)
        if a.vararg is not None:
            for i in (1, 2):
                m = Inst(None, {}, label=f"<{a.vararg.arg}{i}>")
                m.model = True
                args.append(m)
        out.append((args, kw))
    return out or [([], {})]


def _run_option_methods(ctx) -> Tuple[Dict[str, List[dict]], Dict[str, str]]:
    """{option method name: recorded funnel calls}; methods the model cannot run are reported separately"""
    ix = ctx.index
    cls = ix.cls(ABSTRACT_LOAD)
    L = Lite(ix)
    recorded: Dict[str, List[dict]] = {}
    skipped: Dict[str, str] = {}
    # the funnel: the abstract method every option ends in
    funnel = "_clone_for_bind_strategy"
    ctx.require(funnel in cls.methods, f"{ABSTRACT_LOAD}.{funnel} (the funnel of every loader option) not found")
    for name, f in sorted(cls.methods.items()):
        if name.startswith("_") or f.type_only:
            continue
        calls: List[dict] = []
        ran = False
        why = ""
        for args, kw in _option_variants(f):
            me = Inst(cls, {"propagate_to_loaders": True}, label="Load")
            me.model = True

            def rec(attrs, strategy_key, wildcard_key, opts=None, attr_group=None, propagate_to_loaders=True,
                    reconcile_to_other=None, extra_criteria=None, _calls=calls, _kw=kw):
                if isinstance(opts, Inst):          # util.EMPTY_DICT: an immutabledict() instance
                    opts = {}
                _calls.append({"strategy": strategy_key, "token": wildcard_key, "opts": dict(opts or {}), "variant": dict(_kw)})
                return None

            me.stubs[funnel] = rec
            budget = L.budget
            try:
                L.call_method(me, name, *args, **kw)
                ran = True
            except (Unsupported, ModelRaise) as e:
                L.budget = budget
                why = str(e)[:160]
        if not calls and not ran:
            # outside the model (the method inspects its argument): read the dictionaries it hands to the funnel
            # callers off the call sites
            for n in ast.walk(f.node):
                if not (isinstance(n, ast.Call) and isinstance(n.func, ast.Attribute)):
                    continue
                dicts = [a for a in n.args if isinstance(a, ast.Dict)]
                okw = [k.value for k in n.keywords if k.arg == "opts" and isinstance(k.value, ast.Dict)]
                if not dicts and not okw:
                    continue
                try:
                    sk = tuple(sorted(ast.literal_eval(dicts[0]).items())) if dicts else None
                except Exception:
                    continue
                ok = {k.value: None for d in okw for k in d.keys if isinstance(k, ast.Constant)}
                calls.append({"strategy": sk, "token": None, "opts": ok, "variant": {"static": True}})
        if calls:
            recorded[name] = calls
            ctx.functions_analysed.add(f.key)
        elif not ran:
            skipped[name] = why
    ctx.functions_analysed.update(L.functions_run)
    return recorded, skipped


def _local_opts_readers(ctx) -> Tuple[Dict[str, List[str]], List[Tuple[str, str]]]:
    """(exact keys, prefix patterns) read from `<x>.local_opts` in the orm package, with the reading functions"""
    ix = ctx.index
    exact: Dict[str, List[str]] = {}
    prefixes: List[Tuple[str, str]] = []

    aliases: Set[str] = set()
    cur = {"module": None}

    def is_local_opts(e) -> bool:
        return (isinstance(e, ast.Attribute) and e.attr == "local_opts") or (isinstance(e, ast.Name) and e.id in aliases)

    def keyform(e, where):
        if isinstance(e, ast.Name) and cur.get("func") is not None:
            binds = [n.value for n in ast.walk(cur["func"]) if isinstance(n, ast.Assign)
                     and any(isinstance(t, ast.Name) and t.id == e.id for t in n.targets)]
            if len(binds) == 1:
                e = binds[0]                                 # a key computed into a local first
        if isinstance(e, ast.Name) and cur["module"] is not None and e.id in cur["module"].assigns:
            e = cur["module"].assigns[e.id][-1]          # a key hoisted into a module level constant
        if isinstance(e, ast.BinOp) and isinstance(e.left, ast.Name) and cur["module"] is not None \
                and e.left.id in cur["module"].assigns:
            e = ast.BinOp(left=cur["module"].assigns[e.left.id][-1], op=e.op, right=e.right)
        if isinstance(e, ast.Constant) and isinstance(e.value, str):
            exact.setdefault(e.value, []).append(where)
        elif isinstance(e, ast.BinOp) and isinstance(e.op, ast.Mod) and isinstance(e.left, ast.Constant) \
                and isinstance(e.left.value, str):
            prefixes.append((e.left.value.split("%")[0], where))
        elif isinstance(e, ast.JoinedStr) and e.values and isinstance(e.values[0], ast.Constant):
            prefixes.append((str(e.values[0].value), where))
        else:
            raise AnalysisError(f"C40-R1: local_opts is read with a key the rule cannot evaluate in {where}: `{unparse(e)[:60]}`")

    for m in ix.all_modules():
        if not m.relpath.startswith("orm/"):
            continue
        cur["module"] = m
        for f in ix.all_functions(m):
            cur["func"] = f.node
            aliases.clear()
            for n in ast.walk(f.node):       # `opts = loadopt.local_opts` (also behind `a and a.local_opts` / IfExp)
                if isinstance(n, ast.Assign) and any(isinstance(x, ast.Attribute) and x.attr == "local_opts"
                                                     for x in ast.walk(n.value)) \
                        and not any(isinstance(x, ast.Call) for x in ast.walk(n.value)):
                    aliases.update(t.id for t in n.targets if isinstance(t, ast.Name))
            for n in ast.walk(f.node):
                if isinstance(n, ast.Subscript) and is_local_opts(n.value) and isinstance(n.ctx, ast.Load):
                    keyform(n.slice, f.key)
                elif isinstance(n, ast.Call) and isinstance(n.func, ast.Attribute) and n.func.attr == "get" \
                        and is_local_opts(n.func.value) and n.args:
                    keyform(n.args[0], f.key)
                elif isinstance(n, ast.Compare) and len(n.ops) == 1 and isinstance(n.ops[0], (ast.In, ast.NotIn)) \
                        and is_local_opts(n.comparators[0]):
                    keyform(n.left, f.key)
    return exact, prefixes


@R.rule("C40-R1", floor=26, template="T-TABLE",
        desc="writer/reader vocabulary of loader options: every strategy key a loader option method hands to the "
             "option funnel is registered with strategy_for(); every local_opts key it writes is read by a strategy; "
             "every local_opts key a strategy reads is written by an option (option methods run on a model)")
def r1(ctx):
    reg = _registrations(ctx)
    ctx.require(reg, "no strategy_for() registration found")
    all_keys = {k for d in reg.values() for k in d}
    recorded, skipped = _run_option_methods(ctx)
    ctx.require(len(recorded) >= 8, f"only {len(recorded)} loader option methods could be run on the model "
                f"(skipped: {skipped})")
    exact, prefixes = _local_opts_readers(ctx)
    written_opts: Dict[str, str] = {}
    for name in sorted(recorded):
        seen_keys = set()
        for call in recorded[name]:
            sk = call["strategy"]
            if sk is not None and sk not in seen_keys and call["token"] is not None:      # class-level options
                # (token None) are consumed by loading.py directly, not looked up in the strategy registry
                seen_keys.add(sk)
                key = f"{ABSTRACT_LOAD}.{name}:strategy-registered[{_fmt_key(sk)}]"
                ctx.check(sk in all_keys, key,
                          f"{name}() asks for the loader strategy {_fmt_key(sk)}, which no class registers with "
                          f"strategy_for(): the option raises at load time", "registered", ctx.index.cls(ABSTRACT_LOAD).loc)
            for ok in call["opts"]:
                written_opts.setdefault(ok, name)
    for ok in sorted(written_opts):
        key = f"{ABSTRACT_LOAD}.{written_opts[ok]}:option-key-read[{_generic(ok)}]"
        readers = exact.get(ok) or [w for p, w in prefixes if p and ok.startswith(p)]
        ctx.check(bool(readers), key, f"{written_opts[ok]}() writes local_opts[{ok!r}] but no strategy reads that key: "
                  f"the option is silently ignored", f"read by {sorted(set(readers))[:2]}", ctx.index.cls(ABSTRACT_LOAD).loc)
    for rk in sorted(exact):
        key = f"orm:local_opts-key-written[{rk}]"
        ctx.check(rk in written_opts, key, f"{sorted(set(exact[rk]))} read(s) local_opts[{rk!r}] but no loader option "
                  f"writes that key: the option can never take effect", "written by " + written_opts.get(rk, ""))
    for p, where in prefixes:
        key = f"orm:local_opts-key-written[{p}*]"
        hit = [k for k in written_opts if p and k.startswith(p)]
        ctx.check(bool(hit), key, f"{where} reads local_opts keys {p!r}+<name> but no loader option writes such a key",
                  f"written as {hit[:1]}")
    for n, why in sorted(skipped.items()):
        ctx.note(f"C40-R1: option method {n} not run on the model ({why})")


def _fmt_key(sk) -> str:
    return "(" + ", ".join(f"{k}={v!r}" for k, v in sk) + ")"


def _generic(optkey: str) -> str:
    return optkey


# ============================================================================================ the family

class Family:
    """relationship loader strategies reachable from the documented loader options"""

    def __init__(self, ctx):
        self.ctx = ctx
        self.ix = ix = ctx.index
        self._m: Dict[int, List[ClassInfo]] = {}
        o = load("loader_option_api.json")
        self.reg = _registrations(ctx)
        recorded, _ = _run_option_methods(ctx)
        self.members: Dict[str, ClassInfo] = {}      # option name -> strategy class
        self.prop_cls_key: Optional[str] = None
        for opt in o["relationship_options_that_load"]:
            ctx.require(opt in recorded, f"C40: documented loader option {opt}() could not be run on the model")
            keys = {c["strategy"] for c in recorded[opt] if c["strategy"] is not None}
            ctx.require(len(keys) == 1, f"C40: {opt}() asks for {len(keys)} different strategies")
            sk = next(iter(keys))
            owners = [(pk, d[sk]) for pk, d in self.reg.items() if sk in d]
            ctx.require(len(owners) == 1, f"C40: strategy {_fmt_key(sk)} of {opt}() is registered {len(owners)} times")
            self.prop_cls_key = owners[0][0]
            self.members[opt] = owners[0][1]
        classes = list(self.members.values())
        common = None
        for c in classes:
            ids = {id(k) for k in self.mro(c)}
            common = ids if common is None else (common & ids)
        self.common = common or set()
        self.executable = [ix.cls("sql/base.py::Executable"), ix.cls("sql/selectable.py::FromClause")]
        self.unresolved: List[str] = []

    def mro(self, c):
        return _mro(self.ix, c, self._m)

    def own_classes(self, c: ClassInfo) -> List[ClassInfo]:
        """the classes whose code is this member's own (its MRO minus what every member shares)"""
        return [k for k in self.mro(c) if id(k) not in self.common]

    def own_nodes(self, c: ClassInfo) -> List[ast.AST]:
        """the function bodies of the member's own code that are alive: interface methods (names the shared base
        classes define) and, transitively, every function whose name is referenced from live code"""
        for k in self.own_classes(c):
            self.ctx.functions_analysed.update(f.key for f in k.methods.values())
        interface = set()
        for k in self.mro(c):
            if id(k) in self.common:
                interface |= set(k.methods)
        funcs: List[ast.AST] = []
        for k in self.own_classes(c):
            for n in ast.walk(k.node):
                if isinstance(n, (ast.FunctionDef, ast.AsyncFunctionDef)):
                    funcs.append(n)
        live = [f for f in funcs if f.name in interface or (f.name.startswith("__") and f.name.endswith("__"))]
        changed = True
        while changed:
            changed = False
            refs = set()
            for f in live:
                for n in ast.walk(f):
                    if n is f:
                        continue
                    if isinstance(n, ast.Name) and isinstance(n.ctx, ast.Load):
                        refs.add(n.id)
                    elif isinstance(n, ast.Attribute) and isinstance(n.ctx, ast.Load):
                        refs.add(n.attr)
            for f in funcs:
                if f not in live and f.name in refs:
                    live.append(f)
                    changed = True
        # nested functions are walked through their (live) parents; keep only outermost live functions
        inner = set()
        for f in live:
            for n in ast.walk(f):
                if n is not f and isinstance(n, (ast.FunctionDef, ast.AsyncFunctionDef)):
                    inner.add(id(n))
        dead = {id(f) for f in funcs if f not in live}
        return [_Pruned(f, dead) for f in live if id(f) not in inner]

    def builds_sql(self, c: ClassInfo) -> List[str]:
        """calls in the member's own code that construct a statement or a FROM element"""
        out = []
        for k in self.own_classes(c):
            for n in ast.walk(k.node):
                if not isinstance(n, ast.Call):
                    continue
                nm = dotted(n.func) or ""
                if not nm or nm.startswith("self.") or "(" in nm:
                    continue
                r = self.ix.resolve(k.module, nm)
                target = r.cls if isinstance(r, FuncInfo) else r
                if isinstance(target, ClassInfo) and any(any(x is b for x in self.mro(target)) for b in self.executable):
                    out.append(nm)
        return out

    def delegates(self, c: ClassInfo) -> List[Tuple[ClassInfo, ast.Call, ast.AST]]:
        """(delegate member, the `_get_strategy(<key>)` call, enclosing function) in the member's own code"""
        out = []
        regs = self.reg.get(self.prop_cls_key, {})
        for k in self.own_classes(c):
            for fn in ast.walk(k.node):
                if not isinstance(fn, (ast.FunctionDef, ast.AsyncFunctionDef)):
                    continue
                for n in ast.walk(fn):
                    if isinstance(n, ast.Call) and isinstance(n.func, ast.Attribute) and n.func.attr == "_get_strategy" \
                            and n.args:
                        arg = n.args[0]
                        if isinstance(arg, ast.Name) and arg.id in k.module.assigns:
                            arg = k.module.assigns[arg.id][-1]          # key hoisted into a module constant
                        elif isinstance(arg, ast.Attribute) and isinstance(arg.value, ast.Name) \
                                and arg.value.id in ("self", "cls"):
                            owner = next((x for x in self.mro(c) if arg.attr in x.assigns), None)
                            if owner is not None:
                                arg = owner.assigns[arg.attr][-1]       # ... or a class constant
                        try:
                            sk = ast.literal_eval(arg)
                        except Exception:
                            self.unresolved.append(f"{k.key}: _get_strategy({unparse(n.args[0])[:40]})")
                            continue
                        if isinstance(sk, tuple) and tuple(sk) in regs and regs[tuple(sk)] is not c:
                            out.append((regs[tuple(sk)], n, fn))
        return out


class _Pruned(ast.AST):
    """a function body without the nested functions nobody refers to (ast.walk compatible through _fields)"""

    _fields = ("kept",)

    def __init__(self, fn, dead_ids):
        self.fn = fn
        self.kept = [_prune(fn, dead_ids)]


def _prune(node, dead_ids):
    import copy
    if not any(id(x) in dead_ids for x in ast.walk(node)):
        return node
    # NodeTransformer mutates: work on a copy and map its nodes back to the originals for the dead test
    clone = copy.deepcopy(node)
    origin = {id(b): id(a) for a, b in zip(ast.walk(node), ast.walk(clone))}

    class Drop(ast.NodeTransformer):
        def visit_FunctionDef(self, n):
            if origin.get(id(n)) in dead_ids:
                return ast.Pass()
            return self.generic_visit(n)

    return Drop().visit(clone)


# ============================================================================================ small dataflow

def _is_prop_attr(e: ast.AST, attr: str, aliases: Set[str]) -> bool:
    """`<...>.parent_property.<attr>` or `<alias>.<attr>` where alias was bound to `<...>.parent_property`"""
    if not (isinstance(e, ast.Attribute) and e.attr == attr and isinstance(e.ctx, ast.Load)):
        return False
    b = e.value
    if isinstance(b, ast.Attribute) and b.attr == "parent_property":
        return True
    return isinstance(b, ast.Name) and b.id in aliases


def _prop_aliases(nodes) -> Set[str]:
    out = set()
    for node in nodes:
        for n in ast.walk(node):
            if isinstance(n, ast.Assign) and isinstance(n.value, ast.Attribute) and n.value.attr == "parent_property":
                for t in n.targets:
                    if isinstance(t, ast.Name):
                        out.add(t.id)
    return out


def _taint_closure(nodes, is_source) -> Tuple[Set[str], Set[str]]:
    """names and self-attributes that (transitively) hold a value computed from a source expression"""
    names: Set[str] = set()
    attrs: Set[str] = set()       # self attributes holding such a value, and methods returning one

    def tainted(e) -> bool:
        for n in ast.walk(e):
            if is_source(n):
                return True
            if isinstance(n, ast.Name) and isinstance(n.ctx, ast.Load) and n.id in names:
                return True
            if isinstance(n, ast.Attribute) and isinstance(n.ctx, ast.Load) and isinstance(n.value, ast.Name) \
                    and n.value.id == "self" and n.attr in attrs:
                return True
        return False

    changed = True
    while changed:
        changed = False
        for node in nodes:
            for n in ast.walk(node):
                if isinstance(n, (ast.FunctionDef, ast.AsyncFunctionDef)) and n.name not in attrs:
                    if any(isinstance(r, ast.Return) and r.value is not None and tainted(r.value) for r in ast.walk(n)):
                        attrs.add(n.name)
                        names.add(n.name)
                        changed = True
                tv = None
                if isinstance(n, ast.Assign):
                    tv = (n.targets, n.value)
                elif isinstance(n, (ast.AnnAssign, ast.AugAssign)) and n.value is not None:
                    tv = ([n.target], n.value)
                elif isinstance(n, ast.NamedExpr):
                    tv = ([n.target], n.value)
                elif isinstance(n, (ast.For, ast.comprehension)):
                    tv = ([n.target], n.iter)
                if tv is None or not tainted(tv[1]):
                    continue
                for t in tv[0]:
                    for x in ast.walk(t):
                        if isinstance(x, ast.Name) and x.id not in names:
                            names.add(x.id)
                            changed = True
                        elif isinstance(x, ast.Attribute) and isinstance(x.value, ast.Name) and x.value.id == "self" \
                                and x.attr not in attrs:
                            attrs.add(x.attr)
                            changed = True
    return names, attrs


def _order_sinks(nodes, is_source) -> List[str]:
    """places where a value computed from a source becomes an ordering of a statement"""
    names, attrs = _taint_closure(nodes, is_source)

    def tainted(e) -> bool:
        for n in ast.walk(e):
            if is_source(n):
                return True
            if isinstance(n, ast.Name) and isinstance(n.ctx, ast.Load) and n.id in names:
                return True
            if isinstance(n, ast.Attribute) and isinstance(n.ctx, ast.Load) and isinstance(n.value, ast.Name) \
                    and n.value.id == "self" and n.attr in attrs:
                return True
        return False

    o = load("loader_option_api.json")
    out = []
    for node in nodes:
        for n in ast.walk(node):
            if isinstance(n, ast.Call) and isinstance(n.func, ast.Attribute) and n.func.attr in o["ordering_calls"]:
                if any(tainted(a) for a in n.args) or any(tainted(k.value) for k in n.keywords):
                    out.append(f".{n.func.attr}(...)")
            elif isinstance(n, (ast.Assign, ast.AugAssign)):
                targets = n.targets if isinstance(n, ast.Assign) else [n.target]
                for t in targets:
                    if isinstance(t, ast.Attribute) and t.attr in o["ordering_attributes"] and tainted(n.value):
                        out.append(f".{t.attr} =")
    return out


@R.rule("C40-R2", floor=5, template="T-SIBLING",
        desc="every relationship loader strategy reachable from a documented loading option that builds SQL of its "
             "own lets relationship(order_by=...) flow into an ordering of that SQL (an order_by() call, the statement's "
             "order-by clauses, the compile state's eager order-by); a strategy without SQL of its own loads through one "
             "that does")
def r2(ctx):
    fam = Family(ctx)
    verdict: Dict[str, bool] = {}
    for opt, c in sorted(fam.members.items()):
        key = f"{c.key}:applies-relationship-order_by[{opt}]"
        nodes = fam.own_nodes(c)
        aliases = _prop_aliases(nodes)
        sql = fam.builds_sql(c)
        if sql:
            sinks = _order_sinks(nodes, lambda e: _is_prop_attr(e, "order_by", aliases))
            verdict[c.key] = bool(sinks)
            ctx.check(bool(sinks), key,
                      f"{c.name} builds SQL of its own ({sorted(set(sql))[:2]}) but relationship(order_by=...) does not "
                      f"reach an ordering of it: collections loaded with {opt}() come back in a different order than "
                      f"with the other strategies", f"order_by -> {sorted(set(sinks))}", c.loc)
        else:
            ds = fam.delegates(c)
            through = sorted({d.name for d, _, _ in ds if fam.builds_sql(d)})
            ctx.require(through or not fam.unresolved, f"C40-R2: strategy key not evaluable: {fam.unresolved}")
            ctx.check(bool(through), key, f"{c.name} neither builds SQL of its own nor loads through a strategy that does",
                      f"loads through {through}", c.loc)


# ============================================================================================ R3: option criteria

def _criteria_values(nodes) -> List[ast.AST]:
    """occurrences of `<opt>._extra_criteria` / `<opt>._generate_extra_criteria(...)` used as a VALUE (not only
    tested for truth)"""
    parents: Dict[ast.AST, ast.AST] = {}
    for node in nodes:
        for n in ast.walk(node):
            for ch in ast.iter_child_nodes(n):
                parents[ch] = n
    out = []
    for node in nodes:
        for n in ast.walk(node):
            occ = None
            if isinstance(n, ast.Call) and isinstance(n.func, ast.Attribute) and n.func.attr == "_generate_extra_criteria":
                occ = n
            elif isinstance(n, ast.Attribute) and n.attr == "_extra_criteria" and isinstance(n.ctx, ast.Load):
                occ = n
            if occ is None:
                continue
            if _in_test_position(occ, parents):
                continue
            out.append(occ)
    return out


def _in_test_position(e: ast.AST, parents) -> bool:
    """is the expression only consumed as a truth value?"""
    cur = e
    while True:
        p = parents.get(cur)
        if p is None:
            return False
        if isinstance(p, (ast.If, ast.While, ast.IfExp)) and p.test is cur:
            return True
        if isinstance(p, ast.Assert) and p.test is cur:
            return True
        if isinstance(p, ast.UnaryOp) and isinstance(p.op, ast.Not):
            return True
        if isinstance(p, ast.BoolOp):
            # `a and b` yields one of its operands: a value only if the BoolOp itself is used as a value and this is
            # the last operand; every other operand is a guard
            if p.values[-1] is not cur:
                return True
            cur = p
            continue
        if isinstance(p, ast.Compare):
            return True
        return False


def _params_carrying_criteria(fam: Family, cls: ClassInfo, mname: str) -> Tuple[Optional[FuncInfo], Set[str]]:
    """parameters of `cls.<mname>` through which the loader option or its criteria come in: the parameter on which
    `._extra_criteria` / `._generate_extra_criteria` is read, and parameters handed (one call deep, to methods of
    the same object) into a parameter used as a criteria-option argument"""
    f = None
    for k in fam.mro(cls):
        if mname in k.methods and not k.methods[mname].type_only:
            f = k.methods[mname]
            break
    if f is None:
        return None, set()
    params = set(f.params[1:])
    out: Set[str] = set()
    o = load("loader_option_api.json")

    def direct(fn: FuncInfo) -> Set[str]:
        ps = set(fn.params[1:])
        hit = set()
        for n in ast.walk(fn.node):
            if isinstance(n, ast.Attribute) and n.attr in ("_extra_criteria", "_generate_extra_criteria") \
                    and isinstance(n.value, ast.Name) and n.value.id in ps:
                hit.add(n.value.id)
            if isinstance(n, ast.Call) and (dotted(n.func) or "").split(".")[-1] in o["criteria_option_constructors"]:
                for a in list(n.args) + [k.value for k in n.keywords]:
                    for x in ast.walk(a):
                        if isinstance(x, ast.Name) and x.id in ps:
                            hit.add(x.id)
        return hit

    out |= direct(f)
    for n in ast.walk(f.node):
        if isinstance(n, ast.Call) and isinstance(n.func, ast.Attribute) and isinstance(n.func.value, ast.Name) \
                and n.func.value.id == "self":
            callee = None
            for k in fam.mro(cls):
                if n.func.attr in k.methods:
                    callee = k.methods[n.func.attr]
                    break
            if callee is None:
                continue
            inner = direct(callee)
            cps = callee.params[1:]
            for i, a in enumerate(n.args):
                if i < len(cps) and cps[i] in inner and isinstance(a, ast.Name) and a.id in params:
                    out.add(a.id)
            for kw in n.keywords:
                if kw.arg in inner and isinstance(kw.value, ast.Name) and kw.value.id in params:
                    out.add(kw.value.id)
    return f, out


@R.rule("C40-R3", floor=5, template="T-SIBLING",
        desc="every relationship loader strategy that builds SQL of its own uses the loader option's additional "
             "criteria (`<option>._extra_criteria` / `_generate_extra_criteria()`, written by PropComparator.and_()) as "
             "a value; a strategy that loads through another strategy hands the option or its criteria on at the "
             "delegating call")
def r3(ctx):
    fam = Family(ctx)
    for opt, c in sorted(fam.members.items()):
        key = f"{c.key}:applies-option-criteria[{opt}]"
        nodes = fam.own_nodes(c)
        if fam.builds_sql(c):
            vals = _criteria_values(nodes)
            ctx.check(bool(vals), key,
                      f"{c.name} builds SQL of its own but never uses the loader option's additional criteria as a value: "
                      f"{opt}(A.bs.and_(<criteria>)) loads the unfiltered collection, the other strategies the filtered one",
                      f"{len(vals)} use(s) of the option's criteria", c.loc)
            continue
        # a delegating member: every call of a load method on a delegate must hand the option on
        problems, good = [], []
        for d, getcall, fn in fam.delegates(c):
            if not fam.builds_sql(d):
                continue
            # names bound to the delegate in this function
            bound = set()
            for n in ast.walk(fn):
                if isinstance(n, ast.Assign) and n.value is getcall:
                    bound |= {t.id for t in n.targets if isinstance(t, ast.Name)}
            for n in ast.walk(fn):
                if not (isinstance(n, ast.Call) and isinstance(n.func, ast.Attribute)):
                    continue
                recv = n.func.value
                if not (recv is getcall or (isinstance(recv, ast.Name) and recv.id in bound)):
                    continue
                callee, carrying = _params_carrying_criteria(fam, d, n.func.attr)
                if callee is None or not carrying:
                    continue
                ctx.functions_analysed.add(callee.key)
                cps = callee.params[1:]
                passed = {cps[i] for i in range(min(len(n.args), len(cps)))} | {k.arg for k in n.keywords if k.arg}
                if any(k.arg is None for k in n.keywords):
                    passed |= carrying
                where = f"{c.name}.{getattr(fn, 'name', '?')} -> {d.name}.{n.func.attr}()"
                if passed & carrying:
                    good.append(where)
                else:
                    problems.append(f"{where} is called without {sorted(carrying)}")
        ctx.require(problems or good or not fam.unresolved, f"C40-R3: strategy key not evaluable: {fam.unresolved}")
        if problems:
            ctx.violation(key, f"{c.name} loads through another strategy but does not hand the loader option on: "
                          + "; ".join(problems) + f" -- {opt}(A.bs.and_(<criteria>)) loads the unfiltered collection",
                          c.loc)
        else:
            ctx.check(bool(good), key, f"{c.name} neither builds SQL of its own nor calls a load method of a strategy "
                      f"that does", f"hands the option on: {good}", c.loc)


# ============================================================================================ R4: column loaders

def _column_strategies(ctx) -> Tuple[ClassInfo, ClassInfo, tuple]:
    """(deferred column loader, plain column loader, the plain loader's strategy key) from the registry"""
    reg = _registrations(ctx)
    cands = [(pk, d) for pk, d in reg.items() if any(dict(k).get("deferred") is True for k in d)]
    ctx.require(len(cands) == 1, f"C40-R4: {len(cands)} property classes register a deferred=True strategy")
    d = cands[0][1]
    deferred = {v.key: v for k, v in d.items() if dict(k).get("deferred") is True and dict(k).get("instrument") is True}
    plain = [(k, v) for k, v in d.items() if dict(k).get("deferred") is False and dict(k).get("instrument") is True]
    ctx.require(len(deferred) == 1 and len(plain) == 1, "C40-R4: deferred / plain column loader registration not unique")
    return next(iter(deferred.values())), plain[0][1], plain[0][0]


@R.rule("C40-R4", floor=8, template="T-BOOL",
        desc="column loader options never take identity columns out of the SELECT: with a loader option present the "
             "deferred column loader hands primary key / discriminator columns (Mapper._should_undefer_in_wildcard) to "
             "the plain column loader, honours the undefer_group key the option writes and only_load_props, defers "
             "everything else; the plain column loader adds every column it represents (setup_query run on models)")
def r4(ctx):
    ix = ctx.index
    deferred_cls, plain_cls, plain_key = _column_strategies(ctx)
    recorded, _ = _run_option_methods(ctx)
    group_keys = sorted({k for calls in recorded.values() for c in calls for k in c["opts"] if k.endswith("_g")})
    ctx.require(group_keys, "C40-R4: no loader option writes a per-group local_opts key (undefer_group)")
    L = Lite(ix)
    mapper_cls = ix.cls("orm/mapper.py::Mapper")

    def col(name):
        c = Inst(None, {}, label=name)
        c.model = True
        return c

    pk, disc, other = col("pk"), col("discriminator"), col("other")

    def scenario(column, group=None, local_opts=None, only_load_props=None, has_option=True, class_level=True):
        mapper = Inst(mapper_cls, {"primary_key": (pk,), "polymorphic_on": disc})
        mapper.model = True
        calls = []
        delegate = Inst(None, {}, label="plain-loader")
        delegate.stubs["setup_query"] = lambda *a, **k: calls.append(("setup_query", a, k))
        prop = Inst(None, {"_renders_in_subqueries": False, "key": "x"}, label="prop")
        prop.stubs["_get_strategy"] = lambda key: (calls.append(("get", key)) or delegate)
        me = Inst(deferred_cls, {"columns": [column], "group": group, "parent": mapper, "parent_property": prop,
                                  "key": "x", "is_class_level": class_level, "raiseload": False})
        me.model = True
        cs = Inst(None, {"compile_options": Inst(None, {"_render_for_subquery": False})}, label="compile_state")
        opt = Inst(None, {"local_opts": dict(local_opts or {})}, label="loadopt") if has_option else None
        memo: Dict[Any, Any] = {}
        L.call_method(me, "setup_query", cs, Inst(None, {}, label="entity"), Inst(None, {}, label="path"), opt, None, [],
                      memo, only_load_props=only_load_props)
        got = [c for c in calls if c[0] == "get"]
        handed = bool(got) and any(c[0] == "setup_query" for c in calls)
        plain = handed and all(dict(c[1]).get("deferred") is False for c in got)
        return plain, prop in memo or any(k is prop for k in memo)

    cases = [
        ("primary-key-with-option", dict(column=pk), True),
        ("discriminator-with-option", dict(column=disc), True),
        ("other-column-with-option", dict(column=other), False),
        ("other-column-instance-level", dict(column=other, class_level=False), False),
        ("undefer_group-of-own-group", dict(column=other, group="g", local_opts={group_keys[0]: True}), True),
        ("undefer_group-of-other-group", dict(column=other, group="h", local_opts={group_keys[0]: True}), False),
        ("only_load_props-names-it", dict(column=other, only_load_props={"x"}), True),
        ("only_load_props-names-another", dict(column=other, only_load_props={"y"}), False),
    ]
    f = None
    for k in _mro(ix, deferred_cls, {}):
        if "setup_query" in k.methods:
            f = k.methods["setup_query"]
            break
    ctx.require(f is not None, "C40-R4: deferred column loader has no setup_query")
    for cid, kw, expect_loaded in cases:
        key = f"{f.key}:{cid}"
        try:
            loaded, deferred = scenario(**kw)
        except Unsupported as e:
            raise AnalysisError(f"C40-R4 model: {cid}: {e}")
        except ModelRaise as e:
            ctx.violation(key, f"setup_query raises {e} on the model", f.loc)
            continue
        if expect_loaded:
            ctx.check(loaded and not deferred, key,
                      "the column is not handed to the plain column loader (it is left out of the SELECT): "
                      + ("entities cannot be identified / typed when a column option such as load_only() or defer('*') is used"
                         if "with-option" in cid else "the option has no effect"),
                      "column stays in the SELECT", f.loc)
        else:
            ctx.check(deferred and not loaded, key, "the column is loaded although nothing asks for it (deferral has no effect)",
                      "column is deferred", f.loc)
    # the plain loader adds every column
    g = None
    for k in _mro(ix, plain_cls, {}):
        if "setup_query" in k.methods:
            g = k.methods["setup_query"]
            break
    ctx.require(g is not None, "C40-R4: plain column loader has no setup_query")
    c1, c2 = col("c1"), col("c2")
    added = []
    cs = Inst(None, {}, label="compile_state")
    cs.stubs["_append_dedupe_col_collection"] = lambda c, coll: added.append(c)
    prop = Inst(None, {"key": "x"}, label="prop")
    me = Inst(plain_cls, {"columns": [c1, c2], "parent_property": prop, "key": "x"})
    me.model = True
    memo = {}
    try:
        L.call_method(me, "setup_query", cs, Inst(None, {}), Inst(None, {}), None, None, [], memo)
    except Unsupported as e:
        raise AnalysisError(f"C40-R4 model: plain loader: {e}")
    key = f"{g.key}:adds-every-column"
    ctx.check(added == [c1, c2] and any(k is prop for k in memo), key,
              f"the plain column loader adds {[a.label for a in added]} of its columns [c1, c2] to the SELECT / does not "
              f"memoize a fetch column", "every column added", g.loc)
    ctx.functions_analysed.update(L.functions_run)


# ============================================================================================ R5: key column order

def _col(label: str) -> Inst:
    c = Inst(None, {}, label=label)
    c.model = True
    return c


def _builders_called_by_init(fam: "Family", cls: ClassInfo) -> List[FuncInfo]:
    """the member's own argument-less methods that its constructor calls on `self` (through aliases of nothing:
    the call graph of __init__, followed one level through own helpers)"""
    own = {}
    for k in reversed(fam.own_classes(cls)):
        own.update(k.methods)
    init = own.get("__init__")
    if init is None:
        return []
    seen, todo, out = set(), [init], []
    while todo:
        f = todo.pop()
        for n in ast.walk(f.node):
            if isinstance(n, ast.Call) and isinstance(n.func, ast.Attribute) and isinstance(n.func.value, ast.Name) \
                    and n.func.value.id == "self" and n.func.attr in own and n.func.attr not in seen:
                seen.add(n.func.attr)
                g = own[n.func.attr]
                a = g.node.args
                if len(a.posonlyargs + a.args) == 1 and not n.args and not n.keywords:
                    out.append(g)
                    todo.append(g)
    return sorted(out, key=lambda g: g.name)


@R.rule("C40-R5", floor=6, template="T-BOOL",
        desc="selectinload: every ordered group of key columns a query-info builder of the IN loader returns (the list "
             "of key columns, the arguments of the tuple that is compared with IN, the parent attributes the related "
             "identity is read from) is in the order of the primary key whose identity-key tuples it is compared with "
             "-- builders (the argument-less own methods the strategy's constructor calls) run on a model whose join "
             "condition lists the column pairs in another order than the primary key")
def r5(ctx):
    ix = ctx.index
    fam = Family(ctx)
    o = load("loader_option_api.json")
    ctx.require("selectinload" in fam.members, "C40-R5: selectinload() is not a documented loading option any more")
    cls = fam.members["selectinload"]
    builders = _builders_called_by_init(fam, cls)
    ctx.require(builders, f"C40-R5: the constructor of {cls.key} calls no argument-less builder of its own")
    inspect_key = "inspection.py::inspect"
    ctx.require(ix.has(inspect_key), "C40-R5: sqlalchemy.inspect() not found")

    def scenarios():
        # parent primary key (P1, P2); related mapper primary key (M1, M2)
        P1, P2, E1 = _col("parent.pk1"), _col("parent.pk2"), _col("parent_sub.pk1")
        R1, R2 = _col("child.fk1"), _col("child.fk2")
        S1, T1 = _col("secondary.child_id"), _col("child.id")
        M1, M2 = _col("related.pk1"), _col("related.pk2")
        L1, L2 = _col("parent.fk1"), _col("parent.fk2")
        base_corr = {id(R1): P1, id(R2): P2, id(P1): P1, id(P2): P2, id(E1): P1, id(M1): M1, id(M2): M2,
                     id(L1): M1, id(L2): M2}
        yield ("pairs-in-reverse-key-order", [(P2, R2), (P1, R1)], {}, (P1, P2), (M1, M2), {M2: L2, M1: L1}, base_corr)
        yield ("pairs-in-reverse-key-order+secondary-pair", [(S1, T1), (P2, R2), (P1, R1)], {}, (P1, P2), (M1, M2),
               {M2: L2, M1: L1}, {**base_corr, id(S1): None, id(T1): None})
        yield ("pair-on-equivalent-column", [(P2, R2), (E1, R1)], {P1: {E1}, E1: {P1}}, (P1, P2), (M1, M2),
               {M2: L2, M1: L1}, base_corr)

    ran: Dict[str, int] = {}
    for sid, pairs, equivs, ppk, mpk, equated, corr in scenarios():
        for b in builders:
            L = LiteSQL(ix)
            corr = dict(corr)
            keep = []

            def adapted(col, *a, _corr=corr, _keep=keep, **k):
                if not isinstance(col, Inst) or id(col) not in _corr:
                    raise Unsupported("the alias model is asked to adapt something that is not a model column")
                n = _col(f"alias({col.label})")
                _keep.append(n)
                _corr[id(n)] = _corr[id(col)]
                return n

            def inspected(interp, args, kwargs, _adapted=adapted):
                insp = Inst(None, {}, label="inspect(alias)")
                from ._helpers_na_c import PyStub
                insp.default_attr = lambda a: PyStub(_adapted, a)      # any adaption method: column -> its counterpart
                return insp

            L.func_stubs[inspect_key] = inspected
            lazy = Inst(None, {"_equated_columns": dict(equated)}, label="lazyloader")
            lazy.default_attr = lambda a: None
            prop = Inst(None, {"_join_condition": Inst(None, {"local_remote_pairs": list(pairs)}, label="join_condition")},
                        label="relationship")
            prop.stubs["_get_strategy"] = lambda key, _lazy=lazy: _lazy
            prop.default_attr = lambda a: None
            parent = Inst(None, {"primary_key": tuple(ppk), "_equivalent_columns": {k: set(v) for k, v in equivs.items()}},
                          label="parent mapper")
            parent.default_attr = lambda a: Inst(None, {}, label=f"parent.{a}")
            mapper = Inst(None, {"primary_key": tuple(mpk)}, label="related mapper")
            mapper.default_attr = lambda a: None
            me = Inst(cls, {"parent_property": prop, "parent": parent, "mapper": mapper}, label="strategy")
            me.model = True
            key = f"{b.key}:key-columns-in-primary-key-order[{sid}]"
            try:
                got = L.call_method(me, b.name)
            except Unsupported as e:
                raise AnalysisError(f"C40-R5 model: {b.qualname} [{sid}]: {e}")
            except ModelRaise as e:
                ctx.violation(key, f"{b.qualname} raises {e} on a composite primary key whose join condition lists the "
                                   f"pairs in another order", b.loc)
                continue
            ctx.functions_analysed.update(L.functions_run)
            groups = ordered_column_groups(got, lambda v: isinstance(v, Inst) and id(v) in corr)
            if not groups:
                continue          # the builder returns no group of key columns (not a query-info builder)
            ran[b.key] = ran.get(b.key, 0) + 1
            problems = []
            for what, g in groups:
                mapped = [corr[id(c)] for c in g]
                if any(m is None for m in mapped):
                    problems.append(f"{what}: {[c.label for c in g]} contains a column that is not paired with a key column")
                    continue
                want = list(ppk) if all(any(m is p for p in ppk) for m in mapped) else \
                    (list(mpk) if all(any(m is p for p in mpk) for m in mapped) else None)
                if want is None:
                    problems.append(f"{what}: {[c.label for c in g]} mixes columns of two keys")
                elif len(mapped) != len(want) or any(a is not b_ for a, b_ in zip(mapped, want)):
                    problems.append(f"{what} is {[c.label for c in g]}, i.e. the counterparts of "
                                    f"{[m.label for m in mapped]}; identity keys are tuples in primary key order "
                                    f"{[p.label for p in want]}")
            ctx.check(not problems, key,
                      "key columns are not in primary key order: " + "; ".join(problems) + " -- the IN parameters / the "
                      "lookup of loaded rows pair identity-key tuples with these columns positionally, so selectinload "
                      "attaches the rows of another parent (other strategies are unaffected)",
                      f"{len(groups)} ordered group(s) of key columns follow the primary key", b.loc)
    ctx.require(len(ran) >= 2, f"C40-R5: only {len(ran)} builder(s) of {cls.key} returned key column groups on the model")


# ============================================================================================ R6: row limits + joined collections

def _members_reading(cls: ClassInfo, mro: List[ClassInfo], flags: Set[str]) -> List[FuncInfo]:
    """minimal members (methods / properties found through the MRO) whose code -- followed through `self.<member>`
    references -- reads every one of `flags` on self"""
    members: Dict[str, FuncInfo] = {}
    for k in reversed(mro):
        for n, f in k.methods.items():
            if not f.type_only:
                members[n] = f
    direct: Dict[str, Set[str]] = {}
    refs: Dict[str, Set[str]] = {}
    for n, f in members.items():
        reads = {x.attr for x in ast.walk(f.node) if isinstance(x, ast.Attribute) and isinstance(x.ctx, ast.Load)
                 and isinstance(x.value, ast.Name) and x.value.id == "self"}
        direct[n] = reads & flags
        refs[n] = (reads & set(members)) - {n}
    closure: Dict[str, Set[str]] = {}

    def reach(n, seen):
        if n in closure:
            return closure[n]
        out = set(direct[n])
        for m in refs[n]:
            if m not in seen:
                out |= reach(m, seen | {m})
        closure[n] = out
        return out

    covering = [n for n in members if reach(n, {n}) >= flags and flags]
    out = []
    for n in covering:
        below = set()
        todo = list(refs[n])
        while todo:
            m = todo.pop()
            if m not in below:
                below.add(m)
                todo.extend(refs[m])
        if not (below & set(covering)):
            out.append(members[n])
    return out


@R.rule("C40-R6", floor=4, template="T-BOOL",
        desc="joined eager loading of a collection and row limits: the ORM SELECT compile state's nesting decision (the "
             "member that reads every flag the joined loader raises on the compile state), run on a model in which the "
             "joined collection loader has raised its flags, answers yes for each documented row-limiting method of "
             "SELECT (limit / offset / fetch, oracle) applied alone -- so that the window counts parent rows under "
             "joinedload as it does under every other strategy -- and no for a statement without any of them")
def r6(ctx):
    ix = ctx.index
    o = load("select_row_limiting_api.json")
    fam = Family(ctx)
    joined = fam.members.get(o["collection_joining_option"])
    ctx.require(joined is not None, "C40-R6: joinedload() is not a documented loading option any more")
    # flags the joined loader raises on the compile state it is handed
    flags: Set[str] = set()
    for k in fam.own_classes(joined):
        for fn in ast.walk(k.node):
            if not isinstance(fn, (ast.FunctionDef, ast.AsyncFunctionDef)):
                continue
            params = {a.arg for a in fn.args.posonlyargs + fn.args.args + fn.args.kwonlyargs} - {"self", "cls"}
            for n in ast.walk(fn):
                if isinstance(n, ast.Assign) and isinstance(n.value, ast.Constant) and n.value.value is True:
                    for t in n.targets:
                        if isinstance(t, ast.Attribute) and isinstance(t.value, ast.Name) and t.value.id in params:
                            flags.add(t.attr)
    ctx.require(flags, f"C40-R6: {joined.key} raises no flag on the compile state")
    sel_state = ix.cls("sql/selectable.py::SelectState")
    cands = []
    for c in ix.all_classes():
        if not c.module.relpath.startswith("orm/"):
            continue
        m = fam.mro(c)
        if not any(x is sel_state for x in m):
            continue
        mine = {fl for fl in flags if any(fl in k.assigns for k in m)}
        if mine:
            cands.append((c, mine))
    ctx.require(cands, f"C40-R6: no ORM SELECT compile state class declares any of the flags {sorted(flags)}")
    most = max(len(fl) for _c, fl in cands)
    cands = [(c, fl) for c, fl in cands if len(fl) == most]      # flags raised on other objects (query context) drop out
    gs = ix.cls(o["class"])
    written: Dict[str, Set[str]] = {}
    for mname in o["row_limiting_methods"]:
        f = gs.methods.get(mname)
        ctx.require(f is not None, f"C40-R6: {gs.key}.{mname} (documented row-limiting method) not found")
        attrs = set()
        for n in ast.walk(f.node):
            if isinstance(n, (ast.Assign, ast.AnnAssign)) and n.value is not None \
                    and not (isinstance(n.value, ast.Constant) and n.value.value is None):
                for t in (n.targets if isinstance(n, ast.Assign) else [n.target]):
                    if isinstance(t, ast.Attribute) and isinstance(t.value, ast.Name) and t.value.id == "self":
                        attrs.add(t.attr)
        ctx.require(attrs, f"C40-R6: {gs.key}.{mname} stores nothing on the statement")
        written[mname] = attrs
        ctx.functions_analysed.add(f.key)
    for cs, flags in cands:
        deciders = _members_reading(cs, fam.mro(cs), flags)
        ctx.require(deciders, f"C40-R6: no member of {cs.key} reads the flags {sorted(flags)}")
        for d in deciders:
            L = LiteSQL(ix)

            def decide(stmt_attrs):
                stmt = Inst(None, dict(stmt_attrs), label="statement")
                stmt.default_attr = lambda a: None
                me = Inst(cs, dict({fl: True for fl in flags}, select_statement=stmt, statement=stmt), label="compile_state")
                me.default_attr = lambda a: None
                v = L.getattr(me, d.name)
                if isinstance(v, (FuncVal,)) or type(v).__name__ == "Bound":
                    v = L.call(v, [], {})
                return L.truth(v)

            try:
                plain = decide({})
                ctx.check(not plain, f"{d.key}:no-row-limit-no-nesting",
                          "the statement is nested although it has no row limit, DISTINCT or GROUP BY",
                          "not nested", d.loc)
                for mname, attrs in written.items():
                    clause = Inst(None, {}, label=f"<{mname} value>")
                    clause.default_attr = lambda a: None
                    yes = decide({a: clause for a in attrs})
                    ctx.check(yes, f"{d.key}:row-limit-with-joined-collection-nests[{mname}]",
                              f"a SELECT with .{mname}() (statement attributes {sorted(attrs)}) and a joined eager loaded "
                              f"collection (compile state flags {sorted(flags)} raised) is not wrapped in a subquery: the "
                              f"row window is applied to the joined parent x collection rows, so joinedload returns "
                              f"other parents / truncated collections than lazyload, selectinload, subqueryload do",
                              "nested", d.loc)
            except Unsupported as e:
                raise AnalysisError(f"C40-R6 model: {d.qualname}: {e}")
            except ModelRaise as e:
                ctx.violation(f"{d.key}:no-row-limit-no-nesting", f"{d.qualname} raises {e} on the model", d.loc)
            ctx.functions_analysed.update(L.functions_run)
            ctx.functions_analysed.add(d.key)


# ============================================================================================ self-test battery

_MAP = "orm/mapper.py"

# ---- C40-R5 (selectin key column order) -----------------------------------------------------------------
_CTX = "orm/context.py"
R.mutant("r5-omit-join-columns-in-join-condition-order", STRAT,        # essence of seeded C40_1
         sub("""            pk_to_fk[col] for col in self.parent.primary_key if col in pk_to_fk
""", """            pk_to_fk[col] for col in pk_to_fk if col in self.parent.primary_key
"""), "C40-R5")
R.mutant("r5-m2o-lookup-columns-in-dictionary-order", STRAT,
         sub("""        lookup_cols = [lazyloader._equated_columns[pk] for pk in pk_cols]""",
             """        lookup_cols = list(lazyloader._equated_columns.values())"""), "C40-R5")
R.mutant("r5-join-in-tuple-built-from-the-end", STRAT,
         sub("""            pa_insp._adapt_element(col) for col in self.parent.primary_key
        ]
        if len(pk_cols) > 1:
            in_expr = sql.tuple_(*pk_cols)""", """            pa_insp._adapt_element(col) for col in self.parent.primary_key
        ]
        if len(pk_cols) > 1:
            in_expr = sql.tuple_(*pk_cols[::-1])"""), "C40-R5")
R.mutant("benign-r5-omit-join-as-loops-with-renamed-locals", STRAT,
         sub("""        pk_to_fk = dict(
            self.parent_property._join_condition.local_remote_pairs
        )
        pk_to_fk.update(
            (equiv, pk_to_fk[k])
            for k in list(pk_to_fk)
            for equiv in self.parent._equivalent_columns.get(k, ())
        )

        pk_cols = fk_cols = [
            pk_to_fk[col] for col in self.parent.primary_key if col in pk_to_fk
        ]
""", """        pairs = self.parent_property._join_condition.local_remote_pairs
        same_as = self.parent._equivalent_columns
        remote_of = {}
        for near, far in pairs:
            remote_of[near] = far
        for near, far in pairs:
            for other in same_as.get(near, ()):
                remote_of[other] = far

        fk_cols = []
        for key_col in self.parent.primary_key:
            if key_col not in remote_of:
                continue
            fk_cols.append(remote_of[key_col])
        pk_cols = fk_cols
"""), None)
R.mutant("benign-r5-m2o-lookup-through-helper", STRAT,
         chain(sub("""        lazyloader = self.parent_property._get_strategy((("lazy", "select"),))
        lookup_cols = [lazyloader._equated_columns[pk] for pk in pk_cols]
""", """        lookup_cols = self._parent_side_of(pk_cols)
"""),
               sub("""    def _init_for_omit_join_m2o(self):""", """    def _parent_side_of(self, key_cols):
        equated = self.parent_property._get_strategy(
            (("lazy", "select"),)
        )._equated_columns
        return [equated[c] for c in key_cols]

    def _init_for_omit_join_m2o(self):""")), None)

# ---- C40-R6 (row limits and joined collections) ---------------------------------------------------------
R.mutant("r6-offset-alone-does-not-nest", _CTX,                         # essence of seeded C40_2
         sub("""            or (
                kwargs.get("offset_clause") is not None
                and self.multi_row_eager_loaders
            )
""", ""), "C40-R6")
R.mutant("r6-fetch-key-misspelt-by-the-decision", _CTX,
         sub("""                kwargs.get("fetch_clause") is not None
                and self.multi_row_eager_loaders""", """                kwargs.get("fetch") is not None
                and self.multi_row_eager_loaders"""), "C40-R6")
R.mutant("r6-joined-loader-does-not-announce-its-joins", STRAT,
         sub("""            compile_state.eager_adding_joins = True
""", """            pass
"""), "C40-R6")
R.mutant("benign-r6-row-window-folded-into-one-local", _CTX,
         sub("""        return (
            (
                kwargs.get("limit_clause") is not None
                and self.multi_row_eager_loaders
            )
            or (
                kwargs.get("offset_clause") is not None
                and self.multi_row_eager_loaders
            )
            or (
                kwargs.get("fetch_clause") is not None
                and self.multi_row_eager_loaders
            )
            or kwargs.get("distinct", False)""", """        windowed = any(
            kwargs.get(part) is not None
            for part in ("limit_clause", "offset_clause", "fetch_clause")
        )
        multiplies_rows = self.multi_row_eager_loaders

        return (
            (windowed and multiplies_rows)
            or kwargs.get("distinct", False)"""), None)
R.mutant("benign-r6-row-window-in-helper-property-inverted-exit", _CTX,
         sub("""        if not self.eager_adding_joins:
            return False

        return (
            (
                kwargs.get("limit_clause") is not None
                and self.multi_row_eager_loaders
            )
            or (
                kwargs.get("offset_clause") is not None
                and self.multi_row_eager_loaders
            )
            or (
                kwargs.get("fetch_clause") is not None
                and self.multi_row_eager_loaders
            )
            or kwargs.get("distinct", False)
            or kwargs.get("distinct_on", ())
            or kwargs.get("group_by", False)
        )
""", """        if self.eager_adding_joins:
            if self._window_counts_joined_rows:
                return True
            return bool(
                kwargs.get("distinct", False)
                or kwargs.get("distinct_on", ())
                or kwargs.get("group_by", False)
            )
        return False

    @property
    def _window_counts_joined_rows(self):
        if not self.multi_row_eager_loaders:
            return False
        stmt_parts = self._select_args
        if stmt_parts.get("limit_clause") is not None:
            return True
        if stmt_parts.get("fetch_clause") is not None:
            return True
        return stmt_parts.get("offset_clause") is not None
"""), None)

# ---- C40-R1 (vocabulary) -------------------------------------------------------------------------------
R.mutant("r1-selectin-registered-under-other-name", STRAT,
         sub('''@relationships.RelationshipProperty.strategy_for(lazy="selectin")''',
             '''@relationships.RelationshipProperty.strategy_for(lazy="select_in")'''), "C40-R1")
R.mutant("r1-innerjoin-option-key-misspelt-by-writer", OPTS,
         sub('''{"innerjoin": innerjoin}''', '''{"inner_join": innerjoin}'''), "C40-R1")
R.mutant("r1-chunksize-option-key-misspelt-by-reader", STRAT,
         sub('''loadopt.local_opts.get("chunksize", None)''', '''loadopt.local_opts.get("chunk_size", None)'''), "C40-R1")
R.mutant("r1-defer-raiseload-key-renamed", OPTS,
         sub('''        strategy = {"deferred": True, "instrument": True}
        if raiseload:
            strategy["raiseload"] = True''', '''        strategy = {"deferred": True, "instrument": True}
        if raiseload:
            strategy["raise_load"] = True'''), "C40-R1")
R.mutant("r1-undefer-group-prefix-changed-by-reader", STRAT,
         sub('''"undefer_group_%s" % self.group''', '''"undefergroup_%s" % self.group'''), "C40-R1")
R.mutant("benign-r1-selectin-opts-built-in-local", OPTS,
         sub('''        return self._set_relationship_strategy(
            attr,
            {"lazy": "selectin"},
            opts={"recursion_depth": recursion_depth, "chunksize": chunksize},
        )''', '''        selectin_opts = {}
        selectin_opts["chunksize"] = chunksize
        selectin_opts["recursion_depth"] = recursion_depth
        strategy_spec = dict(lazy="selectin")
        return self._set_relationship_strategy(
            attr, strategy_spec, opts=selectin_opts
        )'''), None)
R.mutant("benign-r1-reader-through-alias-and-constant", STRAT,
         chain(sub('''        user_input = loadopt.local_opts.get("chunksize", None)''', '''        option_values = loadopt.local_opts
        user_input = option_values.get(_CHUNKSIZE_OPT, None)'''),
               sub('''def _register_attribute(''', '''_CHUNKSIZE_OPT = "chunksize"


def _register_attribute(''')), None)
R.mutant("benign-r1-registration-keywords-reordered", STRAT,
         sub('''@properties.ColumnProperty.strategy_for(instrument=True, deferred=False)
class _ColumnLoader''', '''@properties.ColumnProperty.strategy_for(deferred=False, instrument=True)
class _ColumnLoader'''), None)

# ---- C40-R2 (relationship order_by) ----------------------------------------------------------------------
R.mutant("r2-lazy-order-by-not-applied", STRAT,
         sub('''        if self._order_by:
            stmt._order_by_clauses = self._order_by
''', ""), "C40-R2")
R.mutant("r2-joined-order-by-not-applied", STRAT,
         sub('''        if self.parent_property.order_by:
            compile_state.eager_order_by += tuple(
                (eagerjoin._target_adapter.copy_and_process)(
                    util.to_list(self.parent_property.order_by)
                )
            )
''', ""), "C40-R2")
R.mutant("r2-subquery-order-by-helper-no-longer-called", STRAT,
         sub('''q = self._setup_outermost_orderby(q)''', '''pass'''), "C40-R2")
R.mutant("r2-selectin-order-by-only-tested", STRAT,
         sub('''                q = q.order_by(*eager_order_by)
            else:

                def _setup_outermost_orderby(compile_context):
                    compile_context.eager_order_by += tuple(
                        util.to_list(self.parent_property.order_by)
                    )

                q = q._add_compile_state_func(
                    _setup_outermost_orderby, self.parent_property
                )''', '''                q = q.order_by(None)'''), "C40-R2")
R.mutant("benign-r2-lazy-order-attribute-renamed", STRAT,
         chain(sub('''        "_order_by",
''', '''        "_relationship_ordering",
'''),
               sub('''        if self.parent_property.order_by:
            self._order_by = util.to_list(self.parent_property.order_by)
        else:
            self._order_by = None
''', '''        prop = self.parent_property
        self._relationship_ordering = (
            util.to_list(prop.order_by) if prop.order_by else None
        )
'''),
               sub('''        if self._order_by:
            stmt._order_by_clauses = self._order_by
''', '''        ordering = self._relationship_ordering
        if ordering:
            stmt._order_by_clauses = ordering
''')), None)
R.mutant("benign-r2-selectin-order-by-through-helper", STRAT,
         chain(sub('''                eager_order_by = self.parent_property.order_by
                if effective_entity.is_aliased_class:
                    eager_order_by = [
                        effective_entity._adapt_element(elem)
                        for elem in eager_order_by
                    ]
                q = q.order_by(*eager_order_by)''', '''                q = q.order_by(*self._ordering_for(effective_entity))'''),
               sub('''    def _load_via_child(''', '''    def _ordering_for(self, effective_entity):
        ordering = self.parent_property.order_by
        if effective_entity.is_aliased_class:
            return [effective_entity._adapt_element(e) for e in ordering]
        return ordering

    def _load_via_child(''')), None)

# ---- C40-R3 (option criteria) ----------------------------------------------------------------------------
R.mutant("r3-selectin-criteria-dropped", STRAT,
         sub('''        if loadopt and loadopt._extra_criteria:
            new_options += (
                orm_util.LoaderCriteriaOption(
                    effective_entity,
                    loadopt._generate_extra_criteria(context),
                ),
            )

        if recursion_depth is not None:''', '''        if recursion_depth is not None:'''), "C40-R3")
R.mutant("r3-joined-criteria-dropped", STRAT,
         sub('''                loadopt._extra_criteria if loadopt else (),
            )
        )

        add_to_collection = compile_state.secondary_columns''', '''                (),
            )
        )

        add_to_collection = compile_state.secondary_columns'''), "C40-R3")
R.mutant("r3-lazy-criteria-only-tested", STRAT,
         sub('''                    (
                        loadopt._generate_extra_criteria(context)
                        if loadopt._extra_criteria
                        else None
                    ),''', '''                    None,'''), "C40-R3")
R.mutant("r3-subquery-criteria-dropped", STRAT,
         sub('''        if loadopt and loadopt._extra_criteria:
            new_options += (
                orm_util.LoaderCriteriaOption(
                    effective_entity,
                    loadopt._generate_extra_criteria(context),
                ),
            )

        # propagate loader options etc. to the new query.''', '''        # propagate loader options etc. to the new query.'''),
         "C40-R3")
# (the former benign variant 'immediate hands the option on' became the library's code with fix c6c48cf; its
#  converse is now a breaking mutant and a restructured form of the fixed code is the benign one)
R.mutant("r3-immediate-drops-the-option-again", STRAT,
         sub('''                    flags,
                    loadopt=loadopt,
                    extra_criteria=extra_criteria,
                    extra_options=extra_options,''', '''                    flags,
                    extra_options=extra_options,'''), "C40-R3")
R.mutant("benign-r3-immediate-hands-the-option-on", STRAT,
         sub('''        if loadopt and loadopt._extra_criteria:
            extra_criteria = loadopt._generate_extra_criteria(context)
        else:
            extra_criteria = ()
        for state, overwrite in states:
            dict_ = state.dict

            if overwrite or key not in dict_:
                value = lazyloader._load_for_state(
                    state,
                    flags,
                    loadopt=loadopt,
                    extra_criteria=extra_criteria,
                    extra_options=extra_options,''', '''        if not (loadopt and loadopt._extra_criteria):
            option_criteria = ()
        else:
            option_criteria = loadopt._generate_extra_criteria(context)
        for state, overwrite in states:
            dict_ = state.dict

            if overwrite or key not in dict_:
                value = lazyloader._load_for_state(
                    state,
                    flags,
                    extra_criteria=option_criteria,
                    loadopt=loadopt,
                    extra_options=extra_options,'''), None)
R.mutant("benign-r3-selectin-criteria-in-local", STRAT,
         sub('''        if loadopt and loadopt._extra_criteria:
            new_options += (
                orm_util.LoaderCriteriaOption(
                    effective_entity,
                    loadopt._generate_extra_criteria(context),
                ),
            )

        if recursion_depth is not None:''', '''        option_criteria = (
            loadopt._generate_extra_criteria(context)
            if loadopt and loadopt._extra_criteria
            else None
        )
        if option_criteria:
            criteria_option = orm_util.LoaderCriteriaOption(
                effective_entity, option_criteria
            )
            new_options = tuple(new_options) + (criteria_option,)

        if recursion_depth is not None:'''), None)

# ---- C40-R4 (column loaders) -----------------------------------------------------------------------------
R.mutant("r4-identity-columns-no-longer-exempt", STRAT,
         sub('''            or (
                loadopt
                and set(self.columns).intersection(
                    self.parent._should_undefer_in_wildcard
                )
            )
''', ""), "C40-R4")
R.mutant("r4-wildcard-set-without-primary-key", _MAP,
         sub('''        cols: Set[ColumnElement[Any]] = set(self.primary_key)
        if self.polymorphic_on is not None:''', '''        cols: Set[ColumnElement[Any]] = set()
        if self.polymorphic_on is not None:'''), "C40-R4")
R.mutant("r4-only-load-props-inverted", STRAT,
         sub('''            or (only_load_props and self.key in only_load_props)
        ):
            self.parent_property._get_strategy(''', '''            or (only_load_props and self.key not in only_load_props)
        ):
            self.parent_property._get_strategy('''), "C40-R4")
R.mutant("r4-plain-loader-adds-first-column-only", STRAT,
         sub('''        for c in self.columns:
            if adapter:
                if check_for_adapt:''', '''        for c in self.columns[:1]:
            if adapter:
                if check_for_adapt:'''), "C40-R4")
R.mutant("benign-r4-undefer-decision-in-helper", STRAT,
         chain(sub('''        if (
            (
                compile_state.compile_options._render_for_subquery
                and self.parent_property._renders_in_subqueries
            )
            or (
                loadopt
                and set(self.columns).intersection(
                    self.parent._should_undefer_in_wildcard
                )
            )
            or (
                loadopt
                and self.group
                and loadopt.local_opts.get(
                    "undefer_group_%s" % self.group, False
                )
            )
            or (only_load_props and self.key in only_load_props)
        ):
            self.parent_property._get_strategy(''', '''        if self._load_anyway(compile_state, loadopt, only_load_props):
            self.parent_property._get_strategy('''),
               sub('''    def _load_for_state(self, state, passive):
        if not state.key:
            return LoaderCallableStatus.ATTR_EMPTY
''', '''    def _load_anyway(self, compile_state, loadopt, only_load_props):
        opts = compile_state.compile_options
        if opts._render_for_subquery and self.parent_property._renders_in_subqueries:
            return True
        if only_load_props and self.key in only_load_props:
            return True
        if not loadopt:
            return False
        identity_columns = self.parent._should_undefer_in_wildcard
        if not identity_columns.isdisjoint(self.columns):
            return True
        group_key = "undefer_group_%s" % self.group
        return bool(self.group) and bool(loadopt.local_opts.get(group_key, False))

    def _load_for_state(self, state, passive):
        if not state.key:
            return LoaderCallableStatus.ATTR_EMPTY
''', count=1)), None)
R.mutant("benign-r4-wildcard-set-by-union", _MAP,
         sub('''        cols: Set[ColumnElement[Any]] = set(self.primary_key)
        if self.polymorphic_on is not None:
            cols.add(self.polymorphic_on)
        return cols''', '''        discriminator = (
            {self.polymorphic_on} if self.polymorphic_on is not None else set()
        )
        return {pk_col for pk_col in self.primary_key} | discriminator'''), None)
R.mutant("benign-r2-immediate-delegate-key-constant", STRAT,
         chain(sub('''        key = self.key
        lazyloader = self.parent_property._get_strategy((("lazy", "select"),))
        if loadopt and loadopt._extra_criteria:''', '''        key = self.key
        lazyloader = self.parent_property._get_strategy(_LAZY_SELECT_KEY)
        if loadopt and loadopt._extra_criteria:'''),
               sub('''def _register_attribute(''', '''_LAZY_SELECT_KEY = (("lazy", "select"),)


def _register_attribute(''')), None)
R.mutant("benign-r2-joined-order-through-alias", STRAT,
         sub('''        if self.parent_property.order_by:
            compile_state.eager_order_by += tuple(
                (eagerjoin._target_adapter.copy_and_process)(
                    util.to_list(self.parent_property.order_by)
                )
            )
''', '''        relationship_prop = self.parent_property
        ordering = util.to_list(relationship_prop.order_by)
        if ordering:
            adapted = eagerjoin._target_adapter.copy_and_process(ordering)
            compile_state.eager_order_by = compile_state.eager_order_by + tuple(
                adapted
            )
'''), None)
