"""C04 -- Bound parameters reach the right placeholders (thin: paramstyle tables, escape table, positiontup)."""

from __future__ import annotations

import ast
import re

from ..astutil import (
    call_name, calls_in, dotted, guard_atoms, lexical_guards, name_stores, test_atoms, unparse, walk_local,
)
from ..evalx import has_unknown
from ..index import ClassInfo
from ..oracles import load as load_oracle
from ..report import Registry, chain, sub
from ._helpers_rules_a import Mini, Unsupported, self_attr
from ._helpers_rules_b import call_sites
from . import _helpers_str_c as KS
from . import _helpers_rob_c3 as RC

R = Registry(
    "C04",
    title="Bound parameters are delivered to the right placeholders in every paramstyle",
    decides=(
        "the paramstyle vocabulary agrees across BIND_TEMPLATES, DefaultDialect.positional, the numeric-bind "
        "test and marker character, the two _process_positional placeholders, IdentifierPreparer's percent "
        "doubling and every paramstyle literal in the dialects (against the DBAPI paramstyle oracle); the "
        "bind-name escape table covers the template metacharacters, maps into word characters, is the single "
        "source of the translate regex, and escaped names are guarded against colliding with another name; "
        "_process_positional/_process_numeric leave ORIGINAL (unescaped) names in positiontup and look the "
        "statement text up by ESCAPED names; in every function that handles both name spaces (all users of "
        "escaped_bind_names / bindtemplate) a name reaches a placeholder template only after the escape "
        "translation, and no keyed collection is addressed with names of both spaces (original names: bind_names, "
        "binds, positiontup, crud bind keys, compiled_parameters; escaped names: statement text, DBAPI-level "
        "parameter dictionaries); every expression of an upsert clause that is rendered after VALUES is processed "
        "with is_upsert_set=True by every dialect, and SQLCompiler.visit_bindparam evaluates the per-row "
        "parameter detection before any placeholder is rendered, for every bindparam() without a fixed value."
    ),
    not_decided="the order of positiontup for arbitrary statements, the values of expanding / literal_execute "
                "parameters, driver behaviour; bind names of the two spaces that are compared as plain text "
                "(regular expressions over the statement).",
)

COMP = "sql/compiler.py"
DEFAULT = "engine/default.py"


def _oracle():
    return load_oracle("paramstyles.json")["styles"]


def _render_template(t: str) -> str:
    """What the compiler's template yields for a bind called `name` at position 1."""
    out = t % {"name": "name"} if "%" in t else t
    return out.replace("[_POSITION]", "1")


def _run_per_style(ctx, f, style, styles, what, env=None):
    """Run the body of `f` concretely (tolerantly) in a world where the dialect's paramstyle is `style`."""
    def attr_hook(node, env_, mini):
        d = dotted(node)
        if d in ("dialect.paramstyle", "self.dialect.paramstyle"):
            return style
        if d in ("dialect.positional", "self.dialect.positional"):
            return styles[style]["positional"]
        return NotImplemented

    def name_hook(nm):
        if nm in f.module.assigns and len(f.module.assigns[nm]) == 1:
            v = ctx.ev.module_value(f.module, nm)
            if isinstance(v, (str, int, tuple, list, set, frozenset, dict, bool)) and not has_unknown(v):
                return v
        return NotImplemented

    mini = RC.TolerantMini(attr_hook=attr_hook, name_hook=name_hook, what=what)
    env = dict(env or {})
    ctx.functions_analysed.add(f.key)
    return mini.run_tolerant(f.node.body, env), env, mini


def _string_sub_calls(fn):
    """Regular-expression substitutions with a callback whose subject is the statement text `self.string`
    (`re.sub(P, cb, self.string)` / `P.sub(cb, self.string)`, aliases of the subject resolved)."""
    subst = RC.pure_alias_bindings(fn)
    out = []
    for c in calls_in(fn):
        if dotted(c.func) == "re.sub" and len(c.args) >= 3:
            cb, text = c.args[1], c.args[2]
        elif isinstance(c.func, ast.Attribute) and c.func.attr == "sub" and len(c.args) >= 2:
            cb, text = c.args[0], c.args[1]
        else:
            continue
        if dotted(RC.substitute(text, subst)) == "self.string":
            out.append((c, cb))
    return out


def _positional_placeholder(ctx, pp, style, styles):
    """What the substitution callback over self.string returns for a normal bind when the paramstyle is `style`
    (None: the style is refused by an assertion)."""
    subs = _string_sub_calls(pp.node)
    ctx.require(subs, "_process_positional: no substitution with a callback over self.string")
    call, cb = subs[0]
    # statements of the method up to the one that performs the substitution
    upto = []
    for st in pp.node.body:
        if any(n is call for n in ast.walk(st)):
            break
        upto.append(st)

    def attr_hook(node, env_, mini):
        d = dotted(node)
        if d == "self.dialect.paramstyle":
            return style
        if d == "self._numeric_binds":
            return styles[style]["numeric"]
        return NotImplemented

    class _M:           # the match object of a normal bind named `x`
        pass

    def call_hook(c, env_, mini):
        if isinstance(c.func, ast.Attribute) and c.func.attr == "group" and isinstance(c.func.value, ast.Name) \
                and isinstance(env_.get(c.func.value.id), _M) and len(c.args) == 1 and isinstance(c.args[0], ast.Constant):
            return {0: ":x", 1: "x"}.get(c.args[0].value)
        return NotImplemented

    mini = RC.TolerantMini(attr_hook=attr_hook, call_hook=call_hook, what="_process_positional")
    env = {}
    if mini.run_tolerant(upto, env) != "ok":
        return None
    if isinstance(cb, ast.Name):
        defs = [n for n in ast.walk(pp.node) if isinstance(n, ast.FunctionDef) and n.name == cb.id]
        ctx.require(len(defs) == 1, f"_process_positional: substitution callback `{cb.id}` is not a local function")
        params = defs[0].args.posonlyargs + defs[0].args.args
        ctx.require(len(params) == 1, "_process_positional: the substitution callback does not take the match alone")
        env[params[0].arg] = _M()
        try:
            kind, value, _node = mini.run(defs[0].body, env)
        except Unsupported as e:
            ctx.error(f"_process_positional: cannot evaluate the substitution callback for `{style}`: {e}")
        ctx.require(kind == "return", "_process_positional: the substitution callback does not return a replacement")
        return value
    ctx.require(isinstance(cb, ast.Lambda) and len(cb.args.args) == 1, "_process_positional: substitution callback not understood")
    env[cb.args.args[0].arg] = _M()
    try:
        return mini.ev(cb.body, env)
    except Unsupported as e:
        ctx.error(f"_process_positional: cannot evaluate the substitution callback for `{style}`: {e}")


# floor: 26 instances are invariant (6 paramstyles x {template, positional, numeric, percent doubling} + the 2
# non-numeric positional placeholders); the remaining instances are one per paramstyle literal in the dialect
# packages (17 today), whose number changes when a dialect is reorganised -- the floor only asks for "some".
@R.rule("C04-R1", floor=30, template="T-TABLE/T-SIBLING",
        desc="paramstyle vocabulary: BIND_TEMPLATES keys/values, DefaultDialect positional tuple, numeric test and "
             "marker, _process_positional placeholders, percent doubling set and all dialect paramstyle literals "
             "agree with the DBAPI paramstyle oracle")
def r1(ctx):
    ix = ctx.index
    styles = _oracle()
    m = ix.module(COMP)
    bt = ctx.ev.module_value(m, "BIND_TEMPLATES")
    ctx.require(isinstance(bt, dict) and not has_unknown(bt), "BIND_TEMPLATES is not a literal dict")
    for s in sorted(set(styles) | set(bt)):
        key = f"{COMP}::BIND_TEMPLATES:{s}"
        if s not in bt:
            ctx.violation(key, f"paramstyle `{s}` has no bind template (KeyError when a dialect uses it)", None)
        elif s not in styles:
            ctx.violation(key, f"template for unknown paramstyle `{s}` (not a DBAPI style)", None)
        else:
            got = _render_template(bt[s])
            ctx.check(got == styles[s]["placeholder"], key,
                      f"template {bt[s]!r} renders {got!r}; a `{s}` driver expects {styles[s]['placeholder']!r}", got, None)
    # Each of the following tables is read by *running* the constructor / method concretely for every paramstyle of
    # the oracle (tolerant: statements that do not concern the scalars are skipped), so aliases, local tuples,
    # ternaries, if/elif chains, early asserts and lookup tables all mean the same thing.
    # positional flag
    init = ctx.func(f"{DEFAULT}::DefaultDialect.__init__")
    for s in sorted(styles):
        st_, env, _m = _run_per_style(ctx, init, s, styles, "DefaultDialect.__init__", {"paramstyle": s})
        pos = env.get("self.positional")
        ctx.require(st_ == "ok" and isinstance(pos, bool) and env.get("self.paramstyle") == s,
                    f"DefaultDialect.__init__: cannot evaluate `self.positional` for paramstyle `{s}`")
        ctx.check(pos == styles[s]["positional"], f"{init.key}:positional:{s}",
                  f"paramstyle `{s}` is {'not ' if not pos else ''}treated as positional, the DBAPI says "
                  f"positional={styles[s]['positional']}", f"positional={pos}", init.loc)
    # numeric test + marker in SQLCompiler.__init__
    cinit = ctx.func(f"{COMP}::SQLCompiler.__init__")
    comp_cls = ix.cls(f"{COMP}::SQLCompiler")
    nb_default = [n.value for n in comp_cls.assigns.get("_numeric_binds", []) if isinstance(n, ast.Constant)]
    seen_store = False
    for s in sorted(styles):
        st_, env, _m = _run_per_style(ctx, cinit, s, styles, "SQLCompiler.__init__")
        seen_store = seen_store or "self._numeric_binds" in env
        nb = env.get("self._numeric_binds", nb_default[-1] if nb_default else False)
        ctx.require(st_ == "ok" and isinstance(nb, bool), f"SQLCompiler.__init__: cannot evaluate `_numeric_binds` for paramstyle `{s}`")
        ok = nb == styles[s]["numeric"]
        detail = f"numeric={nb}"
        if ok and nb:
            ch = env.get("self._numeric_binds_identifier_char")
            want = styles[s]["placeholder"][0]
            ok = ch == want and s in bt and bt[s].startswith(want)
            detail += f", marker {ch!r}"
            if not ok:
                detail = f"numeric marker for `{s}` is {ch!r}, the driver expects {want!r} (template {bt.get(s)!r})"
        elif not ok:
            detail = f"`{s}` is {'not ' if not nb else ''}treated as numeric, oracle says numeric={styles[s]['numeric']}"
        ctx.check(ok, f"{cinit.key}:numeric:{s}", detail, detail, cinit.loc)
    ctx.require(seen_store, "SQLCompiler.__init__: numeric bind set-up not found")
    # _process_positional: what the substitution callback puts into the text for a normal bind
    pp = ctx.func(f"{COMP}::SQLCompiler._process_positional")
    want_handled = {s for s in styles if styles[s]["positional"] and not styles[s]["numeric"]}
    for s in sorted(want_handled):
        got = _positional_placeholder(ctx, pp, s, styles)
        ctx.check(got == styles[s]["placeholder"], f"{pp.key}:placeholder:{s}",
                  f"_process_positional renders {got!r} for `{s}` (expected {styles[s]['placeholder']!r}; "
                  f"non-numeric positional styles are {sorted(want_handled)})", f"{got!r}", pp.loc)
    # percent doubling
    pinit = ctx.func(f"{COMP}::IdentifierPreparer.__init__")
    for s in sorted(styles):
        st_, env, _m = _run_per_style(ctx, pinit, s, styles, "IdentifierPreparer.__init__")
        dp = env.get("self._double_percents")
        ctx.require(st_ == "ok" and isinstance(dp, bool), f"IdentifierPreparer.__init__: cannot evaluate `_double_percents` for paramstyle `{s}`")
        ctx.check(dp == styles[s]["percent_is_special"], f"{pinit.key}:double_percents:{s}",
                  f"`{s}`: percent doubling is {'on' if dp else 'off'} but the driver "
                  f"{'does' if styles[s]['percent_is_special'] else 'does not'} %-format the statement",
                  f"double_percents={dp}", pinit.loc)
    # literals in dialects
    dd = ix.cls(f"{DEFAULT}::DefaultDialect")
    for cls in [dd] + sorted(ix.subclasses(dd), key=lambda c: c.key):
        for node in cls.assigns.get("default_paramstyle", []):
            v = node.value if isinstance(node, ast.Constant) else None
            ctx.require(isinstance(v, str), f"{cls.key}.default_paramstyle is not a string literal")
            ctx.check(v in styles and v in bt, f"{cls.key}.default_paramstyle",
                      f"default_paramstyle {v!r} is not a known paramstyle", v, cls.loc, nontrivial=False)
        for name, f in cls.methods.items():
            for n in walk_local(f.node):
                lits = []
                if isinstance(n, ast.Assign) and any(self_attr(t) == "paramstyle" for t in n.targets) \
                        and isinstance(n.value, ast.Constant):
                    lits.append(n.value.value)
                if isinstance(n, ast.Call):
                    for k in n.keywords:
                        if k.arg == "paramstyle" and isinstance(k.value, ast.Constant) and isinstance(k.value.value, str):
                            lits.append(k.value.value)
                for v in lits:
                    ctx.check(v in styles and v in bt, f"{f.key}:paramstyle-literal",
                              f"paramstyle literal {v!r} is not a known paramstyle", v, f.loc, nontrivial=False)


# ------------------------------------------------------------------------------------------ R2
REQUIRED_ESCAPES = {
    "%": "pyformat template %(name)s", "(": "pyformat template %(name)s", ")": "pyformat template %(name)s",
    ":": "named template :name",
    "[": "post-compile marker __[POSTCOMPILE_name]", "]": "post-compile marker __[POSTCOMPILE_name]",
    " ": "post-compile marker matches \\S+; named styles end a name at white space",
    ".": "named styles end a name at '.'",
}


@R.rule("C04-R2", floor=23, template="T-TABLE/T-GUARD",
        desc="bindname_escape_characters (base and overrides): keys cover the template metacharacters, values are "
             "word characters; the translate regex and table come from the same attribute; a translated name is "
             "checked against the names already in use (the map is not injective on names)")
def r2(ctx):
    ix = ctx.index
    base = ix.cls(f"{COMP}::SQLCompiler")
    m = ix.module(COMP)
    bt = ctx.ev.module_value(m, "BIND_TEMPLATES")
    # metacharacters derived from the name-bearing templates (cross-check of the reasons above)
    derived = set()
    for s, t in bt.items():
        if "%(name)s" in t:
            derived |= {ch for ch in (t % {"name": ""}) if not ch.isalnum() and ch != "_"}
    ctx.require(derived <= set(REQUIRED_ESCAPES), f"a bind template uses metacharacter(s) {sorted(derived - set(REQUIRED_ESCAPES))} "
                                                   f"that the rule does not know about")
    for cls in [base] + sorted(ix.subclasses(base), key=lambda c: c.key):
        if "bindname_escape_characters" not in cls.assigns:
            continue
        tbl = ctx.ev.class_value(cls, "bindname_escape_characters", inherited=False)
        ctx.require(isinstance(tbl, dict) and not has_unknown(tbl), f"{cls.key}.bindname_escape_characters is not a literal mapping")
        for ch, why in REQUIRED_ESCAPES.items():
            ctx.check(ch in tbl, f"{cls.key}.bindname_escape_characters:key:{ch!r}",
                      f"{ch!r} is not escaped in bind names ({why}): a bind named `a{ch}b` breaks the statement text",
                      why, cls.loc)
        bad = {k: v for k, v in tbl.items() if not (isinstance(v, str) and re.fullmatch(r"\w+", v))}
        ctx.check(not bad, f"{cls.key}.bindname_escape_characters:values",
                  f"replacement(s) {bad} are not word characters: the escaped name is itself unusable", "all \\w+", cls.loc)
        multi = [k for k in tbl if len(k) != 1]
        ctx.check(not multi, f"{cls.key}.bindname_escape_characters:single-chars",
                  f"key(s) {multi} are not single characters but the translate regex is a character class", "", cls.loc,
                  nontrivial=False)
    ib = ctx.func(f"{COMP}::SQLCompiler._init_bind_translate")
    # both the regex and the table must derive from one and the same `<recv>.bindname_escape_characters`
    # (directly or through locals)
    srcs = {dotted(n) for n in ast.walk(ib.node) if isinstance(n, ast.Attribute) and n.attr == "bindname_escape_characters"}

    def reads_table(e):
        return any(isinstance(n, ast.Attribute) and n.attr == "bindname_escape_characters" for n in ast.walk(e))
    seeds = {n for n, v, st in name_stores(ib.node) if v is not None and reads_table(v)}
    derived = RC.derived_names(ib.node, seeds, include_nested=False) if seeds else set()
    fed = set()
    for n in walk_local(ib.node):
        if isinstance(n, ast.Assign):
            for t in n.targets:
                if isinstance(t, ast.Attribute) and (reads_table(n.value) or any(
                        isinstance(x, ast.Name) and x.id in derived for x in ast.walk(n.value))):
                    fed.add(t.attr)
    ctx.check(len(srcs) == 1 and {"_bind_translate_re", "_bind_translate_chars"} <= fed, ib.key,
              "the translate regex and the translate table are not both built from cls.bindname_escape_characters",
              "regex and table from one attribute", ib.loc)
    # collision guard: anchored at bindparam_string (the entry point every bind name passes through); the translation
    # and the check may live in the method itself or in a helper method it calls (one level)
    for cls in [base] + sorted(ix.subclasses(base), key=lambda c: c.key):
        f = cls.methods.get("bindparam_string")
        if f is None:
            continue
        ctx.functions_analysed.add(f.key)
        bodies = [f]
        for c in calls_in(f.node):
            if isinstance(c.func, ast.Attribute) and isinstance(c.func.value, ast.Name) and c.func.value.id in ("self", "cls"):
                h = ix.resolve_method(cls, c.func.attr)
                if h is not None and h.node is not f.node and h.name != "bindparam_string" and all(h is not b for b in bodies):
                    bodies.append(h)
        translated_anywhere = False
        guard = False
        for b in bodies:
            aliases = RC.pure_alias_bindings(b.node)
            subs = [c for c in calls_in(b.node) if isinstance(c.func, ast.Attribute) and c.func.attr == "sub"
                    and (dotted(RC.substitute(c.func.value, aliases)) or "").endswith("_bind_translate_re")]
            if not subs:
                continue
            translated_anywhere = True
            ctx.functions_analysed.add(b.key)
            translated = {n for n, v, st in name_stores(b.node) if v is not None and any(c in list(ast.walk(v)) for c in subs)}
            translated = RC.derived_names(b.node, translated, include_nested=False) if translated else set()
            params = {a.arg for a in b.node.args.args}
            for n in walk_local(b.node):
                if isinstance(n, ast.Compare) and isinstance(n.ops[0], (ast.In, ast.NotIn)) and isinstance(n.left, ast.Name) \
                        and n.left.id in translated | (params & {"name"}):
                    tgt = dotted(RC.substitute(n.comparators[0], aliases)) or ""
                    if tgt.startswith("self.") and any(x in tgt for x in ("binds", "bind_names", "escaped_bind_names")):
                        guard = True
        if not translated_anywhere:
            continue
        ctx.check(guard, f"{f.key}:escape-collision",
                  "a bind name is translated through the (non-injective, word-character valued) escape table without "
                  "checking that the result is not already the name of another parameter: `a.b` and `a_b` (or `a%b` and "
                  "`aPb`) share one placeholder and one value", "translated name checked against names in use", f.loc)


# ------------------------------------------------------------------------------------------ R3
# Semantic re-statement (rob-C3): nothing below matches the *shape* of the two functions.  The bind-name key-space
# interpreter (KeySpace2) is run over them with one extra fact -- the groups of a regular-expression match over the
# rendered statement text are ESCAPED names -- and the rule reads off
#   * which name space the value stored into `self.positiontup` holds (must be ORIGINAL; escape-neutral where the
#     escape map is known to be empty),
#   * that the text names are translated by a map keyed by ESCAPED names (the inverse of escaped_bind_names),
#   * that every keyed lookup made with a name read from the text addresses an ESCAPED-keyed table,
# whatever the spelling (`M.get(k, k)`, `M[k] if k in M else k`, if/else statement, comprehension or loop, aliases,
# inverted branches, early returns, callback as def or lambda).  Order of appearance and the numbering guard are
# def-use / dominating-branch-outcome queries.
def _membership_normal_form(ctx, f, test: ast.expr, depth: int = 0) -> ast.expr:
    """A branch condition with everything that merely *names* a membership test spelled out, so that the guard can
    be read as atoms `x in <collection>`:
      * single-assignment locals are replaced by what they name (attribute chains, conditions, set unions, calls);
      * `self.helper(args)` whose body is one `return <expr>` is replaced by that expression (parameters bound);
      * `x in (A | B)` / `x in A.union(B, ...)` becomes `x in A or x in B ...`, `x not in ...` its negation.
    The result is only used to read guards; it is never executed."""
    import copy
    fn = f.node
    subst = RC.single_bindings(fn, kinds=(ast.Attribute, ast.Compare, ast.BoolOp, ast.UnaryOp, ast.Name, ast.BinOp, ast.Call))
    subst = {k: v for k, v in subst.items()
             if not any(isinstance(n, (ast.Await, ast.Yield, ast.NamedExpr, ast.Lambda)) for n in ast.walk(v))}
    e = RC.substitute(test, subst)
    recv = f.params[0] if f.cls is not None and f.params else None

    class Inline(ast.NodeTransformer):
        def visit_Call(self, node):
            self.generic_visit(node)
            if depth < 2 and recv and isinstance(node.func, ast.Attribute) and isinstance(node.func.value, ast.Name) \
                    and node.func.value.id == recv and not any(isinstance(a, ast.Starred) for a in node.args) \
                    and not any(k.arg is None for k in node.keywords):
                tgt = ctx.index.resolve_method(f.cls, node.func.attr)
                if tgt is not None and tgt.params:
                    body = [st for st in tgt.node.body
                            if not (isinstance(st, ast.Expr) and isinstance(st.value, ast.Constant))]
                    if len(body) == 1 and isinstance(body[0], ast.Return) and body[0].value is not None:
                        ps = tgt.params[1:]
                        if len(node.args) <= len(ps):
                            m = {tgt.params[0]: ast.Name(id=recv, ctx=ast.Load())}
                            m.update({p: a for p, a in zip(ps, node.args)})
                            m.update({k.arg: k.value for k in node.keywords if k.arg in ps})
                            if all(p in m for p in ps):
                                inner = _membership_normal_form(ctx, tgt, body[0].value, depth + 1)
                                return RC.substitute(inner, m)
            return node

    class Unions(ast.NodeTransformer):
        def parts(self, c):
            if isinstance(c, ast.BinOp) and isinstance(c.op, ast.BitOr):
                return self.parts(c.left) + self.parts(c.right)
            if isinstance(c, ast.Call) and isinstance(c.func, ast.Attribute) and c.func.attr == "union" and not c.keywords:
                return self.parts(c.func.value) + [x for a in c.args for x in self.parts(a)]
            return [c]

        def visit_Compare(self, node):
            self.generic_visit(node)
            if len(node.ops) == 1 and isinstance(node.ops[0], (ast.In, ast.NotIn)):
                ps = self.parts(node.comparators[0])
                if len(ps) > 1:
                    alt = ast.BoolOp(op=ast.Or(), values=[
                        ast.Compare(left=copy.deepcopy(node.left), ops=[ast.In()], comparators=[p_]) for p_ in ps])
                    return alt if isinstance(node.ops[0], ast.In) else ast.UnaryOp(op=ast.Not(), operand=alt)
            return node

    e = Inline().visit(copy.deepcopy(e))
    e = Unions().visit(e)
    return ast.fix_missing_locations(e)


def _r3_run(ctx, f):
    def resolve_method(nm, f=f):
        r = ctx.index.resolve_method(f.cls, nm) if f.cls is not None else None
        return r.node if r is not None and r.node is not f.node else None
    ctx.functions_analysed.add(f.key)
    return RC.KeySpace2(f.node, text_callbacks=True, resolve_method=resolve_method).run()


def _r3_positiontup(ctx, f, ks, msg_bad, detail_ok):
    stores = [o for o in ks.obs if o.how == "= elements" and o.recv.endswith(".positiontup")]
    ctx.require(stores, f"{f.name}: no store of a collection into positiontup found")
    unknown = [o for o in stores if o.idx_space in (KS.UNK, KS.BOT)]
    bad = [o for o in stores if o.idx_space in (KS.ESC, KS.MIX)]
    if unknown and not bad:
        ctx.error(f"{f.key}:positiontup: cannot tell in which name space the names stored into positiontup live "
                  f"(line {unknown[0].lineno}); the rule does not understand how they are computed")
    # ... and it is stored on every path to the normal exit
    from ..cfg import no_exc
    g = ctx.cfg(f)
    st_nodes = [nid for n in walk_local(f.node) if isinstance(n, (ast.Assign, ast.AnnAssign))
                and any(self_attr(t) == "positiontup" for t in (n.targets if isinstance(n, ast.Assign) else [n.target]))
                for nid in g.nodes_for(n)]
    w = g.must_pass([g.entry], [g.exit], st_nodes, edge_ok=no_exc) if st_nodes else ["no store"]
    ctx.check(not bad and w is None, f.key + ":positiontup",
              (msg_bad + f" (line {bad[0].lineno}: the stored names are {SPACE_WORD.get(bad[0].idx_space)})") if bad else
              "positiontup is not set on every path through the method (parameters would be delivered in no order at all)",
              detail_ok + f" ({len(stores)} store(s))", f.loc, None if bad or w is None else w)


def _text_sub_calls(ks, fn):
    """Substitution calls (deduplicated) whose text argument is the statement `self.string` (aliases resolved)."""
    subst = RC.pure_alias_bindings(fn)
    seen, out = set(), []
    for c, text in ks.text_subs:
        if id(c) in seen:
            continue
        seen.add(id(c))
        targ = c.args[2] if dotted(c.func) == "re.sub" else c.args[1]
        if dotted(RC.substitute(targ, subst)) == "self.string":
            out.append(c)
    return out


@R.rule("C04-R3", floor=6, template="T-FLOW/T-PATH",
        desc="_process_positional and _process_numeric: positiontup holds original names (names read from the text are "
             "mapped back through a map keyed by escaped names / names are taken from the original-name keyed table), "
             "the statement text is addressed by escaped names, positions follow the order of appearance in the text, "
             "only real binds consume a number")
def r3(ctx):
    pp = ctx.func(f"{COMP}::SQLCompiler._process_positional")
    ks = _r3_run(ctx, pp)
    # (1) the translation applied to text names is the inverse map
    good = [t for t in ks.translations if t.key_space == KS.ESC and t.val_space == KS.RAW and t.arg_space in (KS.ESC, KS.BOTH)]
    wrong = [t for t in ks.translations if t.mismatch()]
    ctx.check(bool(good) and not wrong, pp.key + ":inverse-map",
              ("a name read from the statement text (escaped) is looked up in a map keyed by original names: "
               f"{wrong[0]!r}" if wrong else
               "the names found in the statement text are not translated through an `{escaped: original}` inverse of "
               "escaped_bind_names"),
              f"text names translated by an escaped->original map ({len(good)} site(s))", pp.loc)
    # (2) what is stored into positiontup
    _r3_positiontup(ctx, pp, ks,
                    "positiontup is not the list of names found in the text mapped back through the inverse escape map "
                    "(escaped names would be looked up in the parameter dictionary)", "names mapped back to originals")
    # (3) names come from the statement text in order of appearance: the callback of the substitution over
    #     self.string collects the match groups, positiontup derives from that collection, the text is written back
    subs = _text_sub_calls(ks, pp.node)
    nested = {n.name: n for n in ast.walk(pp.node) if isinstance(n, ast.FunctionDef) and n is not pp.node}
    seeds = set()
    for c in subs:
        cb = c.args[1] if dotted(c.func) == "re.sub" else c.args[0]
        body = nested.get(cb.id) if isinstance(cb, ast.Name) else cb
        if body is None:
            continue
        marg = (body.args.posonlyargs + body.args.args)[0].arg if (body.args.posonlyargs + body.args.args) else None
        from_match = RC.derived_names(body, {marg}) if marg else set()
        for cc in calls_in(body):
            if isinstance(cc.func, ast.Attribute) and cc.func.attr in ("append", "extend") and isinstance(cc.func.value, ast.Name) \
                    and any(isinstance(n, ast.Name) and n.id in from_match for a in cc.args for n in ast.walk(a)):
                seeds.add(cc.func.value.id)
    derived = RC.derived_names(pp.node, seeds, include_nested=False) if seeds else set()
    pt_stores = [n for n in walk_local(pp.node) if isinstance(n, (ast.Assign, ast.AnnAssign))
                 and any(self_attr(t) == "positiontup" for t in (n.targets if isinstance(n, ast.Assign) else [n.target]))]
    from_text = bool(pt_stores) and all(any(isinstance(x, ast.Name) and x.id in derived for x in ast.walk(n.value)) for n in pt_stores)
    written_back = any(isinstance(n, ast.Assign) and any(self_attr(t) == "string" for t in n.targets)
                       and any(c in list(ast.walk(n.value)) for c in subs) for n in walk_local(pp.node))
    ctx.check(bool(subs) and from_text and written_back, pp.key + ":text-order",
              "positions are not collected by the substitution callback over self.string (order of appearance)",
              "collected in text order", pp.loc)

    pn = ctx.func(f"{COMP}::SQLCompiler._process_numeric")
    kn = _r3_run(ctx, pn)
    # (4) positiontup: original names (taken before any re-keying by escaped names)
    _r3_positiontup(ctx, pn, kn,
                    "positiontup is not taken from the original-name keyed table before that table is re-keyed by escaped names",
                    "original names, taken before re-keying")
    # (5) the statement text (escaped names) is substituted / formatted from an escaped-name keyed table
    looks = {o.nid: o for o in kn.text_lookups}.values()
    on_string = _text_sub_calls(kn, pn.node)
    ctx.require(looks and on_string, "_process_numeric: no lookup keyed by a name read from the statement text found")
    unknown = [o for o in looks if o.recv_space in (KS.UNK, KS.BOT)]
    bad = [o for o in looks if o.recv_space in (KS.RAW, KS.MIX)]
    if unknown and not bad:
        ctx.error(f"{pn.key}:text-lookup: cannot tell the key space of `{unknown[0].recv}` (line {unknown[0].lineno})")
    ctx.check(not bad, pn.key + ":text-lookup",
              "the statement text (escaped names) is not substituted from the escaped-name keyed table"
              + (f": `{bad[0].recv}` is keyed by {SPACE_WORD.get(bad[0].recv_space)} names (line {bad[0].lineno})" if bad else ""),
              f"text addressed by escaped names ({len(looks)} lookup(s))", pn.loc)
    # (6) numbering skips post-compile / literal-execute parameters: every increment of the position counter is
    #     dominated by the outcomes `bind not in post_compile_params` and `bind not in literal_execute_params`
    g = ctx.cfg(pn)
    counters = {n.value.id for n in walk_local(pn.node) if isinstance(n, ast.Assign) and isinstance(n.value, ast.Name)
                and any(self_attr(t) == "next_numeric_pos" for t in n.targets)}
    ctx.require(len(counters) == 1, "_process_numeric: the position counter stored into next_numeric_pos was not found")
    counter = next(iter(counters))
    incs = [n for n in walk_local(pn.node)
            if (isinstance(n, ast.AugAssign) and isinstance(n.target, ast.Name) and n.target.id == counter)
            or (isinstance(n, ast.Assign) and any(isinstance(t, ast.Name) and t.id == counter for t in n.targets)
                and any(isinstance(x, ast.Name) and x.id == counter for x in ast.walk(n.value)))]
    ctx.require(incs, "_process_numeric: the position counter is never advanced")
    missing = set()
    for inc in incs:
        for nid in g.nodes_for(inc):
            atoms = []
            for t, pol in g.edge_guards(nid):
                atoms.extend(test_atoms(_membership_normal_form(ctx, pn, t), pol))
            for coll in ("post_compile_params", "literal_execute_params"):
                if not any(re.search(rf" in (\w+\.)*{coll}$", a) and not pol for a, pol in atoms):
                    missing.add(coll)
    ctx.check(not missing, pn.key + ":numbering",
              "numeric placeholders are also numbered for post-compile / literal-execute parameters: the position counter "
              f"advances on a path that is not restricted to `bind not in {' / '.join(sorted(missing))}` (such a bind is "
              "rendered inline and never delivered, every later placeholder points one slot too far)",
              "only real binds are numbered", pn.loc)


# ------------------------------------------------------------------------------------------ R4
# contracts of functions whose parameters are defined to live in a given space (documented signature)
KS_CONTRACTS = {
    # bindparam_string(name, escaped_from=None, accumulate_bind_names=None, visited_bindparam=None): `name` is the
    # original bind name unless `escaped_from` is given, in which case `name` is already the escaped form of it;
    # the two accumulators collect original names (crud bind keys / positional counting).
    "bindparam_string": (
        lambda: {"name": KS.NameV(KS.RAW), "escaped_from": KS.NameV(KS.RAW),
                 "accumulate_bind_names": KS.CollV(KS.NameV(KS.RAW)), "visited_bindparam": KS.CollV(KS.NameV(KS.RAW))},
        lambda: {"escaped_from": {"name": KS.NameV(KS.ESC)}},
    ),
}
KS_MARKERS = ("escaped_bind_names", "bindtemplate", "compilation_bindtemplate")
SPACE_WORD = {KS.RAW: "ORIGINAL (unescaped)", KS.ESC: "ESCAPED", KS.BOTH: "escape-neutral", KS.MIX: "sometimes original, sometimes escaped"}


def _ks_functions(ctx):
    out = []
    for m in ctx.index.all_modules():
        if m.relpath.startswith("testing/") or not any(k in m.source for k in KS_MARKERS):
            continue
        for f in ctx.index.all_functions(m):
            if f.type_only or f.is_overload:
                continue
            hit = False
            for n in ast.walk(f.node):
                if isinstance(n, ast.Attribute) and n.attr in KS_MARKERS and isinstance(n.ctx, ast.Load):
                    hit = True
                    break
            # nested functions are analysed with their enclosing function
            if hit and not any(f is not g and g.node is not f.node and f.node in list(ast.walk(g.node))
                               for g in ctx.index.all_functions(m) if g.node.lineno <= f.node.lineno <= getattr(g.node, "end_lineno", 0) and g is not f):
                out.append(f)
    return sorted(out, key=lambda f: f.key)


def _ks_run(ctx, f, cache, param_vals=None):
    ck = (f.key, None if param_vals is None else tuple(sorted((k, repr(v)) for k, v in param_vals.items())))
    if ck in cache:
        return cache[ck]
    pv, rt = {}, {}
    if f.name in KS_CONTRACTS:
        pv, rt = KS_CONTRACTS[f.name][0](), KS_CONTRACTS[f.name][1]()
    if param_vals:
        pv.update(param_vals)
    ectx = ctx.index.cls(f"{DEFAULT}::DefaultExecutionContext")
    is_ctx = f.cls is not None and ctx.index.is_subclass(f.cls, ectx)

    def resolve_method(nm, f=f):
        if f.cls is None:
            return None
        r = ctx.index.resolve_method(f.cls, nm)
        return r.node if r is not None and r.node is not f.node else None

    ks = RC.KeySpace2(f.node, pv, rt, exec_ctx=is_ctx, resolve_method=resolve_method).run()
    ctx.functions_analysed.add(f.key)
    cache[ck] = ks
    return ks


def _bind_from_callers(ctx, f, cache):
    """Parameter values of `f` = join over all call sites in the package of the argument values."""
    pv = {}
    params = [p for p in f.params if p not in ("self", "cls")]
    sites = call_sites(ctx.index, f)
    for caller, call in sites:
        # the enclosing *indexed* function may be nested in another one: analyse the outermost
        ks = _ks_run(ctx, caller, cache)
        args = ks.calls.get(id(call))
        if args is None:
            continue
        for p, a in zip(params, args):
            pv[p] = KS.join(pv[p], a) if p in pv else a
        for k, a in ks.call_kw.get(id(call), {}).items():
            if k in params:
                pv[k] = KS.join(pv[k], a) if k in pv else a
    return pv, sites


@R.rule("C04-R4", floor=30, template="T-FLOW",
        desc="bind-name key spaces: in every function that uses escaped_bind_names / a bind template, a name is "
             "formatted into a placeholder (or post-compile marker) only after the escape translation, and every "
             "lookup / membership test / set operation / store relates names of one space only (original vs escaped)")
def r4(ctx):
    cache = {}
    funcs = _ks_functions(ctx)
    ctx.require(len(funcs) >= 9, f"only {len(funcs)} functions use escaped_bind_names / bindtemplate (expected the compiler, "
                                 f"the execution context and the oracle out-parameter code)")
    seen_attrs = set()
    nsinks = 0
    for f in funcs:
        ks = _ks_run(ctx, f, cache)
        if any(s.space in (KS.UNK, KS.BOT) for s in ks.sinks) and f.name not in KS_CONTRACTS:
            pv, sites = _bind_from_callers(ctx, f, cache)
            if pv:
                ks = _ks_run(ctx, f, cache, pv)
        seen_attrs |= ks.attrs_seen
        loc = lambda ln, f=f: f"{f.module.path}:{ln}"
        # (a) sinks
        counts = {}
        for s_ in ks.sinks:
            scope = "" if s_.scope == f.name else ":" + s_.scope
            base = f"{f.key}:{'placeholder-name' if s_.kind == 'template' else 'postcompile-marker-name'}{scope}"
            counts[base] = counts.get(base, 0) + 1
            key = base if counts[base] == 1 else f"{base}#{counts[base]}"
            nsinks += 1
            if s_.space in (KS.UNK, KS.BOT):
                ctx.error(f"{key}: cannot tell in which name space `{s_.expr}` lives (line {s_.lineno}); "
                          f"the rule does not understand how it is computed")
            ctx.check(s_.space in (KS.ESC, KS.BOTH), key,
                      f"`{s_.expr}` is formatted into the {'bind template' if s_.kind == 'template' else 'post-compile marker'} "
                      f"but is {SPACE_WORD.get(s_.space, s_.space)}: it did not pass through the escape translation "
                      f"(`escaped_bind_names.get(k, k)` / the translate regex), so for a bind whose name needs escaping "
                      f"(`a.b`, `a b`, `a%b`) the generated text does not match the placeholder in the statement",
                      f"`{s_.expr}` is {SPACE_WORD.get(s_.space, s_.space)}", loc(s_.lineno))
        # (b) receivers
        by_recv = {}
        for o in ks.obs:
            by_recv.setdefault(o.recv, []).append(o)
        for recv, obs in sorted(by_recv.items()):
            definite = [o for o in obs if o.definite() and (o.recv_space in KS.DEFINITE or o.idx_space in KS.DEFINITE)]
            bad = [o for o in obs if o.mismatch()]
            if not bad and len(definite) < 1:
                continue
            key = f"{f.key}:keyspace:{recv}"
            if bad:
                o = bad[0]
                ctx.violation(key,
                              f"`{recv}` holds {SPACE_WORD[o.recv_space]} bind names but is addressed (`{o.how.strip()}`, line {o.lineno}) "
                              f"with an {SPACE_WORD[o.idx_space]} name"
                              + (f"; other uses: {[(x.how.strip(), x.idx_space, x.lineno) for x in obs if x is not o][:4]}" if len(obs) > 1 else "")
                              + ": for a bind whose name needs escaping the two spaces differ (KeyError / value of another row or "
                                "parameter / parameter silently not rewritten)", loc(o.lineno))
            else:
                sp = sorted({x for o in definite for x in (o.recv_space, o.idx_space) if x in KS.DEFINITE})
                ctx.ok(key, f"{len(definite)} use(s), all {SPACE_WORD[sp[0]] if sp else '?'}", nontrivial=len(obs) > 1)
    ctx.require(nsinks >= 6, f"only {nsinks} placeholder-name sinks found (bindparam_string, expanding parameters, insertmanyvalues expected)")
    missing = sorted(set(KS.ATTR_DECL) - seen_attrs)
    ctx.require(not missing, f"declared key-space sources never read in the analysed functions (stale table?): {missing}")


# ------------------------------------------------------------------------------------------ R5
@R.rule("C04-R5", floor=7, template="T-SIBLING/T-PATH/T-GUARD",
        desc="placeholders after VALUES whose value varies per parameter set are recognised: every dialect's upsert "
             "visitor renders the SET values (and the UPDATE's WHERE) with is_upsert_set=True; visit_bindparam "
             "evaluates the detection before any placeholder is rendered and for every bindparam() without a fixed value")
def r5(ctx):
    KS.upsert_producers(ctx)
    KS.upsert_detector(ctx)


# ------------------------------------------------------------------------------------------ self test
R.mutant("r1-positional-forgets-numeric-dollar", DEFAULT,
         sub('            "numeric",\n            "numeric_dollar",\n        )\n        self.identifier_preparer', '            "numeric",\n        )\n        self.identifier_preparer'), "C04-R1")
R.mutant("r1-template-typo", COMP, sub('    "numeric_dollar": "$[_POSITION]",\n', '    "numeric_dollar": ":[_POSITION]",\n'), "C04-R1")
R.mutant("r1-marker-swapped", COMP,
         sub('                    "$" if dialect.paramstyle == "numeric_dollar" else ":"\n', '                    ":" if dialect.paramstyle == "numeric_dollar" else "$"\n'), "C04-R1")
R.mutant("r1-dialect-unknown-style", "dialects/postgresql/pg8000.py", sub('    default_paramstyle = "format"\n', '    default_paramstyle = "fmt"\n'), "C04-R1")
R.mutant("r1-double-percents-forgets-format", COMP,
         sub('        self._double_percents = self.dialect.paramstyle in (\n            "format",\n            "pyformat",\n        )',
             '        self._double_percents = self.dialect.paramstyle in (\n            "pyformat",\n        )'), "C04-R1")
R.mutant("r2-colon-not-escaped", COMP, sub('                ":": "C",\n                ".": "_",\n', '                ".": "_",\n'), "C04-R2")
R.mutant("r2-replacement-not-word", COMP, sub('                "%": "P",\n                "(": "A",\n                ")": "Z",\n                ":": "C",\n                ".": "_",\n',
                                              '                "%": "P",\n                "(": "A",\n                ")": "Z",\n                ":": "C",\n                ".": "-",\n'), "C04-R2")
R.mutant("r2-oracle-bracket-not-escaped", "dialects/oracle/cx_oracle.py", sub('            "[": "C",\n', ""), "C04-R2")
R.mutant("r3-positional-forward-map", COMP,
         sub("            reverse_escape = {v: k for k, v in self.escaped_bind_names.items()}\n", "            reverse_escape = {k: v for k, v in self.escaped_bind_names.items()}\n"), "C04-R3")
R.mutant("r3-positional-no-mapping", COMP,
         sub("            self.positiontup = [\n                reverse_escape.get(name, name) for name in positions\n            ]\n", "            self.positiontup = positions\n"), "C04-R3")
R.mutant("r3-numeric-positiontup-after-rekey", COMP,
         sub("        self.positiontup = list(param_pos)\n        if self.escaped_bind_names:\n            len_before = len(param_pos)\n            param_pos = {\n                self.escaped_bind_names.get(name, name): pos\n                for name, pos in param_pos.items()\n            }\n            assert len(param_pos) == len_before\n",
             "        if self.escaped_bind_names:\n            len_before = len(param_pos)\n            param_pos = {\n                self.escaped_bind_names.get(name, name): pos\n                for name, pos in param_pos.items()\n            }\n            assert len(param_pos) == len_before\n        self.positiontup = list(param_pos)\n"), "C04-R3")
# benign
R.mutant("benign-reorder-template-rows", COMP, sub('    "qmark": "?",\n    "format": "%%s",\n', '    "format": "%%s",\n    "qmark": "?",\n'), None)
R.mutant("benign-extra-escape-row", COMP, sub('                " ": "_",\n            }\n', '                " ": "_",\n                "/": "_",\n            }\n'), None)
R.mutant("benign-rename-inverse-map", COMP,
         sub("            reverse_escape = {v: k for k, v in self.escaped_bind_names.items()}\n            assert len(self.escaped_bind_names) == len(reverse_escape)\n            self.positiontup = [\n                reverse_escape.get(name, name) for name in positions\n            ]\n",
             "            unescape = {esc: orig for orig, esc in self.escaped_bind_names.items()}\n            assert len(self.escaped_bind_names) == len(unescape)\n            self.positiontup = [\n                unescape.get(nm, nm) for nm in positions\n            ]\n"), None)

# ---- R4 (key spaces) ----
R.mutant("r4-imv-placeholders-use-original-keys", COMP,
         sub("                    key = escaped_bind_names.get(key, key)\n                    formatted = formatted.replace(\n",
             "                    formatted = formatted.replace(\n"), "C04-R4")
R.mutant("r4-imv-keys-to-replace-original", COMP,
         sub("            keys_to_replace = all_keys.intersection(\n                escaped_bind_names.get(key, key)\n",
             "            keys_to_replace = all_keys.intersection(\n                key\n"), "C04-R4")
R.mutant("r4-literal-execute-pops-escaped-name", COMP,      # reverts repo commit c7cadc3
         sub("                            render_literal_value=parameters.pop(name),\n",
             "                            render_literal_value=parameters.pop(escaped_name),\n"), "C04-R4")
R.mutant("r4-expanding-elements-named-after-original", COMP,
         sub("                        escaped_name, parameter, values\n", "                        name, parameter, values\n"), "C04-R4")
R.mutant("r4-context-parameters-keyed-by-original", DEFAULT,
         sub("                        escaped_names.get(key, key): (\n", "                        key: (\n"), "C04-R4")
R.mutant("r4-oracle-out-parameter-keyed-by-original", "dialects/oracle/cx_oracle.py",
         sub("                        param[quoted_bind_names.get(name, name)] = (\n", "                        param[name] = (\n"), "C04-R4")
R.mutant("r4-escape-map-recorded-backwards", COMP,
         sub("                {escaped_from: name}\n", "                {name: escaped_from}\n"), "C04-R4")
R.mutant("r4-crud-bind-keys-collected-after-translation", COMP,
         chain(sub("        if accumulate_bind_names is not None:\n            accumulate_bind_names.add(name)\n        if visited_bindparam is not None:\n            visited_bindparam.append(name)\n\n        if not escaped_from:",
                   "        if not escaped_from:"),
               sub("        if escaped_from:\n            self.escaped_bind_names = self.escaped_bind_names.union(",
                   "        if accumulate_bind_names is not None:\n            accumulate_bind_names.add(name)\n        if visited_bindparam is not None:\n            visited_bindparam.append(name)\n\n"
                   "        if escaped_from:\n            self.escaped_bind_names = self.escaped_bind_names.union(")), "C04-R4")
R.mutant("benign-r4-escape-lookup-in-local-helper", COMP,
         chain(sub("            def apply_placeholders(keys, formatted):\n",
                   "            def _esc(k):\n                return escaped_bind_names.get(k, k)\n\n            def apply_placeholders(keys, formatted):\n"),
               sub("                    key = escaped_bind_names.get(key, key)\n                    formatted = formatted.replace(\n",
                   "                    key = _esc(key)\n                    formatted = formatted.replace(\n")), None)
R.mutant("benign-r4-escape-lookup-in-method", COMP,
         chain(sub("            escaped_name = ebn.get(name, name) if ebn else name\n            parameter = self.binds[name]\n",
                   "            escaped_name = self._escaped_name_of(name)\n            parameter = self.binds[name]\n"),
               sub("    def _process_parameters_for_postcompile(\n",
                   "    def _escaped_name_of(self, name):\n        ebn = self.escaped_bind_names\n        return ebn.get(name, name) if ebn else name\n\n"
                   "    def _process_parameters_for_postcompile(\n")), None)
R.mutant("benign-r4-rename-imv-locals", COMP,
         chain(sub("            all_keys = set(parameters[0])\n", "            dbapi_keys = set(parameters[0])\n"),
               sub("            keys_to_replace = all_keys.intersection(\n", "            keys_to_replace = dbapi_keys.intersection(\n"),
               sub("                for key in all_keys.difference(keys_to_replace)\n", "                for key in dbapi_keys.difference(keys_to_replace)\n")), None)

# ---- R5 (upsert producers / detector) ----
_DETECT = (
    "        # Detect parametrized bindparams in upsert SET clause for issue #13130\n"
    "        if (\n"
    "            is_upsert_set\n"
    "            and bindparam.value is None\n"
    "            and bindparam.callable is None\n"
    "            and self._insertmanyvalues is not None\n"
    "        ):\n"
    "            self._insertmanyvalues = self._insertmanyvalues._replace(\n"
    "                has_upsert_bound_parameters=True\n"
    "            )\n"
    "\n"
)
R.mutant("r5-detection-moved-below-early-returns", COMP,
         chain(sub(_DETECT + "        if not skip_bind_expression:\n", "        if not skip_bind_expression:\n"),
               sub("        name = self._truncate_bindparam(bindparam)\n\n        if name in self.binds:\n",
                   _DETECT + "        name = self._truncate_bindparam(bindparam)\n\n        if name in self.binds:\n")), "C04-R5")
R.mutant("r5-detection-only-for-required-parameters", COMP,
         sub("            and bindparam.value is None\n            and bindparam.callable is None\n            and self._insertmanyvalues is not None\n",
             "            and bindparam.required\n            and self._insertmanyvalues is not None\n"), "C04-R5")
R.mutant("r5-sqlite-set-value-not-flagged", "dialects/sqlite/base.py",
         sub("                value.self_group(), is_upsert_set=True, **set_kw\n", "                value.self_group(), **set_kw\n"), "C04-R5")
R.mutant("r5-pg-unmatched-set-value-not-flagged", "dialects/postgresql/base.py",
         sub("                    is_upsert_set=True,\n                    **set_kw,\n", "                    **set_kw,\n"), "C04-R5")
R.mutant("benign-r5-flag-passed-through-kwargs-dict", "dialects/sqlite/base.py",
         chain(sub("        set_kw = dict(kw)\n        set_kw.update(use_schema=False)\n", "        set_kw = dict(kw)\n        set_kw.update(use_schema=False, is_upsert_set=True)\n"),
               sub("                value.self_group(), is_upsert_set=True, **set_kw\n", "                value.self_group(), **set_kw\n"),
               sub("                    is_upsert_set=True,\n                    **set_kw,\n", "                    **set_kw,\n")), None)
R.mutant("benign-r5-detection-in-helper-method", COMP,
         chain(sub(_DETECT + "        if not skip_bind_expression:\n",
                   "        self._note_upsert_parameter(bindparam, is_upsert_set)\n\n        if not skip_bind_expression:\n"),
               sub("    def render_bind_cast(self, type_, dbapi_type, sqltext):\n        raise NotImplementedError()\n",
                   "    def _note_upsert_parameter(self, bindparam, is_upsert_set):\n" + _DETECT.replace("        # Detect", "        # detect") +
                   "    def render_bind_cast(self, type_, dbapi_type, sqltext):\n        raise NotImplementedError()\n")), None)
R.mutant("benign-r5-detection-after-bind-expression-with-forwarded-flag", COMP,
         chain(sub(_DETECT + "        if not skip_bind_expression:\n", "        if not skip_bind_expression:\n"),
               sub("                    render_postcompile=render_postcompile,\n                    **kwargs,\n                )\n                if bindparam.expanding:\n",
                   "                    render_postcompile=render_postcompile,\n                    is_upsert_set=is_upsert_set,\n                    **kwargs,\n                )\n                if bindparam.expanding:\n"),
               sub("        if not literal_binds:\n            literal_execute = (\n", _DETECT + "        if not literal_binds:\n            literal_execute = (\n")), None)
R.mutant("benign-r5-condition-through-a-local", COMP,
         sub("        if (\n            is_upsert_set\n            and bindparam.value is None\n            and bindparam.callable is None\n            and self._insertmanyvalues is not None\n        ):\n",
             "        takes_row_value = bindparam.value is None and bindparam.callable is None\n        if (\n            is_upsert_set\n            and self._insertmanyvalues is not None\n            and takes_row_value\n        ):\n"), None)

# ---------------------------------------------------------------------- rob-C3: robustness battery
# Behaviour-preserving refactoring families (stored refactors rfC_10 / rfC_11 and further variants) that must stay
# silent, and neighbouring edits that break the clause and must fire.
_PP_CB_OLD = (
    "        def find_position(m: re.Match[str]) -> str:\n"
    "            normal_bind = m.group(1)\n"
    "            if normal_bind:\n"
    "                positions.append(normal_bind)\n"
    "                return placeholder\n"
    "            else:\n"
    "                # this a post-compile bind\n"
    "                positions.append(m.group(2))\n"
    "                return m.group(0)\n"
)
_PP_CB_EARLY = (
    "        def find_position(m: re.Match[str]) -> str:\n"
    "            normal_bind = m.group(1)\n"
    "            if not normal_bind:\n"
    "                positions.append(m.group(2))\n"
    "                return m.group(0)\n"
    "\n"
    "            positions.append(normal_bind)\n"
    "            return placeholder\n"
)
_PP_SUB_OLD = "        self.string = re.sub(\n            self._positional_pattern, find_position, self.string\n        )\n"
_PP_TUP_OLD = (
    "        if self.escaped_bind_names:\n"
    "            reverse_escape = {v: k for k, v in self.escaped_bind_names.items()}\n"
    "            assert len(self.escaped_bind_names) == len(reverse_escape)\n"
    "            self.positiontup = [\n"
    "                reverse_escape.get(name, name) for name in positions\n"
    "            ]\n"
    "        else:\n"
    "            self.positiontup = positions\n"
)
# family (rfC_10): pattern alias, early return in the callback, `d[k] if k in d else k`
R.mutant("benign-r3-positional-conditional-lookup-early-return-alias", COMP, chain(
    sub(_PP_CB_OLD, "        positional_pattern = self._positional_pattern\n\n" + _PP_CB_EARLY),
    sub(_PP_SUB_OLD, "        self.string = re.sub(positional_pattern, find_position, self.string)\n"),
    sub("                reverse_escape.get(name, name) for name in positions\n",
        "                reverse_escape[name] if name in reverse_escape else name\n                for name in positions\n")), None)
# family: comprehension -> loop with an if-statement translation; inverted outer if/else; alias of the map
R.mutant("benign-r3-positional-loop-and-inverted-branches", COMP, sub(
    _PP_TUP_OLD,
    "        escaped = self.escaped_bind_names\n"
    "        if not escaped:\n"
    "            self.positiontup = positions\n"
    "        else:\n"
    "            unescape = {}\n"
    "            for original, esc_name in escaped.items():\n"
    "                unescape[esc_name] = original\n"
    "            assert len(escaped) == len(unescape)\n"
    "            names = []\n"
    "            for found in positions:\n"
    "                if found in unescape:\n"
    "                    found = unescape[found]\n"
    "                names.append(found)\n"
    "            self.positiontup = names\n"), None)
# family: single store through a local, ternary on the escape map
R.mutant("benign-r3-positional-single-store-ternary", COMP, sub(
    _PP_TUP_OLD,
    "        reverse_escape = {v: k for k, v in self.escaped_bind_names.items()}\n"
    "        assert len(self.escaped_bind_names) == len(reverse_escape)\n"
    "        self.positiontup = (\n"
    "            [reverse_escape.get(name, name) for name in positions]\n"
    "            if reverse_escape\n"
    "            else positions\n"
    "        )\n"), None)
_PN_LOOP_OLD = (
    "            if (\n"
    "                bind in self.post_compile_params\n"
    "                or bind in self.literal_execute_params\n"
    "            ):\n"
    "                # set to None to just mark the in positiontup, it will not\n"
    "                # be replaced below.\n"
    "                param_pos[bind_name] = None  # type: ignore[assignment]\n"
    "            else:\n"
    "                ph = f\"{self._numeric_binds_identifier_char}{num}\"\n"
    "                num += 1\n"
    "                param_pos[bind_name] = ph\n"
)
_PN_REKEY_OLD = (
    "        if self.escaped_bind_names:\n"
    "            len_before = len(param_pos)\n"
    "            param_pos = {\n"
    "                self.escaped_bind_names.get(name, name): pos\n"
    "                for name, pos in param_pos.items()\n"
    "            }\n"
    "            assert len(param_pos) == len_before\n"
)
# family (rfC_11): `or` split into if/elif, aliases, f-string -> %, conditional lookup
R.mutant("benign-r3-numeric-elif-aliases-percent-conditional-lookup", COMP, chain(
    sub(_PN_LOOP_OLD,
        "            if bind in self.post_compile_params:\n"
        "                param_pos[bind_name] = None  # type: ignore[assignment]\n"
        "            elif bind in self.literal_execute_params:\n"
        "                param_pos[bind_name] = None  # type: ignore[assignment]\n"
        "            else:\n"
        "                placeholder = \"%s%s\" % (self._numeric_binds_identifier_char, num)\n"
        "                num += 1\n"
        "                param_pos[bind_name] = placeholder\n"),
    sub(_PN_REKEY_OLD,
        "        escaped_bind_names = self.escaped_bind_names\n"
        "        if escaped_bind_names:\n"
        "            len_before = len(param_pos)\n"
        "            param_pos = {\n"
        "                (\n"
        "                    escaped_bind_names[name]\n"
        "                    if name in escaped_bind_names\n"
        "                    else name\n"
        "                ): pos\n"
        "                for name, pos in param_pos.items()\n"
        "            }\n"
        "            assert len(param_pos) == len_before\n")), None)
# family: boolean local as guard + early continue; collection aliases; re-keying by a loop; callback as a def
R.mutant("benign-r3-numeric-continue-boolean-local-loop-rekey-def-callback", COMP, chain(
    sub(_PN_LOOP_OLD,
        "            literal_params = self.literal_execute_params\n"
        "            rendered_inline = (\n"
        "                bind in self.post_compile_params or bind in literal_params\n"
        "            )\n"
        "            if rendered_inline:\n"
        "                param_pos[bind_name] = None  # type: ignore[assignment]\n"
        "                continue\n"
        "            ph = f\"{self._numeric_binds_identifier_char}{num}\"\n"
        "            num = num + 1\n"
        "            param_pos[bind_name] = ph\n"),
    sub(_PN_REKEY_OLD,
        "        if self.escaped_bind_names:\n"
        "            rekeyed = {}\n"
        "            for name, pos in param_pos.items():\n"
        "                rekeyed[self.escaped_bind_names.get(name, name)] = pos\n"
        "            assert len(rekeyed) == len(param_pos)\n"
        "            param_pos = rekeyed\n"),
    sub("        self.string = self._pyformat_pattern.sub(\n            lambda m: param_pos[m.group(1)], self.string\n        )\n",
        "        def numbered(m):\n            return param_pos[m.group(1)]\n\n"
        "        self.string = self._pyformat_pattern.sub(numbered, self.string)\n")), None)
# breaking neighbours
R.mutant("r3-numeric-text-lookup-table-not-rekeyed", COMP,
         sub("                self.escaped_bind_names.get(name, name): pos\n", "                name: pos\n"), "C04-R3")
R.mutant("r3-numeric-literal-execute-params-numbered", COMP,
         sub("                bind in self.post_compile_params\n                or bind in self.literal_execute_params\n",
             "                bind in self.post_compile_params\n"), "C04-R3")
R.mutant("r3-numeric-numbering-guard-inverted-after-continue", COMP, sub(
    _PN_LOOP_OLD,
    "            if not (\n"
    "                bind in self.post_compile_params\n"
    "                or bind in self.literal_execute_params\n"
    "            ):\n"
    "                param_pos[bind_name] = None  # type: ignore[assignment]\n"
    "                continue\n"
    "            ph = f\"{self._numeric_binds_identifier_char}{num}\"\n"
    "            num += 1\n"
    "            param_pos[bind_name] = ph\n"), "C04-R3")
R.mutant("r3-positional-positiontup-in-bind-names-order", COMP,
         sub("        else:\n            self.positiontup = positions\n", "        else:\n            self.positiontup = list(self.bind_names.values())\n"), "C04-R3")
R.mutant("r3-positional-conditional-lookup-forward-map", COMP, sub(
    "                reverse_escape.get(name, name) for name in positions\n",
    "                self.escaped_bind_names[name]\n                if name in self.escaped_bind_names\n                else name\n"
    "                for name in positions\n"), "C04-R3")
R.mutant("r3-positional-loop-appends-untranslated-name", COMP, sub(
    _PP_TUP_OLD,
    "        if self.escaped_bind_names:\n"
    "            reverse_escape = {v: k for k, v in self.escaped_bind_names.items()}\n"
    "            names = []\n"
    "            for found in positions:\n"
    "                original = reverse_escape.get(found, found)\n"
    "                names.append(found)\n"
    "            self.positiontup = names\n"
    "        else:\n"
    "            self.positiontup = positions\n"), "C04-R3")

# ---- R1: the scalar tables spelled differently
R.mutant("benign-r1-placeholder-ternary-and-alias", COMP, sub(
    "        if self.dialect.paramstyle == \"format\":\n            placeholder = \"%s\"\n        else:\n"
    "            assert self.dialect.paramstyle == \"qmark\"\n            placeholder = \"?\"\n",
    "        style = self.dialect.paramstyle\n        assert style in (\"format\", \"qmark\")\n"
    "        placeholder = \"?\" if style == \"qmark\" else \"%s\"\n"), None)
R.mutant("benign-r1-placeholder-lookup-table-early-return-callback", COMP, chain(
    sub("        if self.dialect.paramstyle == \"format\":\n            placeholder = \"%s\"\n        else:\n"
        "            assert self.dialect.paramstyle == \"qmark\"\n            placeholder = \"?\"\n",
        "        placeholder = {\"format\": \"%s\", \"qmark\": \"?\"}[self.dialect.paramstyle]\n"),
    sub(_PP_CB_OLD, _PP_CB_EARLY)), None)
R.mutant("benign-r1-numeric-setup-through-locals", COMP, sub(
    "            self._numeric_binds = nb = dialect.paramstyle.startswith(\"numeric\")\n"
    "            if nb:\n"
    "                self._numeric_binds_identifier_char = (\n"
    "                    \"$\" if dialect.paramstyle == \"numeric_dollar\" else \":\"\n"
    "                )\n",
    "            style = dialect.paramstyle\n"
    "            numeric = style in (\"numeric\", \"numeric_dollar\")\n"
    "            self._numeric_binds = numeric\n"
    "            if not numeric:\n"
    "                pass\n"
    "            elif style == \"numeric_dollar\":\n"
    "                self._numeric_binds_identifier_char = \"$\"\n"
    "            else:\n"
    "                self._numeric_binds_identifier_char = \":\"\n"), None)
R.mutant("benign-r1-positional-styles-in-a-local-tuple", DEFAULT, sub(
    "        self.positional = self.paramstyle in (\n            \"qmark\",\n            \"format\",\n            \"numeric\",\n            \"numeric_dollar\",\n        )\n",
    "        named_styles = (\"named\", \"pyformat\")\n        style = self.paramstyle\n        self.positional = style not in named_styles\n"), None)
R.mutant("benign-r1-double-percents-as-disjunction", COMP, sub(
    "        self._double_percents = self.dialect.paramstyle in (\n            \"format\",\n            \"pyformat\",\n        )",
    "        paramstyle = self.dialect.paramstyle\n        self._double_percents = (\n            paramstyle == \"pyformat\" or paramstyle == \"format\"\n        )"), None)
R.mutant("r1-positional-placeholders-swapped", COMP, sub(
    "        if self.dialect.paramstyle == \"format\":\n            placeholder = \"%s\"\n        else:\n",
    "        if self.dialect.paramstyle != \"format\":\n            placeholder = \"%s\"\n        else:\n"), "C04-R1")
R.mutant("r1-callback-returns-placeholder-for-postcompile-only", COMP, sub(
    "            if normal_bind:\n                positions.append(normal_bind)\n                return placeholder\n",
    "            if normal_bind:\n                positions.append(normal_bind)\n                return m.group(0)\n"), "C04-R1")
R.mutant("r1-numeric-local-tuple-forgets-dollar", COMP, sub(
    "            self._numeric_binds = nb = dialect.paramstyle.startswith(\"numeric\")\n",
    "            self._numeric_binds = nb = dialect.paramstyle in (\"numeric\",)\n"), "C04-R1")

# ---- R4: translation idiom spelled as a conditional / an if statement
R.mutant("benign-r4-postcompile-conditional-lookup", COMP, sub(
    "            escaped_name = ebn.get(name, name) if ebn else name\n",
    "            escaped_name = ebn[name] if name in ebn else name\n"), None)
R.mutant("benign-r4-postcompile-if-statement-lookup", COMP, sub(
    "            escaped_name = ebn.get(name, name) if ebn else name\n",
    "            if name in ebn:\n                escaped_name = ebn[name]\n            else:\n                escaped_name = name\n"), None)
R.mutant("r4-postcompile-conditional-lookup-keeps-original", COMP, sub(
    "            escaped_name = ebn.get(name, name) if ebn else name\n",
    "            escaped_name = name if name in ebn else ebn.get(name, name)\n"), "C04-R4")

# ---- R2: locals in _init_bind_translate / alias of the translate regex
R.mutant("benign-r2-init-bind-translate-through-a-local", COMP, sub(
    "        reg = re.escape(\"\".join(cls.bindname_escape_characters))\n        cls._bind_translate_re = re.compile(f\"[{reg}]\")\n"
    "        cls._bind_translate_chars = cls.bindname_escape_characters\n",
    "        chars = cls.bindname_escape_characters\n        pattern = \"[%s]\" % re.escape(\"\".join(chars))\n"
    "        cls._bind_translate_chars = chars\n        cls._bind_translate_re = re.compile(pattern)\n"), None)
R.mutant("benign-r2-translate-regex-alias", COMP, sub(
    "            if self._bind_translate_re.search(name):\n"
    "                # not quite the translate use case as we want to\n"
    "                # also get a quick boolean if we even found\n"
    "                # unusual characters in the name\n"
    "                new_name = self._bind_translate_re.sub(\n",
    "            translate_re = self._bind_translate_re\n"
    "            if translate_re.search(name):\n"
    "                new_name = translate_re.sub(\n"), None)
R.mutant("r2-translate-table-from-the-base-class", COMP, sub(
    "        cls._bind_translate_chars = cls.bindname_escape_characters\n",
    "        cls._bind_translate_chars = SQLCompiler.bindname_escape_characters\n"), "C04-R2")
R.mutant("benign-r2-translation-in-a-helper-method", COMP, chain(
    sub("            if self._bind_translate_re.search(name):\n"
        "                # not quite the translate use case as we want to\n"
        "                # also get a quick boolean if we even found\n"
        "                # unusual characters in the name\n"
        "                new_name = self._bind_translate_re.sub(\n"
        "                    lambda m: self._bind_translate_chars[m.group(0)],\n"
        "                    name,\n"
        "                )\n",
        "            if self._bind_translate_re.search(name):\n"
        "                new_name = self._escape_bind_name(name)\n"),
    sub("    def _dispatch_independent_ctes(self, stmt, kw):\n",
        "    def _escape_bind_name(self, name):\n"
        "        return self._bind_translate_re.sub(\n"
        "            lambda m: self._bind_translate_chars[m.group(0)], name\n"
        "        )\n\n"
        "    def _dispatch_independent_ctes(self, stmt, kw):\n")), None)
R.mutant("r3-positional-escaped-branch-forgets-positiontup", COMP, sub(
    "            self.positiontup = [\n                reverse_escape.get(name, name) for name in positions\n            ]\n",
    "            positions = [\n                reverse_escape.get(name, name) for name in positions\n            ]\n"), "C04-R3")

# ---- round-2 seeds (str2-c): both were caught by the round-1 / rob-C3 rules unchanged.  Essence of each seed +
# behaviour-preserving neighbours of the same edit.
# seed C04_3 == "r3-numeric-literal-execute-params-numbered" above (the guard of the numbering narrowed to
# post_compile_params).  Neighbours: the two exclusions merged into one set / answered by a helper method /
# written as the De Morgan dual with the arms swapped.
R.mutant("benign-r3-numeric-exclusions-through-a-union-local", COMP, sub(
    _PN_LOOP_OLD,
    "            rendered_inline = self.post_compile_params | self.literal_execute_params\n"
    "            if bind in rendered_inline:\n"
    "                param_pos[bind_name] = None  # type: ignore[assignment]\n"
    "            else:\n"
    "                ph = f\"{self._numeric_binds_identifier_char}{num}\"\n"
    "                num += 1\n"
    "                param_pos[bind_name] = ph\n"), None)
R.mutant("benign-r3-numeric-exclusions-de-morgan-arms-swapped", COMP, sub(
    _PN_LOOP_OLD,
    "            if (\n"
    "                bind not in self.literal_execute_params\n"
    "                and bind not in self.post_compile_params\n"
    "            ):\n"
    "                ph = f\"{self._numeric_binds_identifier_char}{num}\"\n"
    "                num += 1\n"
    "                param_pos[bind_name] = ph\n"
    "            else:\n"
    "                param_pos[bind_name] = None  # type: ignore[assignment]\n"), None)
R.mutant("benign-r3-numeric-exclusions-in-a-helper-method", COMP, chain(
    sub(_PN_LOOP_OLD,
        "            if self._rendered_inline(bind):\n"
        "                param_pos[bind_name] = None  # type: ignore[assignment]\n"
        "            else:\n"
        "                ph = f\"{self._numeric_binds_identifier_char}{num}\"\n"
        "                num += 1\n"
        "                param_pos[bind_name] = ph\n"),
    sub("    def _process_numeric(self):\n",
        "    def _rendered_inline(self, bind):\n"
        "        return (\n"
        "            bind in self.post_compile_params\n"
        "            or bind in self.literal_execute_params\n"
        "        )\n\n"
        "    def _process_numeric(self):\n")), None)
R.mutant("r3-numeric-union-local-forgets-literal-execute", COMP, sub(
    _PN_LOOP_OLD,
    "            rendered_inline = self.post_compile_params | frozenset()\n"
    "            if bind in rendered_inline:\n"
    "                param_pos[bind_name] = None  # type: ignore[assignment]\n"
    "            else:\n"
    "                ph = f\"{self._numeric_binds_identifier_char}{num}\"\n"
    "                num += 1\n"
    "                param_pos[bind_name] = ph\n"), "C04-R3")
# seed C04_4: _init_compiled re-keys the row to escaped names first and then looks the processors up by that key
_IC_OLD = (
    "                if escaped_names:\n"
    "                    d_param = {\n"
    "                        escaped_names.get(key, key): (\n"
    "                            flattened_processors[key](compiled_params[key])\n"
    "                            if key in flattened_processors\n"
    "                            else compiled_params[key]\n"
    "                        )\n"
    "                        for key in compiled_params\n"
    "                    }\n"
    "                else:\n"
    "                    d_param = {\n"
    "                        key: (\n"
    "                            flattened_processors[key](compiled_params[key])\n"
    "                            if key in flattened_processors\n"
    "                            else compiled_params[key]\n"
    "                        )\n"
    "                        for key in compiled_params\n"
    "                    }\n"
)
R.mutant("r4-init-compiled-processors-looked-up-after-rekey", DEFAULT, sub(
    _IC_OLD,
    "                if escaped_names:\n"
    "                    compiled_params = {\n"
    "                        escaped_names.get(key, key): compiled_params[key]\n"
    "                        for key in compiled_params\n"
    "                    }\n\n"
    "                d_param = {\n"
    "                    key: (\n"
    "                        flattened_processors[key](compiled_params[key])\n"
    "                        if key in flattened_processors\n"
    "                        else compiled_params[key]\n"
    "                    )\n"
    "                    for key in compiled_params\n"
    "                }\n"), "C04-R4")
R.mutant("benign-r4-init-compiled-merged-comprehension-raw-lookup", DEFAULT, sub(
    _IC_OLD,
    "                d_param = {\n"
    "                    (escaped_names.get(key, key) if escaped_names else key): (\n"
    "                        flattened_processors[key](compiled_params[key])\n"
    "                        if key in flattened_processors\n"
    "                        else compiled_params[key]\n"
    "                    )\n"
    "                    for key in compiled_params\n"
    "                }\n"), None)
R.mutant("benign-r4-init-compiled-process-then-rekey", DEFAULT, sub(
    _IC_OLD,
    "                processed = {\n"
    "                    key: (\n"
    "                        flattened_processors[key](compiled_params[key])\n"
    "                        if key in flattened_processors\n"
    "                        else compiled_params[key]\n"
    "                    )\n"
    "                    for key in compiled_params\n"
    "                }\n"
    "                if escaped_names:\n"
    "                    d_param = {\n"
    "                        escaped_names.get(key, key): value\n"
    "                        for key, value in processed.items()\n"
    "                    }\n"
    "                else:\n"
    "                    d_param = processed\n"), None)
R.mutant("r4-init-compiled-process-then-rekey-twice", DEFAULT, sub(
    _IC_OLD,
    "                processed = {\n"
    "                    escaped_names.get(key, key): compiled_params[key]\n"
    "                    for key in compiled_params\n"
    "                }\n"
    "                d_param = {\n"
    "                    key: (\n"
    "                        flattened_processors[key](value)\n"
    "                        if key in flattened_processors\n"
    "                        else value\n"
    "                    )\n"
    "                    for key, value in processed.items()\n"
    "                }\n"), "C04-R4")
