"""C04 -- Bound parameters reach the right placeholders (thin: paramstyle tables, escape table, positiontup)."""

from __future__ import annotations

import ast
import re

from ..astutil import (
    call_name, calls_in, dotted, guard_atoms, lexical_guards, name_stores, unparse, walk_local,
)
from ..evalx import has_unknown
from ..index import ClassInfo
from ..oracles import load as load_oracle
from ..report import Registry, sub
from ._helpers_rules_a import Mini, Unsupported, self_attr

R = Registry(
    "C04",
    title="Bound parameters are delivered to the right placeholders in every paramstyle",
    decides=(
        "the paramstyle vocabulary agrees across BIND_TEMPLATES, DefaultDialect.positional, the numeric-bind "
        "test and marker character, the two _process_positional placeholders, IdentifierPreparer's percent "
        "doubling and every paramstyle literal in the dialects (against the DBAPI paramstyle oracle); the "
        "bind-name escape table covers the template metacharacters, maps into word characters, is the single "
        "source of the translate regex, and escaped names are guarded against colliding with another name; "
        "_process_positional/_process_numeric leave ORIGINAL (unescaped) names in positiontup and look the "
        "statement text up by ESCAPED names."
    ),
    not_decided="the order of positiontup for arbitrary statements, expanding / literal_execute interaction, "
                "driver behaviour.",
)

COMP = "sql/compiler.py"
DEFAULT = "engine/default.py"


def _oracle():
    return load_oracle("paramstyles.json")["styles"]


def _render_template(t: str) -> str:
    """What the compiler's template yields for a bind called `name` at position 1."""
    out = t % {"name": "name"} if "%" in t else t
    return out.replace("[_POSITION]", "1")


@R.rule("C04-R1", floor=43, template="T-TABLE/T-SIBLING",
        desc="paramstyle vocabulary: BIND_TEMPLATES keys/values, DefaultDialect positional tuple, numeric test and "
             "marker, _process_positional placeholders, percent doubling set and all dialect paramstyle literals "
             "agree with the DBAPI paramstyle oracle")
def r1(ctx):
    ix = ctx.index
    styles = _oracle()
    m = ix.module(COMP)
    bt = ctx.ev.module_value(m, "BIND_TEMPLATES")
    ctx.require(isinstance(bt, dict) and not has_unknown(bt), "BIND_TEMPLATES is not a literal dict")
    for s in sorted(set(styles) | set(bt)):
        key = f"{COMP}::BIND_TEMPLATES:{s}"
        if s not in bt:
            ctx.violation(key, f"paramstyle `{s}` has no bind template (KeyError when a dialect uses it)", None)
        elif s not in styles:
            ctx.violation(key, f"template for unknown paramstyle `{s}` (not a DBAPI style)", None)
        else:
            got = _render_template(bt[s])
            ctx.check(got == styles[s]["placeholder"], key,
                      f"template {bt[s]!r} renders {got!r}; a `{s}` driver expects {styles[s]['placeholder']!r}", got, None)
    # positional tuple
    init = ctx.func(f"{DEFAULT}::DefaultDialect.__init__")
    pos = None
    for n in walk_local(init.node):
        if isinstance(n, ast.Assign) and any(self_attr(t) == "positional" for t in n.targets) \
                and isinstance(n.value, ast.Compare) and isinstance(n.value.ops[0], ast.In) \
                and dotted(n.value.left) == "self.paramstyle":
            pos = ctx.ev.eval(n.value.comparators[0], init.module)
    ctx.require(isinstance(pos, (tuple, list, set, frozenset)) and not has_unknown(pos),
                "DefaultDialect.__init__: `self.positional = self.paramstyle in (...)` not found")
    for s in sorted(styles):
        ctx.check((s in pos) == styles[s]["positional"], f"{init.key}:positional:{s}",
                  f"paramstyle `{s}` is {'not ' if s not in pos else ''}treated as positional, the DBAPI says "
                  f"positional={styles[s]['positional']}", f"positional={s in pos}", init.loc)
    # numeric test + marker in SQLCompiler.__init__
    cinit = ctx.func(f"{COMP}::SQLCompiler.__init__")
    nb_expr = None
    ch_expr = None
    for n in walk_local(cinit.node):
        if isinstance(n, ast.Assign):
            names = {self_attr(t) for t in n.targets}
            if "_numeric_binds" in names:
                nb_expr = n.value
            if "_numeric_binds_identifier_char" in names:
                ch_expr = n.value
    ctx.require(nb_expr is not None and ch_expr is not None, "SQLCompiler.__init__: numeric bind set-up not found")

    def attr_hook_for(style):
        def hook(node, env, mini):
            if dotted(node) in ("dialect.paramstyle", "self.dialect.paramstyle"):
                return style
            return NotImplemented
        return hook

    for s in sorted(styles):
        mini = Mini(attr_hook=attr_hook_for(s), what="SQLCompiler.__init__ numeric test")
        nb = bool(mini.ev(nb_expr, {}))
        ok = nb == styles[s]["numeric"]
        detail = f"numeric={nb}"
        if ok and nb:
            ch = mini.ev(ch_expr, {})
            want = styles[s]["placeholder"][0]
            ok = ch == want and s in bt and bt[s].startswith(want)
            detail += f", marker {ch!r}"
            if not ok:
                detail = f"numeric marker for `{s}` is {ch!r}, the driver expects {want!r} (template {bt.get(s)!r})"
        elif not ok:
            detail = f"`{s}` is {'not ' if not nb else ''}treated as numeric, oracle says numeric={styles[s]['numeric']}"
        ctx.check(ok, f"{cinit.key}:numeric:{s}", detail, detail, cinit.loc)
    # _process_positional branches
    pp = ctx.func(f"{COMP}::SQLCompiler._process_positional")
    handled = {}
    pm = pp.module.parents()
    for n in walk_local(pp.node):
        if isinstance(n, ast.Assign) and isinstance(n.targets[0], ast.Name) and isinstance(n.value, ast.Constant) \
                and isinstance(n.value.value, str):
            atoms = guard_atoms(lexical_guards(pm, n, stop=pp.node))
            if not any("paramstyle" in a for a, _ in atoms):
                continue
            style = None
            for a, pol in atoms:
                mm = re.match(r"^self\.dialect\.paramstyle == '(\w+)'$", a)
                if mm and pol:
                    style = mm.group(1)
            if style is None:
                # else-arm: the style named by the sibling assert
                blk = pm.get(n)
                for st in getattr(blk, "orelse", []):
                    if isinstance(st, ast.Assert):
                        mm = re.match(r"^self\.dialect\.paramstyle == '(\w+)'$", unparse(st.test))
                        if mm:
                            style = mm.group(1)
            ctx.require(style is not None, f"_process_positional: cannot tell which paramstyle gets placeholder {n.value.value!r}")
            handled[style] = n.value.value
    want_handled = {s for s in styles if styles[s]["positional"] and not styles[s]["numeric"]}
    for s in sorted(want_handled | set(handled)):
        ok = s in handled and s in want_handled and handled[s] == styles[s]["placeholder"]
        ctx.check(ok, f"{pp.key}:placeholder:{s}",
                  f"_process_positional renders {handled.get(s)!r} for `{s}` (expected {styles.get(s, {}).get('placeholder')!r}; "
                  f"non-numeric positional styles are {sorted(want_handled)})", f"{handled.get(s)!r}", pp.loc)
    # percent doubling
    pinit = ctx.func(f"{COMP}::IdentifierPreparer.__init__")
    dp = None
    for n in walk_local(pinit.node):
        if isinstance(n, ast.Assign) and any(self_attr(t) == "_double_percents" for t in n.targets) \
                and isinstance(n.value, ast.Compare) and isinstance(n.value.ops[0], ast.In):
            dp = ctx.ev.eval(n.value.comparators[0], pinit.module)
    ctx.require(isinstance(dp, (tuple, list, set, frozenset)), "IdentifierPreparer.__init__: _double_percents set not found")
    for s in sorted(styles):
        ctx.check((s in dp) == styles[s]["percent_is_special"], f"{pinit.key}:double_percents:{s}",
                  f"`{s}`: percent doubling is {'on' if s in dp else 'off'} but the driver "
                  f"{'does' if styles[s]['percent_is_special'] else 'does not'} %-format the statement",
                  f"double_percents={s in dp}", pinit.loc)
    # literals in dialects
    dd = ix.cls(f"{DEFAULT}::DefaultDialect")
    for cls in [dd] + sorted(ix.subclasses(dd), key=lambda c: c.key):
        for node in cls.assigns.get("default_paramstyle", []):
            v = node.value if isinstance(node, ast.Constant) else None
            ctx.require(isinstance(v, str), f"{cls.key}.default_paramstyle is not a string literal")
            ctx.check(v in styles and v in bt, f"{cls.key}.default_paramstyle",
                      f"default_paramstyle {v!r} is not a known paramstyle", v, cls.loc, nontrivial=False)
        for name, f in cls.methods.items():
            for n in walk_local(f.node):
                lits = []
                if isinstance(n, ast.Assign) and any(self_attr(t) == "paramstyle" for t in n.targets) \
                        and isinstance(n.value, ast.Constant):
                    lits.append(n.value.value)
                if isinstance(n, ast.Call):
                    for k in n.keywords:
                        if k.arg == "paramstyle" and isinstance(k.value, ast.Constant) and isinstance(k.value.value, str):
                            lits.append(k.value.value)
                for v in lits:
                    ctx.check(v in styles and v in bt, f"{f.key}:paramstyle-literal",
                              f"paramstyle literal {v!r} is not a known paramstyle", v, f.loc, nontrivial=False)


# ------------------------------------------------------------------------------------------ R2
REQUIRED_ESCAPES = {
    "%": "pyformat template %(name)s", "(": "pyformat template %(name)s", ")": "pyformat template %(name)s",
    ":": "named template :name",
    "[": "post-compile marker __[POSTCOMPILE_name]", "]": "post-compile marker __[POSTCOMPILE_name]",
    " ": "post-compile marker matches \\S+; named styles end a name at white space",
    ".": "named styles end a name at '.'",
}


@R.rule("C04-R2", floor=23, template="T-TABLE/T-GUARD",
        desc="bindname_escape_characters (base and overrides): keys cover the template metacharacters, values are "
             "word characters; the translate regex and table come from the same attribute; a translated name is "
             "checked against the names already in use (the map is not injective on names)")
def r2(ctx):
    ix = ctx.index
    base = ix.cls(f"{COMP}::SQLCompiler")
    m = ix.module(COMP)
    bt = ctx.ev.module_value(m, "BIND_TEMPLATES")
    # metacharacters derived from the name-bearing templates (cross-check of the reasons above)
    derived = set()
    for s, t in bt.items():
        if "%(name)s" in t:
            derived |= {ch for ch in (t % {"name": ""}) if not ch.isalnum() and ch != "_"}
    ctx.require(derived <= set(REQUIRED_ESCAPES), f"a bind template uses metacharacter(s) {sorted(derived - set(REQUIRED_ESCAPES))} "
                                                   f"that the rule does not know about")
    for cls in [base] + sorted(ix.subclasses(base), key=lambda c: c.key):
        if "bindname_escape_characters" not in cls.assigns:
            continue
        tbl = ctx.ev.class_value(cls, "bindname_escape_characters", inherited=False)
        ctx.require(isinstance(tbl, dict) and not has_unknown(tbl), f"{cls.key}.bindname_escape_characters is not a literal mapping")
        for ch, why in REQUIRED_ESCAPES.items():
            ctx.check(ch in tbl, f"{cls.key}.bindname_escape_characters:key:{ch!r}",
                      f"{ch!r} is not escaped in bind names ({why}): a bind named `a{ch}b` breaks the statement text",
                      why, cls.loc)
        bad = {k: v for k, v in tbl.items() if not (isinstance(v, str) and re.fullmatch(r"\w+", v))}
        ctx.check(not bad, f"{cls.key}.bindname_escape_characters:values",
                  f"replacement(s) {bad} are not word characters: the escaped name is itself unusable", "all \\w+", cls.loc)
        multi = [k for k in tbl if len(k) != 1]
        ctx.check(not multi, f"{cls.key}.bindname_escape_characters:single-chars",
                  f"key(s) {multi} are not single characters but the translate regex is a character class", "", cls.loc,
                  nontrivial=False)
    ib = ctx.func(f"{COMP}::SQLCompiler._init_bind_translate")
    srcs = [dotted(n) for n in ast.walk(ib.node) if isinstance(n, ast.Attribute) and n.attr == "bindname_escape_characters"]
    stores = {t.attr for n in walk_local(ib.node) if isinstance(n, ast.Assign) for t in n.targets if isinstance(t, ast.Attribute)}
    ctx.check(len(srcs) >= 2 and len(set(srcs)) == 1 and {"_bind_translate_re", "_bind_translate_chars"} <= stores, ib.key,
              "the translate regex and the translate table are not both built from cls.bindname_escape_characters",
              "regex and table from one attribute", ib.loc)
    # collision guard
    for cls in [base] + sorted(ix.subclasses(base), key=lambda c: c.key):
        f = cls.methods.get("bindparam_string")
        if f is None:
            continue
        ctx.functions_analysed.add(f.key)
        subs = [c for c in calls_in(f.node) if (call_name(c) or "").endswith("_bind_translate_re.sub")]
        if not subs:
            continue
        translated = {n for n, v, st in name_stores(f.node) if v is not None and any(c in list(ast.walk(v)) for c in subs)}
        guard = False
        for n in walk_local(f.node):
            if isinstance(n, ast.Compare) and isinstance(n.ops[0], (ast.In, ast.NotIn)) and isinstance(n.left, ast.Name) \
                    and n.left.id in translated | {"name"} and (dotted(n.comparators[0]) or "").startswith("self."):
                tgt = dotted(n.comparators[0])
                if any(x in tgt for x in ("binds", "bind_names", "escaped_bind_names")):
                    guard = True
        ctx.check(guard, f"{f.key}:escape-collision",
                  "a bind name is translated through the (non-injective, word-character valued) escape table without "
                  "checking that the result is not already the name of another parameter: `a.b` and `a_b` (or `a%b` and "
                  "`aPb`) share one placeholder and one value", "translated name checked against names in use", f.loc)


# ------------------------------------------------------------------------------------------ R3
@R.rule("C04-R3", floor=6, template="T-PATH/T-SIBLING",
        desc="_process_positional and _process_numeric: positiontup holds original names (inverse of escaped_bind_names "
             "applied to names read from the text / names taken from bind_names), the text is addressed by escaped names")
def r3(ctx):
    pp = ctx.func(f"{COMP}::SQLCompiler._process_positional")
    pm = pp.module.parents()
    inv = [n for n in walk_local(pp.node) if isinstance(n, ast.Assign) and isinstance(n.value, ast.DictComp)
           and dotted(n.value.generators[0].iter.func if isinstance(n.value.generators[0].iter, ast.Call) else n.value.generators[0].iter)
           == "self.escaped_bind_names.items"]
    ok_inv = False
    inv_name = None
    if len(inv) == 1:
        dc = inv[0].value
        tgt = dc.generators[0].target
        if isinstance(tgt, ast.Tuple) and len(tgt.elts) == 2:
            k, v = (e.id for e in tgt.elts)
            ok_inv = unparse(dc.key) == v and unparse(dc.value) == k
            inv_name = inv[0].targets[0].id
    ctx.check(ok_inv, pp.key + ":inverse-map", "no `{escaped: original for original, escaped in escaped_bind_names.items()}` inverse map",
              "reverse map built", pp.loc)
    stores = [n for n in walk_local(pp.node) if isinstance(n, ast.Assign) and any(self_attr(t) == "positiontup" for t in n.targets)]
    with_esc = [n for n in stores if ("self.escaped_bind_names", True) in guard_atoms(lexical_guards(pm, n, stop=pp.node))]
    without = [n for n in stores if ("self.escaped_bind_names", False) in guard_atoms(lexical_guards(pm, n, stop=pp.node))]
    ok = len(with_esc) == 1 and len(without) == 1
    if ok:
        lc = with_esc[0].value
        ok = isinstance(lc, ast.ListComp) and isinstance(lc.elt, ast.Call) and dotted(lc.elt.func) == f"{inv_name}.get" \
            and len(lc.elt.args) == 2 and unparse(lc.elt.args[0]) == unparse(lc.elt.args[1]) == unparse(lc.generators[0].target) \
            and unparse(lc.generators[0].iter) == unparse(without[0].value)
    ctx.check(ok, pp.key + ":positiontup",
              "positiontup is not the list of names found in the text mapped back through the inverse escape map "
              "(escaped names would be looked up in the parameter dictionary)", "names mapped back to originals", pp.loc)
    # names come from the statement text in order of appearance
    posvar = unparse(without[0].value) if without else "positions"
    finder = [n for n in ast.walk(pp.node) if isinstance(n, ast.FunctionDef) and n is not pp.node]
    appends = [c for fn in finder for c in calls_in(fn) if dotted(c.func) == f"{posvar}.append"]
    subcall = [c for c in calls_in(pp.node) if call_name(c) == "re.sub" and len(c.args) == 3 and dotted(c.args[2]) == "self.string"]
    ctx.check(bool(appends) and bool(subcall) and finder and dotted(subcall[0].args[1]) == finder[0].name, pp.key + ":text-order",
              "positions are not collected by the substitution callback over self.string (order of appearance)",
              "collected in text order", pp.loc)
    pn = ctx.func(f"{COMP}::SQLCompiler._process_numeric")
    g = ctx.cfg(pn)
    stores = [n for n in walk_local(pn.node) if isinstance(n, ast.Assign) and any(self_attr(t) == "positiontup" for t in n.targets)]
    ctx.require(len(stores) == 1, "_process_numeric: expected one store to positiontup")
    st = stores[0]
    src = st.value.args[0].id if isinstance(st.value, ast.Call) and call_name(st.value) == "list" and st.value.args \
        and isinstance(st.value.args[0], ast.Name) else None
    rekey = [n for n in walk_local(pn.node) if isinstance(n, ast.Assign) and isinstance(n.targets[0], ast.Name)
             and n.targets[0].id == src and isinstance(n.value, ast.DictComp)]
    ok = src is not None and len(rekey) == 1
    if ok:
        dc = rekey[0].value
        ok = isinstance(dc.key, ast.Call) and dotted(dc.key.func) == "self.escaped_bind_names.get" \
            and len(dc.key.args) == 2 and unparse(dc.key.args[0]) == unparse(dc.key.args[1])
        # the store of positiontup must come before the re-keying on every path
        from ..cfg import no_exc
        w = g.must_pass([g.entry], g.nodes_for(rekey[0]), g.nodes_for(st), edge_ok=no_exc)
        ok = ok and w is None
    ctx.check(ok, pn.key + ":positiontup",
              "positiontup is not taken from the original-name keyed table before that table is re-keyed by escaped names",
              "original names, taken before re-keying", pn.loc)
    subs = [c for c in calls_in(pn.node) if dotted(c.func) == "self._pyformat_pattern.sub"]
    ok = False
    for c in subs:
        if c.args and isinstance(c.args[0], ast.Lambda) and isinstance(c.args[0].body, ast.Subscript) \
                and isinstance(c.args[0].body.value, ast.Name) and c.args[0].body.value.id == src:
            nodes = g.nodes_containing(c)
            from ..cfg import no_exc
            ok = bool(rekey) and bool(nodes) and g.must_pass([g.entry], nodes, g.nodes_for(rekey[0]) + [
                i for i in g.find(lambda nd: nd.kind == "test" and "escaped_bind_names" in unparse(nd.stmt.test))], edge_ok=no_exc) is None
    ctx.check(ok, pn.key + ":text-lookup",
              "the statement text (escaped names) is not substituted from the escaped-name keyed table",
              "text addressed by escaped names", pn.loc)
    # numbering skips post-compile / literal-execute parameters
    ph = [n for n in walk_local(pn.node) if isinstance(n, ast.Assign) and isinstance(n.value, ast.JoinedStr)
          and "_numeric_binds_identifier_char" in unparse(n.value)]
    ok = False
    if ph:
        atoms = guard_atoms(lexical_guards(pn.module.parents(), ph[0], stop=pn.node))
        ok = any("post_compile_params" in a and not pol for a, pol in atoms) and any("literal_execute_params" in a and not pol for a, pol in atoms)
    ctx.check(ok, pn.key + ":numbering", "numeric placeholders are also numbered for post-compile / literal-execute parameters",
              "only real binds are numbered", pn.loc)


# ------------------------------------------------------------------------------------------ self test
R.mutant("r1-positional-forgets-numeric-dollar", DEFAULT,
         sub('            "numeric",\n            "numeric_dollar",\n        )\n        self.identifier_preparer', '            "numeric",\n        )\n        self.identifier_preparer'), "C04-R1")
R.mutant("r1-template-typo", COMP, sub('    "numeric_dollar": "$[_POSITION]",\n', '    "numeric_dollar": ":[_POSITION]",\n'), "C04-R1")
R.mutant("r1-marker-swapped", COMP,
         sub('                    "$" if dialect.paramstyle == "numeric_dollar" else ":"\n', '                    ":" if dialect.paramstyle == "numeric_dollar" else "$"\n'), "C04-R1")
R.mutant("r1-dialect-unknown-style", "dialects/postgresql/pg8000.py", sub('    default_paramstyle = "format"\n', '    default_paramstyle = "fmt"\n'), "C04-R1")
R.mutant("r1-double-percents-forgets-format", COMP,
         sub('        self._double_percents = self.dialect.paramstyle in (\n            "format",\n            "pyformat",\n        )',
             '        self._double_percents = self.dialect.paramstyle in (\n            "pyformat",\n        )'), "C04-R1")
R.mutant("r2-colon-not-escaped", COMP, sub('                ":": "C",\n                ".": "_",\n', '                ".": "_",\n'), "C04-R2")
R.mutant("r2-replacement-not-word", COMP, sub('                "%": "P",\n                "(": "A",\n                ")": "Z",\n                ":": "C",\n                ".": "_",\n',
                                              '                "%": "P",\n                "(": "A",\n                ")": "Z",\n                ":": "C",\n                ".": "-",\n'), "C04-R2")
R.mutant("r2-oracle-bracket-not-escaped", "dialects/oracle/cx_oracle.py", sub('            "[": "C",\n', ""), "C04-R2")
R.mutant("r3-positional-forward-map", COMP,
         sub("            reverse_escape = {v: k for k, v in self.escaped_bind_names.items()}\n", "            reverse_escape = {k: v for k, v in self.escaped_bind_names.items()}\n"), "C04-R3")
R.mutant("r3-positional-no-mapping", COMP,
         sub("            self.positiontup = [\n                reverse_escape.get(name, name) for name in positions\n            ]\n", "            self.positiontup = positions\n"), "C04-R3")
R.mutant("r3-numeric-positiontup-after-rekey", COMP,
         sub("        self.positiontup = list(param_pos)\n        if self.escaped_bind_names:\n            len_before = len(param_pos)\n            param_pos = {\n                self.escaped_bind_names.get(name, name): pos\n                for name, pos in param_pos.items()\n            }\n            assert len(param_pos) == len_before\n",
             "        if self.escaped_bind_names:\n            len_before = len(param_pos)\n            param_pos = {\n                self.escaped_bind_names.get(name, name): pos\n                for name, pos in param_pos.items()\n            }\n            assert len(param_pos) == len_before\n        self.positiontup = list(param_pos)\n"), "C04-R3")
# benign
R.mutant("benign-reorder-template-rows", COMP, sub('    "qmark": "?",\n    "format": "%%s",\n', '    "format": "%%s",\n    "qmark": "?",\n'), None)
R.mutant("benign-extra-escape-row", COMP, sub('                " ": "_",\n            }\n', '                " ": "_",\n                "/": "_",\n            }\n'), None)
R.mutant("benign-rename-inverse-map", COMP,
         sub("            reverse_escape = {v: k for k, v in self.escaped_bind_names.items()}\n            assert len(self.escaped_bind_names) == len(reverse_escape)\n            self.positiontup = [\n                reverse_escape.get(name, name) for name in positions\n            ]\n",
             "            unescape = {esc: orig for orig, esc in self.escaped_bind_names.items()}\n            assert len(self.escaped_bind_names) == len(unescape)\n            self.positiontup = [\n                unescape.get(nm, nm) for nm in positions\n            ]\n"), None)
