"""C49 -- Mutable column values propagate in-place changes (mutator cover, changed() pairing)."""

from __future__ import annotations

import ast

from ..astutil import (
    FuncNode, call_name, calls_in, const_str, dotted, guard_atoms, lexical_guards, nested_functions,
    subscript_stores, unparse, walk_local,
)
from ..cfg import no_exc
from ..oracles import load, python_mutators
from ..report import Registry, sub

R = Registry(
    "C49",
    title="Mutable column values propagate in-place changes",
    decides=(
        "MutableDict/MutableList/MutableSet override every mutator of dict/list/set (order-only ones "
        "included: a reordered list is a changed value); each override calls the builtin implementation "
        "(or an overridden sibling) and then self.changed() on every normal path and passes the builtin's "
        "result through; pickling hooks emit the plain builtin value (never _parents); Mutable.changed "
        "flags every parent; the load/refresh/set/pickle/unpickle listeners are registered raw+propagate "
        "and coerce / link the value to its parent."
    ),
    not_decided=(
        "equality of stored and in-memory value after flush; MutableComposite attribute mapping; mutation "
        "of nested values; spurious changed() when the builtin raises."
    ),
)

MUT = "ext/mutable.py"
CLASSES = {"dict": "MutableDict", "list": "MutableList", "set": "MutableSet"}


def _builtin_calls(fn, t):
    """calls `t.<m>(self, ...)` inside fn -> [(m, call)]"""
    out = []
    for c in calls_in(fn):
        f = c.func
        if isinstance(f, ast.Attribute) and isinstance(f.value, ast.Name) and f.value.id == t and c.args \
                and isinstance(c.args[0], ast.Name) and c.args[0].id == "self":
            out.append((f.attr, c))
        elif isinstance(f, ast.Attribute) and isinstance(f.value, ast.Call) and dotted(f.value.func) == "super":
            out.append((f.attr, c))
    return out


def _self_calls(fn):
    out = []
    for c in calls_in(fn):
        f = c.func
        if isinstance(f, ast.Attribute) and isinstance(f.value, ast.Name) and f.value.id == "self":
            out.append((f.attr, c))
    return out


def _all_mutators(t):
    members, order_only = python_mutators(t)
    return members + order_only


@R.rule("C49-R1", floor=33, template="T-EXHAUST",
        desc="MutableDict/MutableList/MutableSet define an override for every mutator of dict/list/set")
def r1(ctx):
    for t, cname in CLASSES.items():
        cls = ctx.index.cls(f"{MUT}::{cname}")
        ctx.require(t in [b.lower().split(".")[-1] for b in cls.base_exprs],
                    f"{cname} no longer derives from the builtin/typing {t} ({cls.base_exprs})")
        for m in _all_mutators(t):
            key = f"{MUT}::{cname}.{m}"
            f = cls.methods.get(m)
            if f is not None and not f.type_only:
                ctx.ok(key, "overridden", nontrivial=False)
            else:
                ctx.violation(key, f"builtin {t}.{m} mutates the value in place but {cname} does not override it: "
                                   f"the change is never reported through changed(), the parent is not flagged "
                                   f"modified and flush does not write it", cls.loc)


@R.rule("C49-R2", floor=33, template="T-PATH",
        desc="each override calls the builtin implementation (or an overridden sibling mutator) and every "
             "normal path after it passes self.changed(); value-returning mutators pass the builtin's "
             "result through; in-place operators return self")
def r2(ctx):
    rv = load("python_mutator_effects.json")["returns_value"]
    for t, cname in CLASSES.items():
        cls = ctx.index.cls(f"{MUT}::{cname}")
        muts = _all_mutators(t)
        for m in muts:
            key = f"{MUT}::{cname}.{m}"
            f = cls.methods.get(m)
            if f is None or f.type_only:
                ctx.ok(key, "no override to examine (reported by C49-R1)", nontrivial=False)
                continue
            g = ctx.cfg(f)
            problems = []
            bcalls = [(n, c) for n, c in _builtin_calls(f.node, t) if n in muts]
            scalls = [(n, c) for n, c in _self_calls(f.node) if n in muts and n != m]
            changed = g.find_calls("self.changed")
            if bcalls:
                bnodes = [i for _, c in bcalls for i in g.nodes_containing(c)]
                w = g.must_pass(bnodes, [g.exit], changed, edge_ok=no_exc)
                if w is not None:
                    problems.append("a normal path leaves after the builtin mutation without self.changed(): " + " -> ".join(w[-3:]))
                if m in rv[t]:
                    ok = False
                    for n, c in bcalls:
                        par = f.module.parents().get(c)
                        if isinstance(par, ast.Return):
                            ok = True
                        elif isinstance(par, (ast.Assign, ast.AnnAssign)):
                            tg = par.targets[0] if isinstance(par, ast.Assign) else par.target
                            if isinstance(tg, ast.Name):
                                rets = [r for r in walk_local(f.node) if isinstance(r, ast.Return)]
                                ok = bool(rets) and all(isinstance(r.value, ast.Name) and r.value.id == tg.id for r in rets)
                    if not ok:
                        problems.append(f"{t}.{m} returns the affected member but the override does not return the builtin's result")
                how = "builtin " + ",".join(sorted({n for n, _ in bcalls})) + " -> changed()"
            elif scalls:
                # delegation to an overridden sibling (which reports the change itself)
                for n, c in scalls:
                    sf = cls.methods.get(n)
                    if sf is None or sf.type_only:
                        problems.append(f"delegates to self.{n} which is not overridden in {cname}")
                how = "delegates to " + ",".join(sorted({n for n, _ in scalls}))
            else:
                problems.append("override neither calls the builtin implementation nor an overridden sibling mutator")
                how = ""
            if m.startswith("__i") and m.endswith("__"):
                rets = [r for r in walk_local(f.node) if isinstance(r, ast.Return)]
                falls = g.exit in g.reachable([g.entry], avoid=[i for r in rets for i in g.nodes_for(r)], edge_ok=no_exc)
                if falls or not rets or not all(isinstance(r.value, ast.Name) and r.value.id == "self" for r in rets):
                    problems.append("in-place operator does not return self (the attribute would be rebound to another object)")
            ctx.check(not problems, key, "; ".join(problems), how, f.loc)


PLAIN = {"dict", "list", "set", "tuple", "frozenset"}


def _plain_payload(e) -> bool:
    return (isinstance(e, ast.Call) and isinstance(e.func, ast.Name) and e.func.id in PLAIN and len(e.args) == 1
            and isinstance(e.args[0], ast.Name) and e.args[0].id == "self")


@R.rule("C49-R3", floor=11, template="T-SIBLING",
        desc="pickling hooks of the Mutable collections emit a plain builtin copy of the content (never "
             "self.__dict__/_parents) and __setstate__ refills through a content mutator; the pickle and "
             "unpickle listeners agree on the state-dict key")
def r3(ctx):
    for t, cname in CLASSES.items():
        cls = ctx.index.cls(f"{MUT}::{cname}")
        writers = [n for n in ("__getstate__", "__reduce_ex__", "__reduce__") if n in cls.methods]
        ctx.check(bool(writers), f"{MUT}::{cname}:pickle-writer",
                  f"{cname} defines neither __getstate__ nor __reduce_ex__: default pickling would include the "
                  f"_parents WeakKeyDictionary held in __dict__", ",".join(writers), cls.loc)
        for wn in writers:
            f = cls.methods[wn]
            ctx.functions_analysed.add(f.key)
            rets = [r for r in walk_local(f.node) if isinstance(r, ast.Return)]
            good = bool(rets)
            for r in rets:
                v = r.value
                if wn == "__getstate__":
                    good = good and _plain_payload(v)
                else:
                    good = good and (
                        isinstance(v, ast.Tuple) and len(v.elts) == 2
                        and unparse(v.elts[0]).replace(" ", "") in ("self.__class__", "type(self)", cname)
                        and isinstance(v.elts[1], ast.Tuple) and len(v.elts[1].elts) == 1
                        and _plain_payload(v.elts[1].elts[0])
                    )
            leaks = any(isinstance(n, ast.Attribute) and n.attr in ("_parents", "__dict__") for n in ast.walk(f.node))
            ctx.check(good and not leaks, f.key,
                      f"{wn} does not return a plain builtin copy of the content (or touches _parents/__dict__)",
                      "plain copy of content", f.loc)
        f = cls.methods.get("__setstate__")
        if f is not None:
            ctx.functions_analysed.add(f.key)
            p = f.params[1] if len(f.params) > 1 else None
            refill = False
            for n, c in _self_calls(f.node):
                if n in ("update", "extend") and c.args and isinstance(c.args[0], ast.Name) and c.args[0].id == p:
                    refill = True
            for d, s, st in subscript_stores(f.node):
                if d == "self" and isinstance(st, ast.Assign) and isinstance(st.value, ast.Name) and st.value.id == p \
                        and isinstance(s.slice, ast.Slice) and s.slice.lower is None and s.slice.upper is None:
                    refill = True
            ctx.check(refill, f.key, "__setstate__ does not refill the content from the pickled state", "refills from state", f.loc)
    # pickle / unpickle listeners agree on the key
    lf = ctx.func(f"{MUT}::MutableBase._listen_on_attribute")
    nf = nested_functions(lf.node)
    ctx.require("pickle" in nf and "unpickle" in nf, "pickle/unpickle listeners not found in _listen_on_attribute")

    def sd_keys(fn):
        sd = fn.args.args[1].arg
        ks = set()
        for n in ast.walk(fn):
            if isinstance(n, ast.Subscript) and isinstance(n.value, ast.Name) and n.value.id == sd and const_str(n.slice):
                ks.add(const_str(n.slice))
            if isinstance(n, ast.Compare) and len(n.comparators) == 1 and isinstance(n.comparators[0], ast.Name) \
                    and n.comparators[0].id == sd and const_str(n.left):
                ks.add(const_str(n.left))
        return ks
    wk, rk = sd_keys(nf["pickle"]), sd_keys(nf["unpickle"])
    ctx.check(bool(rk) and rk <= wk, f"{lf.key}:pickle-key",
              f"unpickle listener reads state key(s) {sorted(rk)} but pickle listener writes {sorted(wk)}",
              f"key {sorted(rk)}", lf.loc)


EVENTS = {
    # documented listener set of Mutable.associate_with_attribute: event -> needs retval
    "load": False, "refresh": False, "set": True, "pickle": False, "unpickle": False,
}


@R.rule("C49-R4", floor=10, template="T-FLOW",
        desc="Mutable.changed flags every parent via flag_modified(parent.obj(), key); _listen_on_attribute "
             "registers load/refresh/set/pickle/unpickle listeners raw+propagate; set_ coerces foreign "
             "values, links value._parents[target]=key and returns the value; load coerces and links")
def r4(ctx):
    f = ctx.func(f"{MUT}::Mutable.changed")
    pm = f.module.parents()
    good = False
    why = "no flag_modified() call"
    for c in calls_in(f.node):
        if (call_name(c) or "").split(".")[-1] != "flag_modified":
            continue
        loop = None
        cur = pm.get(c)
        while cur is not None and cur is not f.node:
            if isinstance(cur, ast.For):
                loop = cur
                break
            cur = pm.get(cur)
        guards = lexical_guards(pm, c, stop=f.node)
        if loop is None or "self._parents" not in unparse(loop.iter):
            why = "flag_modified() is not inside a loop over self._parents"
        elif guards:
            why = "flag_modified() is conditional: " + ", ".join(a for a, _ in guard_atoms(guards))
        else:
            tn = [n.id for n in ast.walk(loop.target) if isinstance(n, ast.Name)]
            a0 = unparse(c.args[0]) if c.args else ""
            a1 = unparse(c.args[1]) if len(c.args) > 1 else ""
            if len(tn) == 2 and a0 == f"{tn[0]}.obj()" and a1 == tn[1] and ".items()" in unparse(loop.iter):
                good = True
            else:
                why = f"flag_modified({a0}, {a1}) is not (parent.obj(), key) of the iterated _parents item"
    ctx.check(good, f.key, why, "for parent, key in self._parents.items(): flag_modified(parent.obj(), key)", f.loc)

    lf = ctx.func(f"{MUT}::MutableBase._listen_on_attribute")
    nf = nested_functions(lf.node)
    regs = {}
    for c in calls_in(lf.node):
        if call_name(c) == "event.listen" and len(c.args) >= 3 and const_str(c.args[1]):
            kw = {k.arg: unparse(k.value) for k in c.keywords}
            regs[const_str(c.args[1])] = (unparse(c.args[2]), kw)
    for evn, need_ret in EVENTS.items():
        key = f"{lf.key}:listen:{evn}"
        if evn not in regs:
            ctx.violation(key, f"no listener registered for the '{evn}' event", lf.loc)
            continue
        fnname, kw = regs[evn]
        probs = []
        if kw.get("raw") != "True":
            probs.append("raw=True missing (handlers take InstanceState)")
        if kw.get("propagate") != "True":
            probs.append("propagate=True missing (subclasses of the mapped class would not be tracked)")
        if need_ret and kw.get("retval") != "True":
            probs.append("retval=True missing (the coerced value returned by the handler would be ignored)")
        if fnname not in nf:
            probs.append(f"handler {fnname} is not a local function")
        ctx.check(not probs, key, "; ".join(probs), f"{fnname} {kw}", lf.loc)

    # set_ handler
    sname = regs.get("set", ("", {}))[0]
    if sname in nf:
        s = nf[sname]
        ps = [a.arg for a in s.args.args]
        ctx.require(len(ps) >= 3, "set listener signature not understood")
        tgt, val, old = ps[0], ps[1], ps[2]
        probs = []
        co = [c for c in calls_in(s) if call_name(c) == "cls.coerce"]
        co_ok = False
        for c in co:
            par = pm.get(c)
            if isinstance(par, ast.Assign) and isinstance(par.targets[0], ast.Name) and par.targets[0].id == val:
                atoms = guard_atoms(lexical_guards(pm, par, stop=s))
                if (f"isinstance({val}, cls)", False) in atoms:
                    co_ok = True
        if not co_ok:
            probs.append("a value that is not an instance of cls is not replaced by cls.coerce(key, value)")
        link = any(d == f"{val}._parents" and unparse(sub_.slice) == tgt and isinstance(st, ast.Assign) and unparse(st.value) == "key"
                   for d, sub_, st in subscript_stores(s))
        if not link:
            probs.append("the new value is not linked to its parent (value._parents[target] = key)")
        rets = [r for r in walk_local(s) if isinstance(r, ast.Return)]
        if not rets or not all(isinstance(r.value, ast.Name) and r.value.id == val for r in rets):
            probs.append("the (coerced) value is not returned on every path")
        unlink = any((call_name(c) or "") == f"{old}._parents.pop" for c in calls_in(s))
        if not unlink:
            probs.append("the old value is not unlinked from the parent")
        ctx.check(not probs, f"{lf.key}:set_", "; ".join(probs), "coerce, link, unlink old, return value", lf.loc)
    # load handler
    lname = regs.get("load", ("", {}))[0]
    if lname in nf:
        l = nf[lname]
        probs = []
        stores = subscript_stores(l)
        link = [(d, s_, st) for d, s_, st in stores if d.endswith("._parents")]
        if not link:
            probs.append("loaded value is not linked to its parent (_parents[state] = key)")
        co = [c for c in calls_in(l) if call_name(c) == "cls.coerce"]
        co_ok = False
        for c in co:
            par = pm.get(c)
            if isinstance(par, ast.Assign) and isinstance(par.targets[0], ast.Name):
                v = par.targets[0].id
                back = any(d == "state.dict" and isinstance(st, ast.Assign) and unparse(st.value) == v for d, s_, st in stores)
                atoms = guard_atoms(lexical_guards(pm, par, stop=l))
                if back and ("coerce", True) in atoms and link and link[0][0] == f"{v}._parents":
                    co_ok = True
        if not co_ok:
            probs.append("loaded plain value is not coerced and stored back into state.dict under the coerce flag")
        ctx.check(not probs, f"{lf.key}:load", "; ".join(probs), "coerce, store back, link", lf.loc)
        # refresh handler funnels into load
        rname = regs.get("refresh", ("", {}))[0]
        if rname in nf and rname != lname:
            calls_load = any(call_name(c) == lname for c in calls_in(nf[rname]))
            ctx.check(calls_load, f"{lf.key}:refresh", f"refresh handler {rname} does not call {lname}()", f"-> {lname}()", lf.loc)
    aw = ctx.func(f"{MUT}::Mutable.associate_with_attribute")
    cs = [c for c in calls_in(aw.node) if (call_name(c) or "").endswith("._listen_on_attribute")]
    ctx.check(bool(cs) and len(cs[0].args) >= 2 and unparse(cs[0].args[1]) == "True", aw.key,
              "associate_with_attribute does not request coercion (coerce=True) from _listen_on_attribute",
              "coerce=True", aw.loc)


# ---------------------------------------------------------------------------------- self-test
R.mutant("dict-popitem-override-removed", MUT,
         sub("    def popitem(self) -> Tuple[_KT, _VT]:\n        result = dict.popitem(self)\n        self.changed()\n        return result\n\n", ""),
         "C49-R1")
R.mutant("set-discard-override-removed", MUT,
         sub("    def discard(self, elem: _T) -> None:  # type: ignore[override,unused-ignore] # noqa: E501\n        set.discard(self, elem)\n        self.changed()\n\n", ""),
         "C49-R1")
R.mutant("list-reverse-override-removed", MUT,
         sub("    def reverse(self) -> None:\n        list.reverse(self)\n        self.changed()\n\n", ""),
         "C49-R1")
R.mutant("list-insert-no-changed", MUT,
         sub("        list.insert(self, i, x)\n        self.changed()\n", "        list.insert(self, i, x)\n"), "C49-R2")
R.mutant("dict-update-changed-only-if-args", MUT,
         sub("        dict.update(self, *a, **kw)\n        self.changed()\n", "        dict.update(self, *a, **kw)\n        if a:\n            self.changed()\n"),
         "C49-R2")
R.mutant("set-pop-loses-result", MUT,
         sub("        result = set.pop(self, *arg)\n        self.changed()\n        return result\n", "        result = set.pop(self, *arg)\n        self.changed()\n        return None\n"),
         "C49-R2")
R.mutant("set-iand-returns-none", MUT,
         sub("        self.intersection_update(other)\n        return self\n", "        self.intersection_update(other)\n"), "C49-R2")
R.mutant("list-changed-before-mutation", MUT,
         sub("        list.remove(self, i)\n        self.changed()\n", "        self.changed()\n        list.remove(self, i)\n"), "C49-R2")
R.mutant("dict-getstate-returns-self-dict", MUT,
         sub("    def __getstate__(self) -> Dict[_KT, _VT]:\n        return dict(self)\n", "    def __getstate__(self) -> Dict[_KT, _VT]:\n        return self.__dict__\n"), "C49-R3")
R.mutant("set-setstate-noop", MUT,
         sub("    def __setstate__(self, state: Iterable[_T]) -> None:\n        self.update(state)\n", "    def __setstate__(self, state: Iterable[_T]) -> None:\n        pass\n"),
         "C49-R3")
R.mutant("unpickle-key-typo", MUT,
         sub("            if \"ext.mutable.values\" in state_dict:\n                collection = state_dict[\"ext.mutable.values\"]\n",
             "            if \"ext.mutable.value\" in state_dict:\n                collection = state_dict[\"ext.mutable.value\"]\n"),
         "C49-R3")
R.mutant("changed-flags-first-parent-only", MUT,
         sub("        for parent, key in self._parents.items():\n            flag_modified(parent.obj(), key)\n",
             "        for parent, key in self._parents.items():\n            if parent.modified:\n                flag_modified(parent.obj(), key)\n"),
         "C49-R4")
R.mutant("set-listener-no-retval", MUT,
         sub("            attribute, \"set\", set_, raw=True, retval=True, propagate=True\n", "            attribute, \"set\", set_, raw=True, propagate=True\n"),
         "C49-R4")
R.mutant("load-listener-not-propagated", MUT,
         sub("        event.listen(parent_cls, \"load\", load, raw=True, propagate=True)\n", "        event.listen(parent_cls, \"load\", load, raw=True)\n"),
         "C49-R4")
R.mutant("set-does-not-link-parent", MUT,
         sub("            if value is not None:\n                value._parents[target] = key\n", "            if value is not None:\n                pass\n"),
         "C49-R4")
# benign
R.mutant("benign-rename-result", MUT,
         sub("        result = dict.popitem(self)\n        self.changed()\n        return result\n", "        item = dict.popitem(self)\n        self.changed()\n        return item\n"),
         None)
R.mutant("benign-ior-calls-builtin", MUT,
         sub("        self.update(other)\n        return self\n\n    def __iand__", "        set.update(self, other)\n        self.changed()\n        return self\n\n    def __iand__"),
         None)
R.mutant("benign-extra-listener", MUT,
         sub("        event.listen(parent_cls, \"pickle\", pickle, raw=True, propagate=True)\n",
             "        event.listen(parent_cls, \"pickle\", pickle, raw=True, propagate=True)\n        event.listen(parent_cls, \"expire\", load_attrs, raw=True, propagate=True)\n"),
         None)
