"""C49 -- Mutable column values propagate in-place changes (mutator cover, changed() pairing)."""

from __future__ import annotations

import ast

from ..astutil import (
    FuncNode, call_name, calls_in, const_str, dotted, guard_atoms, lexical_guards, nested_functions,
    subscript_stores, test_atoms, unparse, walk_local,
)
from ..cfg import no_exc
from ..oracles import load, python_mutators
from ..report import Registry, chain, sub
from ._helpers_rob_g2 import assuming, closure_consts, expand, normal_form, resolve_name, single_defs

R = Registry(
    "C49",
    title="Mutable column values propagate in-place changes",
    decides=(
        "MutableDict/MutableList/MutableSet override every mutator of dict/list/set (order-only ones "
        "included: a reordered list is a changed value); each override calls the builtin implementation "
        "(or an overridden sibling) and then self.changed() on every normal path and passes the builtin's "
        "result through; pickling hooks emit the plain builtin value (never _parents); Mutable.changed "
        "flags every parent; the load/refresh/set/pickle/unpickle listeners are registered raw+propagate "
        "and coerce / link the value to its parent; propagate=True of the ORM instance/attribute/mapper event hooks "
        "registers the listener on a transitive-closure walk of the subclasses (and the walkers they use -- "
        "ClassManager.subclass_managers, Mapper.self_and_descendants, util.walk_subclasses -- re-feed / recurse on "
        "every child), so the listeners ext.mutable installs at mapper_configured time reach every descendant class; "
        "the set listener unlinks the outgoing value only once the incoming one can no longer be rejected (cls.coerce raises) and "
        "never when value is oldvalue; the pickle listener files EVERY non-None value (falsy/empty containers included) and the "
        "unpickle listener links every filed value; a builtin that consumes an iterable element by element (list.extend, dict.update, "
        "set.update, set.difference_update) is followed by changed() on its exceptional exit as well; the once-only flag guarding the "
        "installation of the listeners is keyed by the mapped class, not stored on the shared Core Column."
    ),
    not_decided=(
        "equality of stored and in-memory value after flush; MutableComposite attribute mapping; mutation "
        "of nested values; spurious changed() when the builtin raises before mutating; mutation of a STALE value object "
        "that was already replaced (general ORM: committed_state keeps the old value by reference); an override that skips changed() on a path "
        "where the builtin ran but provably changed nothing (decided on pre-mutation state) is still reported -- "
        "only 'the builtin was not called on this path' is accepted as proof of no mutation."
    ),
)

MUT = "ext/mutable.py"
CLASSES = {"dict": "MutableDict", "list": "MutableList", "set": "MutableSet"}
PARTIAL = {k: v for k, v in load("python_partial_mutators.json").items() if k != "_comment"}


def _builtin_calls(fn, t):
    """calls `t.<m>(self, ...)` inside fn -> [(m, call)]"""
    out = []
    for c in calls_in(fn):
        f = c.func
        if isinstance(f, ast.Attribute) and isinstance(f.value, ast.Name) and f.value.id == t and c.args \
                and isinstance(c.args[0], ast.Name) and c.args[0].id == "self":
            out.append((f.attr, c))
        elif isinstance(f, ast.Attribute) and isinstance(f.value, ast.Call) and dotted(f.value.func) == "super":
            out.append((f.attr, c))
    return out


def _self_calls(fn):
    out = []
    for c in calls_in(fn):
        f = c.func
        if isinstance(f, ast.Attribute) and isinstance(f.value, ast.Name) and f.value.id == "self":
            out.append((f.attr, c))
    return out


def _all_mutators(t):
    members, order_only = python_mutators(t)
    return members + order_only


@R.rule("C49-R1", floor=33, template="T-EXHAUST",
        desc="MutableDict/MutableList/MutableSet define an override for every mutator of dict/list/set")
def r1(ctx):
    for t, cname in CLASSES.items():
        cls = ctx.index.cls(f"{MUT}::{cname}")
        ctx.require(t in [b.lower().split(".")[-1] for b in cls.base_exprs],
                    f"{cname} no longer derives from the builtin/typing {t} ({cls.base_exprs})")
        for m in _all_mutators(t):
            key = f"{MUT}::{cname}.{m}"
            f = cls.methods.get(m)
            if f is not None and not f.type_only:
                ctx.ok(key, "overridden", nontrivial=False)
            else:
                ctx.violation(key, f"builtin {t}.{m} mutates the value in place but {cname} does not override it: "
                                   f"the change is never reported through changed(), the parent is not flagged "
                                   f"modified and flush does not write it", cls.loc)


def _changed_depends_on(f, g, bcalls, bnodes, changed):
    """When self.changed() is conditional after the builtin ran: say on what.  A test of the builtin's RESULT
    (or of the arguments) is never a proof that the builtin did not mutate -- `dict.pop(k, d) is d` also holds
    for a present key whose value is d."""
    pm = f.pm if hasattr(f, "pm") else f.module.parents()
    resvars = set()
    for _, c in bcalls:
        par = pm.get(c)
        if isinstance(par, (ast.Assign, ast.AnnAssign)):
            tg = par.targets[0] if isinstance(par, ast.Assign) else par.target
            if isinstance(tg, ast.Name):
                resvars.add(tg.id)
    after = g.reachable(bnodes, edge_ok=no_exc)
    tests = []
    for ch in changed:
        for t, pol in g.edge_guards(ch):
            tn = [i for i in g.nodes_containing(t) if i in after]
            if tn and t not in tests:
                tests.append(t)
    if not tests:
        return ""
    names = {n.id for t in tests for n in ast.walk(t) if isinstance(n, ast.Name)}
    what = "the builtin's result" if names & resvars else "a value that is not the pre-mutation state of the collection"
    return ("changed() is decided after the mutation by `" + " / ".join(unparse(t) for t in tests) + f"`, a test of {what}: "
            "it cannot tell 'nothing was removed/added' from 'the affected member equals the argument'")


@R.rule("C49-R2", floor=33, template="T-PATH",
        desc="each override calls the builtin implementation (or an overridden sibling mutator) and every "
             "normal path after it passes self.changed(); value-returning mutators pass the builtin's "
             "result through; in-place operators return self")
def r2(ctx):
    rv = load("python_mutator_effects.json")["returns_value"]
    for t, cname in CLASSES.items():
        cls = ctx.index.cls(f"{MUT}::{cname}")
        muts = _all_mutators(t)
        partial = {}
        for m in muts:
            key = f"{MUT}::{cname}.{m}"
            f = cls.methods.get(m)
            if f is None or f.type_only:
                ctx.ok(key, "no override to examine (reported by C49-R1)", nontrivial=False)
                continue
            # extracted helpers (`self._notify()`, `return self._changed_and_return(<builtin call>)`) inlined; sibling
            # mutators and changed() itself are the rule's vocabulary and stay calls
            f = normal_form(ctx, f, keep=tuple(muts) + ("changed",), alias=None, foreign=False)
            g = ctx.cfg(f)
            problems = []
            bcalls = [(n, c) for n, c in _builtin_calls(f.node, t) if n in muts]
            scalls = [(n, c) for n, c in _self_calls(f.node) if n in muts and n != m]
            changed = g.find_calls("self.changed")
            if bcalls:
                bnodes = [i for _, c in bcalls for i in g.nodes_containing(c)]
                w = g.must_pass(bnodes, [g.exit], changed, edge_ok=no_exc)
                if w is not None:
                    msg = "a normal path leaves after the builtin mutation without self.changed(): " + " -> ".join(w[-3:])
                    dep = _changed_depends_on(f, g, bcalls, bnodes, changed)
                    if dep:
                        msg += "; " + dep
                    problems.append(msg)
                if m in rv[t]:
                    ok = False
                    after = g.reachable(bnodes, edge_ok=no_exc)
                    for n, c in bcalls:
                        par = f.pm.get(c)
                        if isinstance(par, ast.Return):
                            ok = True
                        elif isinstance(par, (ast.Assign, ast.AnnAssign)):
                            tg = par.targets[0] if isinstance(par, ast.Assign) else par.target
                            if isinstance(tg, ast.Name):
                                # only the returns that can follow the builtin call owe its result (an early
                                # `return default` taken before anything was mutated is none of this clause's business)
                                rets = [r for r in walk_local(f.node) if isinstance(r, ast.Return)
                                        and any(i in after for i in g.nodes_for(r))]
                                ok = bool(rets) and all(isinstance(r.value, ast.Name) and r.value.id == tg.id for r in rets)
                    if not ok:
                        problems.append(f"{t}.{m} returns the affected member but the override does not return the builtin's result")
                how = "builtin " + ",".join(sorted({n for n, _ in bcalls})) + " -> changed()"
            elif scalls:
                # delegation to an overridden sibling (which reports the change itself)
                for n, c in scalls:
                    sf = cls.methods.get(n)
                    if sf is None or sf.type_only:
                        problems.append(f"delegates to self.{n} which is not overridden in {cname}")
                how = "delegates to " + ",".join(sorted({n for n, _ in scalls}))
            else:
                problems.append("override neither calls the builtin implementation nor an overridden sibling mutator")
                how = ""
            if m.startswith("__i") and m.endswith("__"):
                rets = [r for r in walk_local(f.node) if isinstance(r, ast.Return)]
                falls = g.exit in g.reachable([g.entry], avoid=[i for r in rets for i in g.nodes_for(r)], edge_ok=no_exc)
                if falls or not rets or not all(isinstance(r.value, ast.Name) and r.value.id == "self" for r in rets):
                    problems.append("in-place operator does not return self (the attribute would be rebound to another object)")
            ctx.check(not problems, key, "; ".join(problems), how, f.loc)
            # a builtin that consumes an arbitrary iterable element by element keeps what it consumed when the iteration
            # raises part-way: the value HAS changed although the call failed, so changed() is owed on that exit too.
            # One instance per (class, builtin): wherever the class calls that builtin.
            for n, c in bcalls:
                if n not in PARTIAL[t]:
                    continue
                okc = all(_materialised(a, f.node) for a in c.args[1 if _explicit_self(c) else 0:]) and not c.keywords
                if not okc:
                    okc = all(g.must_pass([nid], [g.raise_exit], changed, start_edge_ok=lambda a, b, l: l == "exc") is None
                              for nid in g.nodes_containing(c))
                partial.setdefault(n, []).append((m, okc, f.loc))
        for n, sites in sorted(partial.items()):
            bad = sorted({m for m, okc, _ in sites if not okc})
            ctx.check(not bad, f"{MUT}::{cname}:{t}.{n}:partial-failure",
                      f"{t}.{n} (called by {cname}.{'/'.join(bad)}) consumes its argument element by element: when iterating the argument "
                      f"raises part-way (a failing generator, an unhashable element) the elements consumed so far STAY in the "
                      f"{cname}, but the exception leaves the override before self.changed() -- the in-memory value has "
                      f"changed, the parent is not flagged and flush does not write it (call changed() in a `finally`, or "
                      f"materialise the argument before handing it to the builtin)",
                      "changed() also on the exceptional exit of the builtin (or argument materialised first)", sites[0][2])


def _explicit_self(c):
    return isinstance(c.func, ast.Attribute) and isinstance(c.func.value, ast.Name) and c.args \
        and isinstance(c.args[0], ast.Name) and c.args[0].id == "self"


def _materialised(a, fn):
    """the argument handed to the builtin is already a concrete builtin container (`list(x)`, a display, or a local bound
    only to such a thing): iterating it cannot raise"""
    if isinstance(a, (ast.List, ast.Tuple, ast.Set, ast.Dict, ast.Constant)):
        return True
    if isinstance(a, ast.Call) and isinstance(a.func, ast.Name) and a.func.id in PLAIN and not a.keywords:
        return True
    if isinstance(a, ast.Name):
        vals = [n.value for n in walk_local(fn) if isinstance(n, ast.Assign) and any(isinstance(tg, ast.Name) and tg.id == a.id for tg in n.targets)]
        params = {x.arg for x in fn.args.args + fn.args.posonlyargs + fn.args.kwonlyargs} | ({fn.args.vararg.arg} if fn.args.vararg else set())
        return bool(vals) and a.id not in params and all(_materialised(v, fn) for v in vals)
    return False


PLAIN = {"dict", "list", "set", "tuple", "frozenset"}


def _plain_payload(e) -> bool:
    return (isinstance(e, ast.Call) and isinstance(e.func, ast.Name) and e.func.id in PLAIN and len(e.args) == 1
            and isinstance(e.args[0], ast.Name) and e.args[0].id == "self")


@R.rule("C49-R3", floor=11, template="T-SIBLING",
        desc="pickling hooks of the Mutable collections emit a plain builtin copy of the content (never "
             "self.__dict__/_parents) and __setstate__ refills through a content mutator; the pickle and "
             "unpickle listeners agree on the state-dict key")
def r3(ctx):
    for t, cname in CLASSES.items():
        cls = ctx.index.cls(f"{MUT}::{cname}")
        writers = [n for n in ("__getstate__", "__reduce_ex__", "__reduce__") if n in cls.methods]
        ctx.check(bool(writers), f"{MUT}::{cname}:pickle-writer",
                  f"{cname} defines neither __getstate__ nor __reduce_ex__: default pickling would include the "
                  f"_parents WeakKeyDictionary held in __dict__", ",".join(writers), cls.loc)
        for wn in writers:
            f = cls.methods[wn]
            ctx.functions_analysed.add(f.key)
            rets = [r for r in walk_local(f.node) if isinstance(r, ast.Return)]
            good = bool(rets)
            for r in rets:
                v = r.value
                if wn == "__getstate__":
                    good = good and _plain_payload(v)
                else:
                    good = good and (
                        isinstance(v, ast.Tuple) and len(v.elts) == 2
                        and unparse(v.elts[0]).replace(" ", "") in ("self.__class__", "type(self)", cname)
                        and isinstance(v.elts[1], ast.Tuple) and len(v.elts[1].elts) == 1
                        and _plain_payload(v.elts[1].elts[0])
                    )
            leaks = any(isinstance(n, ast.Attribute) and n.attr in ("_parents", "__dict__") for n in ast.walk(f.node))
            ctx.check(good and not leaks, f.key,
                      f"{wn} does not return a plain builtin copy of the content (or touches _parents/__dict__)",
                      "plain copy of content", f.loc)
        f = cls.methods.get("__setstate__")
        if f is not None:
            ctx.functions_analysed.add(f.key)
            p = f.params[1] if len(f.params) > 1 else None
            refill = False
            for n, c in _self_calls(f.node):
                if n in ("update", "extend") and c.args and isinstance(c.args[0], ast.Name) and c.args[0].id == p:
                    refill = True
            for d, s, st in subscript_stores(f.node):
                if d == "self" and isinstance(st, ast.Assign) and isinstance(st.value, ast.Name) and st.value.id == p \
                        and isinstance(s.slice, ast.Slice) and s.slice.lower is None and s.slice.upper is None:
                    refill = True
            ctx.check(refill, f.key, "__setstate__ does not refill the content from the pickled state", "refills from state", f.loc)
    # pickle / unpickle listeners agree on the key
    lf = ctx.func(f"{MUT}::MutableBase._listen_on_attribute")
    nf = nested_functions(lf.node)
    ctx.require("pickle" in nf and "unpickle" in nf, "pickle/unpickle listeners not found in _listen_on_attribute")
    wk, rk = _state_dict_keys(ctx, lf, nf["pickle"]), _state_dict_keys(ctx, lf, nf["unpickle"])
    ctx.check(bool(rk) and rk <= wk, f"{lf.key}:pickle-key",
              f"unpickle listener reads state key(s) {sorted(rk)} but pickle listener writes {sorted(wk)}",
              f"key {sorted(rk)}", lf.loc)


def _const_env(lf, inner):
    """what a name used as a key inside the closure `inner` stands for: a single-assignment constant local of the
    closure itself or of the enclosing function (closure variable)"""
    env = dict(closure_consts(lf.node, inner))
    env.update({n: v for n, v in single_defs(inner).items() if isinstance(v, ast.Constant)})
    return env


def _key_of(e, env, module):
    e = resolve_name(e, env)
    if const_str(e) is not None:
        return const_str(e)
    if isinstance(e, ast.Name):
        vals = module.assigns.get(e.id) or []
        if len(vals) == 1 and const_str(vals[0]) is not None:      # module-level constant
            return const_str(vals[0])
    return None


def _state_dict_keys(ctx, lf, fn):
    """string keys under which the listener closure `fn(state, state_dict)` accesses the pickled state dictionary:
    `sd[K]`, `K in sd`, `sd.get/setdefault/pop(K, ..)` -- K a literal, a local / closure / module constant"""
    ctx.require(len(fn.args.args) >= 2, f"{fn.name} listener signature not understood")
    sd = fn.args.args[1].arg
    env = _const_env(lf, fn)
    sds = {sd} | {n for n, v in single_defs(fn).items() if isinstance(v, ast.Name) and v.id == sd}
    ks = set()
    exprs = []
    for n in ast.walk(fn):
        if isinstance(n, ast.Subscript) and isinstance(n.value, ast.Name) and n.value.id in sds:
            exprs.append(n.slice)
        if isinstance(n, ast.Compare) and len(n.comparators) == 1 and isinstance(n.ops[0], (ast.In, ast.NotIn)) \
                and isinstance(n.comparators[0], ast.Name) and n.comparators[0].id in sds:
            exprs.append(n.left)
        if isinstance(n, ast.Call) and isinstance(n.func, ast.Attribute) and n.func.attr in ("get", "setdefault", "pop") \
                and isinstance(n.func.value, ast.Name) and n.func.value.id in sds and n.args:
            exprs.append(n.args[0])
    for e in exprs:
        k = _key_of(e, env, lf.module)
        ctx.require(k is not None, f"{lf.key}: key `{unparse(e)}` of the pickled state dictionary in {fn.name}() is not a resolvable constant")
        ks.add(k)
    return ks


EVENTS = {
    # documented listener set of Mutable.associate_with_attribute: event -> needs retval
    "load": False, "refresh": False, "set": True, "pickle": False, "unpickle": False,
}


def _strip_materialise(e):
    while isinstance(e, ast.Call) and isinstance(e.func, ast.Name) and e.func.id in ("list", "tuple", "iter", "sorted") and len(e.args) == 1:
        e = e.args[0]
    return e


def _changed_flags_every_parent(ctx, f0):
    """(ok, why) for Mutable.changed: flag_modified(<state>.obj(), <key>) for every item of self._parents, unconditionally"""
    f = normal_form(ctx, f0, keep=("flag_modified", "obj"), alias="all")
    g = ctx.cfg(f)
    env = single_defs(f.node)
    pm = f.pm
    why = "no flag_modified() call"
    for c in calls_in(f.node):
        if (call_name(c) or "").split(".")[-1] != "flag_modified":
            continue
        loop = None
        cur = pm.get(c)
        while cur is not None and cur is not f.node:
            if isinstance(cur, ast.For):
                loop = cur
                break
            cur = pm.get(cur)
        it = _strip_materialise(expand(loop.iter, env)) if loop is not None else None
        items = it is not None and isinstance(it, ast.Call) and isinstance(it.func, ast.Attribute) and it.func.attr == "items" \
            and dotted(it.func.value) == "self._parents" and not it.args
        keys_only = it is not None and (dotted(it) == "self._parents" or (
            isinstance(it, ast.Call) and isinstance(it.func, ast.Attribute) and it.func.attr == "keys" and dotted(it.func.value) == "self._parents"))
        if not (items or keys_only):
            why = "flag_modified() is not inside a loop over self._parents"
            continue
        nodes = g.nodes_containing(c)
        loop_vars = {n.id for n in ast.walk(loop.target) if isinstance(n, ast.Name)}
        cond = []
        for t, pol in (g.edge_guards(nodes[0]) if nodes else []):
            te = expand(t, env)
            reads = {n.id for n in ast.walk(te) if isinstance(n, ast.Name)}
            if (reads & loop_vars) or not ({d for d in _dotted_reads(te)} <= {"self._parents"}):
                cond.extend(a for a, _ in test_atoms(te, pol))
        if cond or not nodes:
            why = "flag_modified() is conditional: " + ", ".join(cond)
            continue
        a0 = expand(c.args[0], env) if c.args else None
        a1 = expand(c.args[1], env) if len(c.args) > 1 else None
        for kw_ in c.keywords:
            if kw_.arg == "instance":
                a0 = expand(kw_.value, env)
            if kw_.arg == "key":
                a1 = expand(kw_.value, env)
        tn = [n.id for n in ast.walk(loop.target) if isinstance(n, ast.Name)]
        good = False
        if items and isinstance(loop.target, ast.Tuple) and len(tn) == 2:
            good = a0 is not None and a1 is not None and unparse(a0) == f"{tn[0]}.obj()" and unparse(a1) == tn[1]
        elif keys_only and isinstance(loop.target, ast.Name):
            good = a0 is not None and a1 is not None and unparse(a0) == f"{tn[0]}.obj()" and unparse(a1) == f"self._parents[{tn[0]}]"
        if good:
            return True, ""
        why = (f"flag_modified({unparse(a0) if a0 is not None else ''}, {unparse(a1) if a1 is not None else ''}) is not "
               f"(parent.obj(), key) of the iterated _parents item")
    return False, why


def _dotted_reads(e):
    from ..astutil import dotted_reads
    return dotted_reads(e)


def _listener_registrations(lf):
    """{event name: (handler name, {kw: text})} of the `event.listen(target, "<name>", handler, **kw)` calls, also when
    they are issued from a loop over a literal table of (name, handler) rows"""
    pm = lf.module.parents()
    regs = {}
    for c in calls_in(lf.node):
        if call_name(c) != "event.listen" or len(c.args) < 3:
            continue
        kw = {k.arg: unparse(k.value) for k in c.keywords}
        if const_str(c.args[1]):
            regs[const_str(c.args[1])] = (unparse(c.args[2]), kw)
            continue
        # for name, fn in (("load", load), ...): event.listen(parent_cls, name, fn, ...)
        cur = pm.get(c)
        while cur is not None and cur is not lf.node and not isinstance(cur, ast.For):
            cur = pm.get(cur)
        if isinstance(cur, ast.For) and isinstance(cur.iter, (ast.Tuple, ast.List)) and isinstance(cur.target, ast.Tuple) \
                and all(isinstance(t, ast.Name) for t in cur.target.elts):
            tn = [t.id for t in cur.target.elts]
            for row in cur.iter.elts:
                if not (isinstance(row, (ast.Tuple, ast.List)) and len(row.elts) == len(tn)):
                    continue
                bind = dict(zip(tn, row.elts))
                nm = expand(c.args[1], bind)
                if const_str(nm):
                    kw2 = {k.arg: unparse(expand(k.value, bind)) for k in c.keywords}
                    regs[const_str(nm)] = (unparse(expand(c.args[2], bind)), kw2)
    return regs


def _is_coerce_assign(st, v_names, env):
    """`<v> = cls.coerce(<key>, <v>)` -> v or None"""
    if isinstance(st, ast.AnnAssign) and st.value is not None:
        tgts, value = [st.target], st.value
    elif isinstance(st, ast.Assign):
        tgts, value = st.targets, st.value
    else:
        return None
    if not (len(tgts) == 1 and isinstance(tgts[0], ast.Name) and isinstance(value, ast.Call) and call_name(value) == "cls.coerce"):
        return None
    if len(value.args) != 2 or unparse(expand(value.args[0], env)) != "key":
        return None
    a = expand(value.args[1], env)
    if isinstance(a, ast.Name) and a.id in v_names and tgts[0].id in v_names:
        return tgts[0].id
    return None


def _parent_links(fn, g, env, v_names, owners):
    """CFG nodes of `<v>._parents[<owner>] = key` (v in v_names; owner one of the texts in `owners`)"""
    out = []
    for d, sub_, st in subscript_stores(fn):
        if not isinstance(st, ast.Assign):
            continue
        recv = expand(sub_.value, env)
        if not (isinstance(recv, ast.Attribute) and recv.attr == "_parents" and isinstance(recv.value, ast.Name) and recv.value.id in v_names):
            continue
        if unparse(expand(sub_.slice, env)) not in owners or unparse(expand(st.value, env)) != "key":
            continue
        out.extend(g.nodes_for(st))
    return out


def _check_set_handler(ctx, lf, s):
    ps = [a.arg for a in s.args.args]
    ctx.require(len(ps) >= 3, "set listener signature not understood")
    tgt, val, old = ps[0], ps[1], ps[2]
    g = ctx.cfg(s)
    env = single_defs(s)
    probs = []

    def fact(e):
        if isinstance(e, ast.Call) and isinstance(e.func, ast.Name) and e.func.id == "isinstance" and len(e.args) == 2 \
                and isinstance(e.args[0], ast.Name) and unparse(e.args[1]) == "cls":
            if e.args[0].id == val:
                return ("val-isinst", True)
            if e.args[0].id == old:
                return ("old-isinst", True)
        if isinstance(e, ast.Compare) and len(e.ops) == 1 and isinstance(e.ops[0], (ast.Is, ast.IsNot)):
            l, r = e.left, e.comparators[0]
            pos = isinstance(e.ops[0], ast.Is)
            if isinstance(l, ast.Name) and isinstance(r, ast.Name) and {l.id, r.id} == {val, old}:
                return ("same", pos)
            if isinstance(l, ast.Name) and l.id == val and isinstance(r, ast.Constant) and r.value is None:
                return ("val-none", pos)
        return None

    owners = {tgt, f"inspect({tgt})"}
    links = _parent_links(s, g, env, {val}, owners)
    coerces = [i for n in g.nodes if n.kind == "stmt" and _is_coerce_assign(n.stmt, {val}, env) for i in [n.id]]
    # a foreign value (not an instance of cls) never gets linked / returned as it came in
    rets = [i for r in walk_local(s) if isinstance(r, ast.Return) for i in g.nodes_for(r)]
    w = g.witness([g.entry], links + rets, avoid=coerces, edge_ok=assuming(g, {"val-isinst": False, "same": False}, fact, env)) if coerces else ["-"]
    if w is not None:
        probs.append("a value that is not an instance of cls is not replaced by cls.coerce(key, value)")
    w = g.witness([g.entry], [g.exit], avoid=links, edge_ok=assuming(g, {"val-none": False, "same": False}, fact, env)) if links else ["-"]
    if w is not None:
        probs.append("the new value is not linked to its parent (value._parents[target] = key)")
    rstmts = [r for r in walk_local(s) if isinstance(r, ast.Return)]
    falls = g.exit in g.reachable([g.entry], avoid=rets, edge_ok=no_exc)
    if not rstmts or falls or not all(r.value is not None and unparse(expand(r.value, env)) == val for r in rstmts):
        probs.append("the (coerced) value is not returned on every path")
    unl = []
    for n in g.nodes:
        if n.stmt is None or not isinstance(n.stmt, ast.stmt) or n.kind in ("with_exit", "handler", "join"):
            continue
        for part in _own(n.stmt):
            for c in calls_in(part):
                if isinstance(c.func, ast.Attribute) and c.func.attr == "pop" and c.args:
                    recv = expand(c.func.value, env)
                    if unparse(recv) == f"{old}._parents" and unparse(expand(c.args[0], env)) in owners:
                        unl.append(n.id)
        if isinstance(n.stmt, ast.Delete):
            for t in n.stmt.targets:
                if isinstance(t, ast.Subscript) and unparse(expand(t.value, env)) == f"{old}._parents" and unparse(expand(t.slice, env)) in owners:
                    unl.append(n.id)
    w = g.witness([g.entry], [g.exit], avoid=unl, edge_ok=assuming(g, {"old-isinst": True, "same": False}, fact, env)) if unl else ["-"]
    if w is not None:
        probs.append("the old value is not unlinked from the parent")
    # ... and it loses the link only when it really is replaced.  (a) The handler can still REJECT the assignment after
    # the unlink: cls.coerce() raises ValueError for a value it does not accept (so does an explicit raise); the attribute
    # event is aborted, the old value stays the attribute's value -- but is no longer linked to its parent.
    rejects = coerces + [n.id for n in g.nodes if n.kind == "stmt" and isinstance(n.stmt, ast.Raise)]
    if unl and rejects and g.witness(unl, rejects, edge_ok=no_exc) is not None:
        probs.append("the old value is unlinked BEFORE the point where the new value can still be rejected (cls.coerce() raises "
                     "ValueError for an unacceptable value): after a rejected assignment the attribute keeps the old value, "
                     "which has lost its _parents entry -- its in-place changes no longer flag the parent and are never flushed")
    # (b) value is oldvalue (`obj.data = obj.data`): whatever is unlinked has to be linked (again) before the handler ends
    # (scenario: a tracked value, i.e. an instance of cls, is assigned to the attribute that already holds it)
    same = assuming(g, {"same": True, "old-isinst": True, "val-isinst": True, "val-none": False}, fact, env)
    hit = [i for i in unl if i in g.reachable([g.entry], edge_ok=same)]
    if hit and g.witness(hit, [g.exit], avoid=links, edge_ok=same) is not None:
        probs.append("when the assigned value IS the current value it is unlinked from the parent and not linked again "
                     "(`obj.attr = obj.attr` switches change tracking off)")
    ctx.check(not probs, f"{lf.key}:set_", "; ".join(probs), "coerce, link, unlink old, return value", lf.loc)


def _own(st):
    from ..astutil import own_exprs
    return own_exprs(st)


def _check_load_handler(ctx, lf, l):
    ps = [a.arg for a in l.args.args]
    ctx.require(len(ps) >= 1, "load listener signature not understood")
    state = ps[0]
    g = ctx.cfg(l)
    env = single_defs(l)
    # the value read from the instance dictionary
    v_names = set()
    for n in walk_local(l):
        if isinstance(n, ast.Assign) and len(n.targets) == 1 and isinstance(n.targets[0], ast.Name):
            v = n.value
            if isinstance(v, ast.Call) and isinstance(v.func, ast.Attribute) and v.func.attr == "get" and unparse(expand(v.func.value, env)) == f"{state}.dict" \
                    and v.args and unparse(expand(v.args[0], env)) == "key":
                v_names.add(n.targets[0].id)
            if isinstance(v, ast.Subscript) and unparse(expand(v.value, env)) == f"{state}.dict" and unparse(expand(v.slice, env)) == "key":
                v_names.add(n.targets[0].id)
    probs = []

    def fact(e):
        if isinstance(e, ast.Compare) and len(e.ops) == 1 and isinstance(e.ops[0], (ast.Is, ast.IsNot)) and isinstance(e.left, ast.Name) \
                and e.left.id in v_names and isinstance(e.comparators[0], ast.Constant) and e.comparators[0].value is None:
            return ("none", isinstance(e.ops[0], ast.Is))
        if isinstance(e, ast.Name) and e.id == "coerce":
            return ("coerce", True)
        return None

    links = _parent_links(l, g, env, v_names, {state})
    w = g.witness([g.entry], [g.exit], avoid=links, edge_ok=assuming(g, {"none": False}, fact, env)) if links else ["-"]
    if w is not None:
        probs.append("loaded value is not linked to its parent (_parents[state] = key)")
    coerces = [n.id for n in g.nodes if n.kind == "stmt" and _is_coerce_assign(n.stmt, v_names, env)]
    backs = []
    for d, sub_, st in subscript_stores(l):
        if isinstance(st, ast.Assign) and unparse(expand(sub_.value, env)) == f"{state}.dict" and unparse(expand(sub_.slice, env)) == "key":
            bv = expand(st.value, env)
            if isinstance(bv, ast.Name) and bv.id in v_names:
                backs.extend(g.nodes_for(st))
    co_ok = bool(coerces) and bool(backs) and bool(links)
    if co_ok:
        # requested -> coerced before it is linked; coerced -> stored back; not requested -> left alone
        co_ok = g.witness([g.entry], links, avoid=coerces, edge_ok=assuming(g, {"coerce": True, "none": False}, fact, env)) is None \
            and g.must_pass(coerces, links + [g.exit], backs, edge_ok=no_exc) is None \
            and g.witness([g.entry], coerces, edge_ok=assuming(g, {"coerce": False}, fact, env)) is None
    if not co_ok:
        probs.append("loaded plain value is not coerced and stored back into state.dict under the coerce flag")
    ctx.check(not probs, f"{lf.key}:load", "; ".join(probs), "coerce, store back, link", lf.loc)


@R.rule("C49-R4", floor=10, template="T-FLOW",
        desc="Mutable.changed flags every parent via flag_modified(parent.obj(), key); _listen_on_attribute "
             "registers load/refresh/set/pickle/unpickle listeners raw+propagate; set_ coerces foreign "
             "values, links value._parents[target]=key and returns the value; load coerces and links")
def r4(ctx):
    f = ctx.func(f"{MUT}::Mutable.changed")
    good, why = _changed_flags_every_parent(ctx, f)
    ctx.check(good, f.key, why, "for parent, key in self._parents.items(): flag_modified(parent.obj(), key)", f.loc)

    lf = ctx.func(f"{MUT}::MutableBase._listen_on_attribute")
    nf = nested_functions(lf.node)
    regs = _listener_registrations(lf)
    for evn, need_ret in EVENTS.items():
        key = f"{lf.key}:listen:{evn}"
        if evn not in regs:
            ctx.violation(key, f"no listener registered for the '{evn}' event", lf.loc)
            continue
        fnname, kw = regs[evn]
        probs = []
        if kw.get("raw") != "True":
            probs.append("raw=True missing (handlers take InstanceState)")
        if kw.get("propagate") != "True":
            probs.append("propagate=True missing (subclasses of the mapped class would not be tracked)")
        if need_ret and kw.get("retval") != "True":
            probs.append("retval=True missing (the coerced value returned by the handler would be ignored)")
        if fnname not in nf:
            probs.append(f"handler {fnname} is not a local function")
        ctx.check(not probs, key, "; ".join(probs), f"{fnname} {kw}", lf.loc)

    # set_ handler
    sname = regs.get("set", ("", {}))[0]
    if sname in nf:
        _check_set_handler(ctx, lf, nf[sname])
    # load handler
    lname = regs.get("load", ("", {}))[0]
    if lname in nf:
        _check_load_handler(ctx, lf, nf[lname])
        # refresh handler funnels into load
        rname = regs.get("refresh", ("", {}))[0]
        if rname in nf and rname != lname:
            calls_load = any(call_name(c) == lname for c in calls_in(nf[rname]))
            ctx.check(calls_load, f"{lf.key}:refresh", f"refresh handler {rname} does not call {lname}()", f"-> {lname}()", lf.loc)
    aw = ctx.func(f"{MUT}::Mutable.associate_with_attribute")
    cs = [c for c in calls_in(aw.node) if (call_name(c) or "").endswith("._listen_on_attribute")]
    want = None
    if cs:
        c = cs[0]
        pos = lf.params.index("coerce") - 1 if "coerce" in lf.params else 1      # (first parameter is cls)
        want = c.args[pos] if len(c.args) > pos else next((k.value for k in c.keywords if k.arg == "coerce"), None)
        want = resolve_name(want, single_defs(aw.node)) if want is not None else None
    ctx.check(want is not None and unparse(want) == "True", aw.key,
              "associate_with_attribute does not request coercion (coerce=True) from _listen_on_attribute",
              "coerce=True", aw.loc)


# ----------------------------------------------------------------------------- C49-R6: the pickle round trip re-links
_FILE_CALLS = {"append", "add", "extend", "insert", "update", "appendleft"}


def _rooted(e, names):
    """does the attribute / subscript / method-call chain `e` start from one of `names`?
    (`sd.setdefault(K, ..)[key]` -> sd; `a if c else b`: both arms; `x or ()`: x; list(x): x)"""
    while True:
        e = _strip_materialise(e)
        if isinstance(e, (ast.Attribute, ast.Subscript, ast.Starred)):
            e = e.value
        elif isinstance(e, ast.Call) and isinstance(e.func, ast.Attribute):
            e = e.func.value
        elif isinstance(e, ast.NamedExpr):
            e = e.value
        elif isinstance(e, ast.IfExp):
            return _rooted(e.body, names) and _rooted(e.orelse, names)
        elif isinstance(e, ast.BoolOp) and isinstance(e.op, ast.Or):
            e = e.values[0]
        else:
            break
    return isinstance(e, ast.Name) and e.id in names


def _dict_value_locals(fn, env, state):
    """locals bound to the attribute's current value: `<v> = <state>.dict.get(key[, None])` / `<state>.dict[key]`"""
    out = set()
    for n in walk_local(fn):
        tg, v = None, None
        if isinstance(n, ast.Assign) and len(n.targets) == 1:
            tg, v = n.targets[0], n.value
        elif isinstance(n, ast.AnnAssign) and n.value is not None:
            tg, v = n.target, n.value
        elif isinstance(n, ast.NamedExpr):
            tg, v = n.target, n.value
        if not isinstance(tg, ast.Name):
            continue
        if isinstance(v, ast.Call) and isinstance(v.func, ast.Attribute) and v.func.attr == "get" \
                and unparse(expand(v.func.value, env)) == f"{state}.dict" and v.args and unparse(expand(v.args[0], env)) == "key":
            out.add(tg.id)
        if isinstance(v, ast.Subscript) and unparse(expand(v.value, env)) == f"{state}.dict" and unparse(expand(v.slice, env)) == "key":
            out.add(tg.id)
    return out


def _mentions(e, names):
    return any(isinstance(x, ast.Name) and x.id in names for x in ast.walk(e))


def _filing_nodes(fn, g, env, v_names, sds):
    """CFG nodes of the statements that put the value into the pickled state dictionary: a growing call
    (`<chain rooted at state_dict>.append(<v>)`) or an item store (`<chain rooted at state_dict>[..] = <.. v ..>`); the
    chain may run through single-assignment locals (`bucket = state_dict.setdefault(K, ..)`; `bucket[key].append(v)`)"""
    out = []
    for n in g.nodes:
        if n.stmt is None or not isinstance(n.stmt, ast.stmt) or n.kind in ("with_exit", "handler", "join"):
            continue
        hit = False
        for part in _own(n.stmt):
            for c in calls_in(part):
                if isinstance(c.func, ast.Attribute) and c.func.attr in _FILE_CALLS and any(_mentions(a, v_names) for a in c.args) \
                        and _rooted(expand(c.func.value, env), sds):
                    hit = True
        if isinstance(n.stmt, ast.Assign) and n.kind == "stmt":
            for tg in n.stmt.targets:
                if isinstance(tg, ast.Subscript) and _rooted(expand(tg, env), sds) and _mentions(n.stmt.value, v_names):
                    hit = True
        if hit:
            out.append(n.id)
    return out


def _none_fact(v_names):
    def fact(e):
        if isinstance(e, ast.Compare) and len(e.ops) == 1 and isinstance(e.ops[0], (ast.Is, ast.IsNot)) and isinstance(e.left, ast.Name) \
                and e.left.id in v_names and isinstance(e.comparators[0], ast.Constant) and e.comparators[0].value is None:
            return ("none", isinstance(e.ops[0], ast.Is))
        return None
    return fact


def _undecided_tests(g, nodes, fact, env, val):
    """the branch tests dominating `nodes` that the assumed facts do not decide (for the message)"""
    from ._helpers_rob_g2 import tv3
    out = []
    for i in nodes:
        for t, pol in g.edge_guards(i):
            if tv3(t, val, fact, env) is None:
                txt = ("" if pol else "not ") + "`" + unparse(t) + "`"
                if txt not in out:
                    out.append(txt)
    return out


@R.rule("C49-R6", floor=2, template="T-PATH",
        desc="the pickle round trip re-establishes change tracking: the `pickle` listener files EVERY value that is not None "
             "(an empty -- falsy -- container included) in the pickled state dictionary, and the `unpickle` listener links "
             "every filed value back to its parent (val._parents[state] = key) whenever the pickled dictionary has the entry")
def r6(ctx):
    lf = ctx.func(f"{MUT}::MutableBase._listen_on_attribute")
    nf = nested_functions(lf.node)
    regs = _listener_registrations(lf)
    pname, uname = regs.get("pickle", ("", {}))[0], regs.get("unpickle", ("", {}))[0]
    ctx.require(pname in nf and uname in nf, "pickle / unpickle listeners of _listen_on_attribute not found as local functions")

    # ---- writer
    pk = nf[pname]
    ctx.require(len(pk.args.args) >= 2, "pickle listener signature not understood")
    state, sd = pk.args.args[0].arg, pk.args.args[1].arg
    g = ctx.cfg(pk)
    env = single_defs(pk)
    v_names = _dict_value_locals(pk, env, state)
    ctx.require(v_names, f"{lf.key}: the pickle listener does not read the attribute's value from {state}.dict[key] in a way this rule understands")
    sds = {sd} | {n for n, v in env.items() if isinstance(v, ast.Name) and v.id == sd}
    files = _filing_nodes(pk, g, env, v_names, sds)
    key = f"{lf.key}:pickle:files-every-value"
    if not files:
        ctx.violation(key, f"the pickle listener never files the attribute's value in `{sd}`: after unpickling no value is linked "
                           f"to its parent again", lf.loc)
    else:
        fact = _none_fact(v_names)
        w = g.witness([g.entry], [g.exit], avoid=files, edge_ok=assuming(g, {"none": False}, fact, env))
        why = ""
        if w is not None:
            und = _undecided_tests(g, files, fact, env, {"none": False})
            why = ("a value that is not None can reach the end of the pickle listener without being filed in the pickled state "
                   "dictionary" + (f" (filing is conditional on {', '.join(und)})" if und else "") + ": e.g. an EMPTY MutableDict/"
                   "MutableList/MutableSet is falsy but still the attribute's value; the unpickle listener then never links it to its "
                   "parent (`_parents` is not pickled), and in-place changes of the unpickled object are not flushed")
        ctx.check(w is None, key, why, f"every non-None `{sorted(v_names)[0]}` is filed in {sd}", lf.loc, g.describe_path(w) if w else None)

    # ---- reader
    up = nf[uname]
    ctx.require(len(up.args.args) >= 2, "unpickle listener signature not understood")
    state, sd = up.args.args[0].arg, up.args.args[1].arg
    g = ctx.cfg(up)
    env = single_defs(up)
    sds = {sd} | {n for n, v in env.items() if isinstance(v, ast.Name) and v.id == sd}
    cenv = _const_env(lf, up)

    def has_fact(e):
        x = expand(e, env)
        if isinstance(x, ast.Compare) and len(x.ops) == 1 and isinstance(x.ops[0], (ast.In, ast.NotIn)) \
                and isinstance(x.comparators[0], ast.Name) and x.comparators[0].id in sds and _key_of(x.left, cenv, lf.module) is not None:
            return ("has", isinstance(x.ops[0], ast.In))
        neg = None
        if isinstance(x, ast.Compare) and len(x.ops) == 1 and isinstance(x.ops[0], (ast.Is, ast.IsNot)) \
                and isinstance(x.comparators[0], ast.Constant) and x.comparators[0].value is None:
            neg, x = isinstance(x.ops[0], ast.Is), x.left
        if isinstance(x, ast.Call) and isinstance(x.func, ast.Attribute) and x.func.attr == "get" and isinstance(x.func.value, ast.Name) \
                and x.func.value.id in sds and x.args and _key_of(x.args[0], cenv, lf.module) is not None:
            return ("has", not neg if neg is not None else True)
        return None

    loops = []          # (for statement, loop variable) over something taken from the pickled dictionary
    for n in walk_local(up):
        if isinstance(n, ast.For) and isinstance(n.target, ast.Name) and _rooted(expand(n.iter, env), sds):
            loops.append(n)
    key = f"{lf.key}:unpickle:links-every-filed-value"
    probs = []
    if not loops:
        probs.append(f"the unpickle listener does not iterate over the values filed in `{sd}`")
    heads = []
    for lp in loops:
        links = _parent_links(up, g, env, {lp.target.id}, {state})
        for h in g.nodes_for(lp):
            heads.append(h)
            w = g.witness([h], [h], avoid=links, edge_ok=no_exc, start_edge_ok=lambda a, b, l: l == "true")
            if w is not None or not links:
                probs.append(f"an iteration of `for {lp.target.id} in {unparse(lp.iter)[:50]}` can end without "
                             f"`{lp.target.id}._parents[{state}] = key`: that value stays untracked after unpickling")
    if loops and g.witness([g.entry], [g.exit], avoid=heads, edge_ok=assuming(g, {"has": True}, has_fact, env)) is not None:
        probs.append("although the pickled state dictionary has the entry, a path through the unpickle listener never reaches the "
                     "loop that re-links the filed values")
    ctx.check(not probs, key, "; ".join(probs), f"{len(loops)} loop(s) over the filed values, each iteration links", lf.loc)


# ----------------------------------------------------------------------------- C49-R7: installation reaches every mapped class
_INSTALL = ("associate_with_attribute", "_listen_on_attribute")
_GROW = {"add", "append", "setdefault", "update", "__setitem__"}


def _mapper_configured_hooks(ctx, m):
    """(key, nested FunctionDef, enclosing FuncInfo) of the local functions registered with
    `event.listen(Mapper, "mapper_configured", <fn>)` / `@event.listens_for(Mapper, "mapper_configured")` in ext/mutable.py"""
    out = []
    for f in ctx.index.all_functions(m):
        nf = nested_functions(f.node)
        for c in calls_in(f.node):
            if call_name(c) == "event.listen" and len(c.args) >= 3 and const_str(c.args[1]) == "mapper_configured" \
                    and isinstance(c.args[2], ast.Name) and c.args[2].id in nf:
                fn = nf[c.args[2].id]
                if not any(fn is x[1] for x in out):
                    out.append((f"{f.key}.{fn.name}", fn, f))
        for fn in nf.values():          # decorator form: @event.listens_for(Mapper, "mapper_configured")
            for d in fn.decorator_list:
                if isinstance(d, ast.Call) and call_name(d) == "event.listens_for" and len(d.args) >= 2 \
                        and const_str(d.args[1]) == "mapper_configured" and not any(fn is x[1] for x in out):
                    out.append((f"{f.key}.{fn.name}", fn, f))
    return out


def _flag_reads(test):
    """(receiver expr, key expr) of the look-ups a branch test makes: `R.get(K, ..)`, `R[K]`, `K in R`"""
    out = []
    for n in ast.walk(test):
        if isinstance(n, ast.Call) and isinstance(n.func, ast.Attribute) and n.func.attr == "get" and n.args:
            out.append((n.func.value, n.args[0]))
        elif isinstance(n, ast.Subscript):
            out.append((n.value, n.slice))
        elif isinstance(n, ast.Compare) and len(n.ops) == 1 and isinstance(n.ops[0], (ast.In, ast.NotIn)):
            out.append((n.comparators[0], n.left))
    return out


def _stores_into(fn, env):
    """(receiver, key) -- unparsed, locals expanded -- of the slots the function writes: `R[K] = v`, `R.add(K)`, `R.setdefault(K, ..)`"""
    out = set()
    for d, sub_, st in subscript_stores(fn):
        out.add((unparse(expand(sub_.value, env)), unparse(expand(sub_.slice, env))))
    for c in calls_in(fn):
        if isinstance(c.func, ast.Attribute) and c.func.attr in _GROW and c.args:
            out.add((unparse(expand(c.func.value, env)), unparse(expand(c.args[0], env))))
    return out


@R.rule("C49-R7", floor=3, template="T-KEY",
        desc="the mapper_configured hooks of ext.mutable install the change-tracking listeners for EVERY mapped class that has a "
             "matching attribute: a once-only flag that guards `associate_with_attribute(getattr(class_, prop.key))` has to be "
             "keyed by the mapped class / mapper it was applied for -- a flag stored on the Core Column (prop.expression.info, "
             "prop.columns[0].info), which all mappers of the same Table share, switches tracking off for every class but the first")
def r7(ctx):
    m = ctx.index.module(MUT)
    shared = set(load("orm_shared_core_accessors.json")["shared"])
    hooks = _mapper_configured_hooks(ctx, m)
    ctx.require(len(hooks) >= 2, f"only {len(hooks)} mapper_configured hooks found in {MUT}")
    for key, fn, outer in hooks:
        ctx.functions_analysed.add(outer.key)
        ps = [a.arg for a in fn.args.args]
        ctx.require(len(ps) >= 2, f"{key}: hook signature not understood")
        per_class = set(ps[:2])          # (mapper, class_)
        g = ctx.cfg(fn)
        env = single_defs(fn)
        installs = [c for c in calls_in(fn) if (call_name(c) or "").split(".")[-1] in _INSTALL]
        ctx.require(installs, f"{key}: no call of associate_with_attribute() / _listen_on_attribute() in the hook")
        written = _stores_into(fn, env)
        probs, flags = [], []
        for c in installs:
            for nid in g.nodes_containing(c)[:1]:
                for t, pol in g.edge_guards(nid):
                    te = expand(t, env)
                    for recv, k in _flag_reads(te):
                        rtxt = unparse(recv)
                        if (rtxt, unparse(k)) not in written:
                            continue                                   # a pure test (type match), not a test-and-set flag
                        names = {n.id for x in (recv, k) for n in ast.walk(x) if isinstance(n, ast.Name)}
                        attrs = [n.attr for n in ast.walk(recv) if isinstance(n, ast.Attribute)]
                        flags.append(rtxt)
                        if names & per_class:
                            continue                                   # keyed by the mapper / class it was applied for
                        hit = [a for a in attrs if a in shared]
                        ctx.require(hit, f"{key}: storage of the once-only flag `{rtxt}[{unparse(k)}]` not understood")
                        probs.append(f"the once-only flag `{rtxt}[{unparse(k)}]` lives on the Core object reached through `.{hit[0]}` "
                                     f"(the Table's Column: shared by every mapper of that Table) and is not keyed by "
                                     f"{' / '.join(sorted(per_class))}: the first mapped class sets it, a second class mapped to the same "
                                     f"Table (imperative mapping, or a re-mapping after clear_mappers()) finds it set and gets no "
                                     f"load/refresh/set/pickle/unpickle listeners -- its values are not coerced, in-place changes never "
                                     f"flag the parent and are never flushed")
        ctx.check(not probs, f"{key}:installs-for-every-class", "; ".join(sorted(set(probs))),
                  "no once-only flag" if not flags else f"flag keyed per class: {sorted(set(flags))}", outer.loc)


# ----------------------------------------------------------------------------- C49-R5: propagate reaches ALL descendants
EVENTS_MOD = "orm/events.py"
REFEED = {"extend", "append", "extendleft", "appendleft", "update", "add"}
POPS = {"pop", "popleft"}


def _in(node, region):
    return any(n is node for n in ast.walk(region))


def _walk_kind_of_def(ctx, f, flag_truthy=None, _depth=0):
    """Classify the descendant walk implemented by function/property `f`:
    ('transitive', how) | ('direct', why) | ('pruned', why) | (None, why-not-understood).
    Recognised closures: a worklist (`while S: v = S.pop(); ...; S.extend(<children of v>)`), self-recursion on every
    child (`for c in children: ...; yield from <c'>.f(True)`), or a loop over something that is itself a closure."""
    ctx.functions_analysed.add(f.key)
    fn = f.node
    g = ctx.cfg(f)
    pm = f.module.parents()
    # (1) worklist
    for w in [n for n in walk_local(fn) if isinstance(n, ast.While)]:
        r = _worklist(ctx, f, g, w)
        if r[0] is not None:
            return r
    # (2) self recursion
    flag = None
    rec = [c for c in calls_in(fn) if isinstance(c.func, ast.Attribute) and c.func.attr == f.name
           or isinstance(c.func, ast.Name) and c.func.id == f.name]
    if rec:
        probs = []
        for c in rec:
            nid = [i for i in g.nodes_containing(c)]
            if not nid:
                return (None, "recursive call not on the CFG")
            for a, pol in guard_atoms(g.edge_guards(nid[0])):
                if a in f.params and pol:
                    flag = a
                    continue
                probs.append(f"`{a}`" if pol else f"not `{a}`")
            # the flag handed down must stay truthy
            for i, a in enumerate(c.args):
                pi = i + (1 if f.cls is not None and isinstance(c.func, ast.Attribute) else 0)
                if pi < len(f.params) and f.params[pi] == flag:
                    if not ((isinstance(a, ast.Constant) and a.value is True) or (isinstance(a, ast.Name) and a.id == flag)):
                        return ("direct", f"the recursive call passes {flag}={unparse(a)}: the walk stops one level further down")
        if flag is not None and flag_truthy is not True:
            return ("direct", f"recursion is switched by `{flag}` and the caller does not pass a true constant")
        if probs:
            return ("pruned", f"the descent into a child's own subclasses happens only when " + " and ".join(sorted(set(probs)))
                    + ": a child that fails the test hides ALL of its descendants, although they may well pass it")
        return ("transitive", f"recursion on every child" + (f" under {flag}=True" if flag else ""))
    # (3) a loop over another closure
    loops = [n for n in walk_local(fn) if isinstance(n, (ast.For, ast.comprehension))]
    kinds = []
    for lp in loops:
        k = _iter_kind(ctx, f, lp.iter, flag_truthy, _depth + 1)
        kinds.append(k)
    for k in kinds:
        if k[0] == "transitive":
            return k
    for k in kinds:
        if k[0] in ("direct", "pruned"):
            return k
    return (None, "no worklist, recursion or loop over a known closure")


def _worklist(ctx, f, g, w):
    t = w.test
    if isinstance(t, ast.Call) and call_name(t) == "len" and t.args:
        t = t.args[0]
    if not isinstance(t, ast.Name):
        return (None, "while test is not the worklist")
    S = t.id
    popped = None
    for n in ast.walk(w):
        if isinstance(n, ast.Assign) and isinstance(n.value, ast.Call) and isinstance(n.value.func, ast.Attribute) \
                and n.value.func.attr in POPS and isinstance(n.value.func.value, ast.Name) and n.value.func.value.id == S \
                and isinstance(n.targets[0], ast.Name):
            popped = n.targets[0].id
    if popped is None:
        return (None, "no element is popped from the worklist")
    refeeds = [c for c in calls_in(w) if isinstance(c.func, ast.Attribute) and c.func.attr in REFEED
               and isinstance(c.func.value, ast.Name) and c.func.value.id == S
               and c.args and any(isinstance(x, ast.Name) and x.id == popped for x in ast.walk(c.args[0]))]
    if not refeeds:
        return ("direct", f"the worklist `{S}` is never re-fed with the children of the popped element `{popped}`: "
                          f"only the classes seeded before the loop are visited")
    seen_sets = {c.func.value.id for c in calls_in(w) if isinstance(c.func, ast.Attribute) and c.func.attr == "add"
                 and isinstance(c.func.value, ast.Name) and c.func.value.id != S}
    bad = []
    for c in refeeds:
        for nid in g.nodes_containing(c)[:1]:
            for tst, pol in g.edge_guards(nid):
                if not _in(tst, w) or tst is w.test:
                    continue
                for a, apol in test_atoms(tst, pol):
                    if not apol and any(a == f"{popped} in {sname}" for sname in seen_sets):
                        continue
                    bad.append(f"`{a}`" if apol else f"not `{a}`")
    if bad:
        return ("pruned", "the children of a visited class are queued only when " + " and ".join(sorted(set(bad)))
                + ": a class that fails the test hides all of its descendants")
    return ("transitive", f"worklist `{S}` re-fed with the children of every popped element")


def _iter_kind(ctx, f, it, flag_truthy=None, _depth=0):
    """Classify an iterable expression used to reach descendants from inside function `f`."""
    if _depth > 8:
        return (None, "resolution too deep")
    ix = ctx.index
    if isinstance(it, ast.Name):
        vals = [(n.value, n) for n in walk_local(f.node) if isinstance(n, ast.Assign)
                and any(isinstance(tg, ast.Name) and tg.id == it.id for tg in n.targets)]
        if not vals:
            return (None, f"`{it.id}` is not a local with a visible definition")
        if flag_truthy is not None:
            # `if recursive: xs = <closure> else: xs = <direct>`: keep the definitions the caller's flag selects
            pm = f.module.parents()
            keep = []
            for v, st in vals:
                atoms = guard_atoms(lexical_guards(pm, st, stop=f.node))
                if any(a in f.params and pol != flag_truthy for a, pol in atoms):
                    continue
                keep.append((v, st))
            vals = keep or vals
        ks = [_iter_kind(ctx, f, v, flag_truthy, _depth + 1) for v, _ in vals]
        for k in ks:
            if k[0] != "transitive":
                return k
        return ks[0]
    if isinstance(it, ast.Call):
        nm = call_name(it) or ""
        last = nm.split(".")[-1]
        if last == "__subclasses__":
            return ("direct", f"`{unparse(it)}` yields the direct subclasses only")
        if last in ("list", "tuple", "iter", "reversed", "sorted", "set") and it.args:
            return _iter_kind(ctx, f, it.args[0], flag_truthy, _depth + 1)
        tgt = ix.resolve(f.module, nm) if nm else None
        cands = []
        if tgt is not None and hasattr(tgt, "node") and isinstance(getattr(tgt, "node"), FuncNode):
            cands = [tgt]
        elif isinstance(it.func, ast.Attribute):
            cands = [c.methods[last] for c in ix.all_classes() if last in c.methods and not c.methods[last].type_only
                     and c.module.relpath.startswith(("orm/", "event/", "util/"))]
        if not cands:
            return (None, f"`{unparse(it)}`: callee not found")
        out = None
        for cf in cands:
            ft = None
            for i, a in enumerate(it.args):
                if isinstance(a, ast.Constant) and isinstance(a.value, bool):
                    ft = a.value
            for kwd in it.keywords:
                if isinstance(kwd.value, ast.Constant) and isinstance(kwd.value.value, bool):
                    ft = kwd.value.value
            k = _walk_kind_of_def(ctx, cf, ft, _depth + 1)
            if k[0] == "direct" and ft is False:
                k = ("direct", f"`{unparse(it)}` asks {cf.qualname} for a non-recursive walk: direct subclasses only")
            k = (k[0], k[1], cf.key)
            if k[0] != "transitive":
                return k
            out = k
        return out
    if isinstance(it, ast.Attribute):
        cands = [c.methods[it.attr] for c in ix.all_classes() if it.attr in c.methods and not c.methods[it.attr].type_only
                 and c.module.relpath.startswith(("orm/", "event/", "util/"))]
        if not cands:
            return (None, f"`{unparse(it)}`: no definition of .{it.attr} found")
        out = None
        for cf in cands:
            k = _walk_kind_of_def(ctx, cf, None, _depth + 1)
            k = (k[0], k[1], cf.key)
            if k[0] != "transitive":
                return k
            out = k
        return out
    return (None, f"`{unparse(it)}`: iterable not understood")


@R.rule("C49-R5", floor=8, template="T-SIBLING",
        desc="propagate=True reaches ALL descendants: every ORM Events._listen hook that takes `propagate` registers the "
             "listener, under `propagate`, on a transitive-closure walk of the target's subclasses (recursive "
             "subclass_managers / self_and_descendants / a re-fed worklist / issubclass at dispatch time), and every "
             "walker they use really is a closure (re-feeds or recurses on EVERY child, not only on the reported ones)")
def r5(ctx):
    ix = ctx.index
    m = ix.module(EVENTS_MOD)
    pm = m.parents()
    fam = [f for f in ix.all_functions(m) if f.name == "_listen" and "propagate" in f.params and not f.type_only]
    ctx.require(len(fam) >= 4, f"only {len(fam)} _listen hooks with a propagate parameter found in {EVENTS_MOD}")
    walkers = {}
    for f in fam:
        ctx.functions_analysed.add(f.key)
        key = f"{f.key}:propagate-walk"
        g = ctx.cfg(f)
        loops = []
        for n in walk_local(f.node):
            if isinstance(n, (ast.For, ast.While)):
                atoms = guard_atoms(lexical_guards(pm, n, stop=f.node))
                for nid in g.nodes_for(n)[:1]:          # `if not propagate: return` before the loop counts as well
                    atoms += guard_atoms(g.edge_guards(nid))
                if ("propagate", True) in atoms:
                    loops.append(n)
        if not loops:
            # dispatch-time filter: issubclass() under `propagate` inside the wrapper
            hit = False
            for nf in nested_functions(f.node).values():
                for c in calls_in(nf):
                    if call_name(c) == "issubclass":
                        par = pm.get(c)
                        while par is not None and not isinstance(par, (ast.If, ast.IfExp)):
                            par = pm.get(par)
                        if par is not None and ("propagate", True) in test_atoms(par.test, True):
                            hit = True
            ctx.check(hit, key, "the hook takes `propagate` but neither walks the target's subclasses under it nor filters "
                                "with issubclass() at dispatch time: the flag has no effect, subclasses never see the listener",
                      "issubclass(target_cls, listen_cls) at dispatch time (transitive by definition)", f.loc)
            continue
        outer = [l for l in loops if not any(l is not o and _in(l, o) for o in loops)]
        res = None
        for lp in outer:
            regs = [c for c in calls_in(lp) if isinstance(c.func, ast.Attribute) and c.func.attr in ("base_listen", "listen")
                    and "with_dispatch_target" in unparse(c.func.value)]
            if not regs:
                continue
            if isinstance(lp, ast.While):
                k = _worklist(ctx, f, g, lp)
            else:
                k = _iter_kind(ctx, f, lp.iter, None)
            res = (lp, k)
            break
        if res is None:
            ctx.violation(key, "under `propagate` no loop registers the listener on the subclasses' dispatch targets "
                               "(event_key.with_dispatch_target(<sub>).base_listen/listen)", f.loc)
            continue
        lp, k = res
        src = "while-worklist" if isinstance(lp, ast.While) else unparse(lp.iter)
        ctx.require(k[0] is not None, f"{key}: descendant walk `{src}` not understood: {k[1]}")
        if len(k) > 2:
            walkers[k[2]] = None
        if k[0] == "transitive":
            ctx.ok(key, f"{src}: {k[1]}")
        elif k[0] == "direct" or len(k) < 3:
            ctx.violation(key, f"propagate=True registers the listener on `{src}` only -- {k[1]}; a listener installed after the "
                               f"hierarchy exists (ext.mutable installs load/refresh/pickle/unpickle at mapper_configured time) "
                               f"never reaches grandchild classes: their reloaded / unpickled values are not coerced or linked "
                               f"to the parent and in-place changes are never flushed", f.loc)
        else:
            # the hook is fine, the walker it relies on is not: reported once, on the walker
            ctx.ok(key, f"{src} (walker reported separately)")
    # the walkers themselves (plus util.walk_subclasses, used by the class-level dispatch of event/attr.py)
    ws = ix.resolve(ix.module("event/attr.py"), "util.walk_subclasses")
    ctx.require(ws is not None and hasattr(ws, "node"), "util.walk_subclasses not found")
    walkers[ws.key] = None
    for c in ix.all_classes():
        for nm in ("subclass_managers", "self_and_descendants"):
            if nm in c.methods and c.module.relpath.startswith("orm/") and not c.methods[nm].type_only:
                walkers[c.methods[nm].key] = None
    for wk in sorted(walkers):
        wf = ix.func(wk)
        k = _walk_kind_of_def(ctx, wf, True)
        ctx.require(k[0] is not None, f"{wk}: descendant walker not understood: {k[1]}")
        ctx.check(k[0] == "transitive", f"{wk}:closure",
                  f"{wf.qualname} does not visit every descendant: {k[1]} (e.g. an `__abstract__` / unmapped intermediate class "
                  f"between two mapped classes); propagate=True listeners installed later -- ext.mutable's load/refresh/"
                  f"pickle/unpickle hooks -- never reach the classes below it", k[1], wf.loc)


# ---------------------------------------------------------------------------------- self-test
R.mutant("dict-popitem-override-removed", MUT,
         sub("    def popitem(self) -> Tuple[_KT, _VT]:\n        result = dict.popitem(self)\n        self.changed()\n        return result\n\n", ""),
         "C49-R1")
R.mutant("set-discard-override-removed", MUT,
         sub("    def discard(self, elem: _T) -> None:  # type: ignore[override,unused-ignore] # noqa: E501\n        set.discard(self, elem)\n        self.changed()\n\n", ""),
         "C49-R1")
R.mutant("list-reverse-override-removed", MUT,
         sub("    def reverse(self) -> None:\n        list.reverse(self)\n        self.changed()\n\n", ""),
         "C49-R1")
R.mutant("list-insert-no-changed", MUT,
         sub("        list.insert(self, i, x)\n        self.changed()\n", "        list.insert(self, i, x)\n"), "C49-R2")
R.mutant("dict-update-changed-only-if-args", MUT,
         sub("        dict.update(self, *a, **kw)\n        self.changed()\n", "        dict.update(self, *a, **kw)\n        if a:\n            self.changed()\n"),
         "C49-R2")
R.mutant("set-pop-loses-result", MUT,
         sub("        result = set.pop(self, *arg)\n        self.changed()\n        return result\n", "        result = set.pop(self, *arg)\n        self.changed()\n        return None\n"),
         "C49-R2")
R.mutant("set-iand-returns-none", MUT,
         sub("        self.intersection_update(other)\n        return self\n", "        self.intersection_update(other)\n"), "C49-R2")
R.mutant("list-changed-before-mutation", MUT,
         sub("        list.remove(self, i)\n        self.changed()\n", "        self.changed()\n        list.remove(self, i)\n"), "C49-R2")
R.mutant("dict-getstate-returns-self-dict", MUT,
         sub("    def __getstate__(self) -> Dict[_KT, _VT]:\n        return dict(self)\n", "    def __getstate__(self) -> Dict[_KT, _VT]:\n        return self.__dict__\n"), "C49-R3")
R.mutant("set-setstate-noop", MUT,
         sub("    def __setstate__(self, state: Iterable[_T]) -> None:\n        self.update(state)\n", "    def __setstate__(self, state: Iterable[_T]) -> None:\n        pass\n"),
         "C49-R3")
R.mutant("unpickle-key-typo", MUT,
         sub("            if \"ext.mutable.values\" in state_dict:\n                collection = state_dict[\"ext.mutable.values\"]\n",
             "            if \"ext.mutable.value\" in state_dict:\n                collection = state_dict[\"ext.mutable.value\"]\n"),
         "C49-R3")
R.mutant("changed-flags-first-parent-only", MUT,
         sub("        for parent, key in self._parents.items():\n            flag_modified(parent.obj(), key)\n",
             "        for parent, key in self._parents.items():\n            if parent.modified:\n                flag_modified(parent.obj(), key)\n"),
         "C49-R4")
R.mutant("set-listener-no-retval", MUT,
         sub("            attribute, \"set\", set_, raw=True, retval=True, propagate=True\n", "            attribute, \"set\", set_, raw=True, propagate=True\n"),
         "C49-R4")
R.mutant("load-listener-not-propagated", MUT,
         sub("        event.listen(parent_cls, \"load\", load, raw=True, propagate=True)\n", "        event.listen(parent_cls, \"load\", load, raw=True)\n"),
         "C49-R4")
R.mutant("set-does-not-link-parent", MUT,
         sub("            if value is not None:\n                value._parents[target] = key\n", "            if value is not None:\n                pass\n"),
         "C49-R4")
# benign
R.mutant("benign-rename-result", MUT,
         sub("        result = dict.popitem(self)\n        self.changed()\n        return result\n", "        item = dict.popitem(self)\n        self.changed()\n        return item\n"),
         None)
R.mutant("benign-ior-calls-builtin", MUT,
         sub("        self.update(other)\n        return self\n\n    def __iand__",
             "        try:\n            set.update(self, other)\n        finally:\n            self.changed()\n        return self\n\n    def __iand__"),
         None)
R.mutant("benign-extra-listener", MUT,
         sub("        event.listen(parent_cls, \"pickle\", pickle, raw=True, propagate=True)\n",
             "        event.listen(parent_cls, \"pickle\", pickle, raw=True, propagate=True)\n        event.listen(parent_cls, \"expire\", load_attrs, raw=True, propagate=True)\n"),
         None)

# ---- adversarial seeds (str-s)
POP = "            result = dict.pop(self, *arg)\n            self.changed()\n            return result\n"
R.mutant("seed1-dict-pop-changed-unless-default-came-back", MUT,
         sub(POP, "            result = dict.pop(self, *arg)\n            if len(arg) < 2 or result is not arg[1]:\n"
                  "                self.changed()\n            return result\n"), "C49-R2")
R.mutant("list-pop-changed-only-if-result-truthy", MUT,
         sub("        result = list.pop(self, *arg)\n        self.changed()\n        return result\n",
             "        result = list.pop(self, *arg)\n        if result is not None:\n            self.changed()\n        return result\n"), "C49-R2")
# the sound version of the same optimisation: decided on the PRE-mutation state, before the builtin runs
R.mutant("benign-dict-pop-absent-key-returns-default-early", MUT,
         sub(POP, "            if len(arg) > 1 and arg[0] not in self:\n                return arg[1]\n"
                  "            result = dict.pop(self, *arg)\n            self.changed()\n            return result\n"), None)
EV = "orm/events.py"
R.mutant("seed2-instance-listen-propagates-to-direct-subclasses-only", EV,
         sub("            for mgr in target.subclass_managers(True):\n", "            for mgr in target.subclass_managers(False):\n"), "C49-R5")
R.mutant("attribute-listen-propagates-to-direct-subclasses-only", EV,
         sub("            for mgr in manager.subclass_managers(True):", "            for mgr in manager.subclass_managers(False):"), "C49-R5")
R.mutant("instance-listen-walks-dunder-subclasses", EV,
         sub("            for mgr in target.subclass_managers(True):\n                event_key.with_dispatch_target(mgr).base_listen(propagate=True)\n",
             "            for sub_ in target.class_.__subclasses__():\n                mgr = instrumentation.opt_manager_of_class(sub_)\n"
             "                if mgr is not None:\n                    event_key.with_dispatch_target(mgr).base_listen(propagate=True)\n"), "C49-R5")
R.mutant("hold-listen-worklist-not-refed", EV,
         sub("                    subclass = stack.pop(0)\n                    stack.extend(subclass.__subclasses__())\n",
             "                    subclass = stack.pop(0)\n"), "C49-R5")
R.mutant("hold-listen-worklist-refed-only-for-resolved", EV,
         sub("                    subclass = stack.pop(0)\n                    stack.extend(subclass.__subclasses__())\n                    subject = target.resolve(subclass)\n                    if subject is not None:\n",
             "                    subclass = stack.pop(0)\n                    subject = target.resolve(subclass)\n                    if subject is not None:\n                        stack.extend(subclass.__subclasses__())\n"), "C49-R5")
R.mutant("mapper-descendants-worklist-not-refed", "orm/mapper.py",
         sub("            descendants.append(item)\n            stack.extend(item._inheriting_mappers)\n", "            descendants.append(item)\n"), "C49-R5")
R.mutant("subclass-managers-recursion-not-recursive", "orm/instrumentation.py",
         sub("            classes = util.walk_subclasses(self.class_)\n", "            classes = self.class_.__subclasses__()\n"), "C49-R5")
R.mutant("walk-subclasses-not-refed", "util/langhelpers.py",
         sub("            seen.add(cls)\n        stack.extend(cls.__subclasses__())\n        yield cls\n", "            seen.add(cls)\n        yield cls\n"), "C49-R5")
R.mutant("benign-hold-listen-rename-worklist", EV,
         sub("                stack = list(target.class_.__subclasses__())\n                while stack:\n                    subclass = stack.pop(0)\n                    stack.extend(subclass.__subclasses__())\n",
             "                todo = list(target.class_.__subclasses__())\n                while todo:\n                    subclass = todo.pop(0)\n                    todo.extend(subclass.__subclasses__())\n"), None)
R.mutant("benign-instance-listen-materialises-walk", EV,
         sub("            for mgr in target.subclass_managers(True):\n", "            managers = list(target.subclass_managers(True))\n            for mgr in managers:\n"), None)
# (the repair of the C49-R5 finding -- walk every class, report the managed ones -- is in the tree now: its spellings)
R.mutant("benign-subclass-managers-inverted-flag-test", "orm/instrumentation.py",
         sub("        if recursive:\n            # walk the whole class hierarchy: an intermediate class that has\n            # no manager of its own (``__abstract__``, plain mixin subclass)\n"
             "            # must not hide the managed classes below it\n            classes = util.walk_subclasses(self.class_)\n        else:\n            classes = self.class_.__subclasses__()\n",
             "        if not recursive:\n            classes = self.class_.__subclasses__()\n        else:\n            classes = util.walk_subclasses(self.class_)\n"), None)
R.mutant("benign-instance-listen-early-return-when-not-propagating", EV,
         sub("        if propagate:\n            for mgr in target.subclass_managers(True):\n                event_key.with_dispatch_target(mgr).base_listen(propagate=True)\n",
             "        if not propagate:\n            return\n        for mgr in target.subclass_managers(True):\n            event_key.with_dispatch_target(mgr).base_listen(propagate=True)\n"), None)


# ---- rob-G2: benign refactoring families (stored diffs rfG_13 / rfG_15 and neighbours) with their breaking twins
_PICKLE = (
    "            val = state.dict.get(key, None)\n"
    "            if val is not None:\n"
    "                if \"ext.mutable.values\" not in state_dict:\n"
    "                    state_dict[\"ext.mutable.values\"] = defaultdict(list)\n"
    "                state_dict[\"ext.mutable.values\"][key].append(val)\n"
)
_PICKLE_HEAD = "        def pickle(\n"
_PICKLE_EARLY = (
    "            val = state.dict.get(key, None)\n"
    "            if val is None:\n"
    "                return\n"
    "            if pickle_key not in state_dict:\n"
    "                state_dict[pickle_key] = defaultdict(list)\n"
    "            state_dict[pickle_key][key].append(val)\n"
)
_UNPICKLE = (
    "            if \"ext.mutable.values\" in state_dict:\n"
    "                collection = state_dict[\"ext.mutable.values\"]\n"
)
R.mutant("benign-pickle-key-closure-constant", MUT, chain(
    sub(_PICKLE_HEAD, "        pickle_key = \"ext.mutable.values\"\n\n" + _PICKLE_HEAD),
    sub(_PICKLE, _PICKLE_EARLY),
    sub(_UNPICKLE, "            if pickle_key in state_dict:\n                collection = state_dict[pickle_key]\n"),
    sub("                    for val in state_dict[\"ext.mutable.values\"][key]:\n", "                    for val in state_dict[pickle_key][key]:\n"),
), None)
R.mutant("benign-pickle-key-local-constant-and-get", MUT, chain(
    sub(_UNPICKLE, "            k = \"ext.mutable.values\"\n            if state_dict.get(k) is not None:\n                collection = state_dict[k]\n"),
    sub("                    for val in state_dict[\"ext.mutable.values\"][key]:\n", "                    for val in collection[key]:\n"),
), None)
R.mutant("pickle-key-constants-disagree", MUT, chain(
    sub(_PICKLE_HEAD, "        pickle_key = \"ext.mutable.values\"\n        unpickle_key = \"ext.mutable.value\"\n\n" + _PICKLE_HEAD),
    sub(_PICKLE, _PICKLE_EARLY),
    sub(_UNPICKLE, "            if unpickle_key in state_dict:\n                collection = state_dict[unpickle_key]\n"),
    sub("                    for val in state_dict[\"ext.mutable.values\"][key]:\n", "                    for val in state_dict[unpickle_key][key]:\n"),
), "C49-R3")
_CHANGED = "        for parent, key in self._parents.items():\n            flag_modified(parent.obj(), key)\n"
R.mutant("benign-changed-renamed-loop-vars-and-locals", MUT, sub(
    _CHANGED, "        for parent_state, attr_key in self._parents.items():\n            parent_obj = parent_state.obj()\n            flag_modified(parent_obj, attr_key)\n"), None)
R.mutant("benign-changed-loop-over-keys-materialised", MUT, sub(
    _CHANGED, "        if not self._parents:\n            return\n        for parent in list(self._parents):\n            flag_modified(parent.obj(), self._parents[parent])\n"), None)
R.mutant("benign-changed-through-helper", MUT, sub(
    _CHANGED, "        for parent, key in self._parents.items():\n            self._flag_parent(parent, key)\n\n"
              "    def _flag_parent(self, parent_state: Any, attr_key: str) -> None:\n        flag_modified(parent_state.obj(), attr_key)\n"), None)
R.mutant("changed-flags-the-state-not-the-instance", MUT, sub(
    _CHANGED, "        for parent_state, attr_key in self._parents.items():\n            parent_obj = parent_state\n            flag_modified(parent_obj, attr_key)\n"), "C49-R4")
R.mutant("changed-helper-skips-unloaded-parents", MUT, sub(
    _CHANGED, "        for parent, key in self._parents.items():\n            self._flag_parent(parent, key)\n\n"
              "    def _flag_parent(self, parent_state: Any, attr_key: str) -> None:\n        if attr_key in parent_state.dict:\n            flag_modified(parent_state.obj(), attr_key)\n"), "C49-R4")
_SET_BODY = (
    "            if not isinstance(value, cls):\n"
    "                value = cls.coerce(key, value)\n"
    "            if value is not None:\n"
    "                value._parents[target] = key\n"
)
R.mutant("benign-set-listener-flag-local-inverted-alias", MUT, sub(
    _SET_BODY,
    "            is_ours = isinstance(value, cls)\n"
    "            if not is_ours:\n"
    "                value = cls.coerce(key, value)\n"
    "            if value is None:\n"
    "                pass\n"
    "            else:\n"
    "                parents = value._parents\n"
    "                parents[target] = key\n"), None)
R.mutant("set-listener-links-before-coercing", MUT, sub(
    _SET_BODY,
    "            if value is not None:\n"
    "                value._parents[target] = key\n"
    "            if not isinstance(value, cls):\n"
    "                value = cls.coerce(key, value)\n"), "C49-R4")
R.mutant("set-listener-coerces-only-own-instances", MUT, sub(
    _SET_BODY,
    "            is_ours = isinstance(value, cls)\n"
    "            if is_ours:\n"
    "                value = cls.coerce(key, value)\n"
    "            if value is not None:\n"
    "                value._parents[target] = key\n"), "C49-R4")
R.mutant("set-listener-old-value-unlinked-only-when-new-is-none", MUT, sub(
    "            if isinstance(oldvalue, cls):\n                oldvalue._parents.pop(inspect(target), None)\n",
    "            if isinstance(oldvalue, cls) and value is None:\n                oldvalue._parents.pop(inspect(target), None)\n"), "C49-R4")
_LOAD_BODY = (
    "            val = state.dict.get(key, None)\n"
    "            if val is not None:\n"
    "                if coerce:\n"
    "                    val = cls.coerce(key, val)\n"
    "                    assert val is not None\n"
    "                    state.dict[key] = val\n"
    "                val._parents[state] = key\n"
)
R.mutant("benign-load-listener-early-return", MUT, sub(
    _LOAD_BODY,
    "            val = state.dict.get(key, None)\n"
    "            if val is None:\n"
    "                return\n"
    "            if coerce:\n"
    "                val = cls.coerce(key, val)\n"
    "                assert val is not None\n"
    "                state.dict[key] = val\n"
    "            val._parents[state] = key\n"), None)
R.mutant("load-listener-links-only-coerced-values", MUT, sub(
    _LOAD_BODY,
    "            val = state.dict.get(key, None)\n"
    "            if val is None:\n"
    "                return\n"
    "            if not coerce:\n"
    "                return\n"
    "            val = cls.coerce(key, val)\n"
    "            assert val is not None\n"
    "            state.dict[key] = val\n"
    "            val._parents[state] = key\n"), "C49-R4")
R.mutant("load-listener-does-not-store-coerced-value-back", MUT, sub(
    "                    assert val is not None\n                    state.dict[key] = val\n", "                    assert val is not None\n"), "C49-R4")
_REGS = (
    "        event.listen(parent_cls, \"pickle\", pickle, raw=True, propagate=True)\n"
    "        event.listen(\n"
    "            parent_cls, \"unpickle\", unpickle, raw=True, propagate=True\n"
    "        )\n"
)
R.mutant("benign-pickle-listeners-registered-from-a-table", MUT, sub(
    _REGS,
    "        for event_name, handler in (\n            (\"pickle\", pickle),\n            (\"unpickle\", unpickle),\n        ):\n"
    "            event.listen(\n                parent_cls, event_name, handler, raw=True, propagate=True\n            )\n"), None)
R.mutant("listener-table-lacks-unpickle", MUT, sub(
    _REGS,
    "        for event_name, handler in ((\"pickle\", pickle),):\n"
    "            event.listen(\n                parent_cls, event_name, handler, raw=True, propagate=True\n            )\n"), "C49-R4")

# C49-R2 through an extracted helper
_POPITEM = "        result = dict.popitem(self)\n        self.changed()\n        return result\n"
_NOTIFY = "    def _changed_and_return(self, result: Any) -> Any:\n        self.changed()\n        return result\n\n"
_POPITEM_DEF = "    def popitem(self) -> Tuple[_KT, _VT]:\n"
R.mutant("benign-popitem-changed-through-helper", MUT, chain(
    sub(_POPITEM, "        return self._changed_and_return(dict.popitem(self))\n"),
    sub(_POPITEM_DEF, _NOTIFY + _POPITEM_DEF),
), None)
R.mutant("popitem-helper-forgets-changed", MUT, chain(
    sub(_POPITEM, "        return self._changed_and_return(dict.popitem(self))\n"),
    sub(_POPITEM_DEF, "    def _changed_and_return(self, result: Any) -> Any:\n        return result\n\n" + _POPITEM_DEF),
), "C49-R2")
R.mutant("benign-list-insert-notify-helper", MUT, chain(
    sub("        list.insert(self, i, x)\n        self.changed()\n", "        list.insert(self, i, x)\n        self._notify()\n"),
    sub("    def reverse(self) -> None:\n", "    def _notify(self) -> None:\n        self.changed()\n\n    def reverse(self) -> None:\n"),
), None)


# ---- round-2 adversarial seeds (str2-u): set_ failure atomicity (C49-R4), pickle round trip (C49-R6)
_SET_TAIL = (
    "            if not isinstance(value, cls):\n"
    "                value = cls.coerce(key, value)\n"
    "            if value is not None:\n"
    "                value._parents[target] = key\n"
    "            if isinstance(oldvalue, cls):\n"
    "                oldvalue._parents.pop(inspect(target), None)\n"
)
_UNLINK = "            if isinstance(oldvalue, cls):\n                oldvalue._parents.pop(inspect(target), None)\n"
_COERCE = "            if not isinstance(value, cls):\n                value = cls.coerce(key, value)\n"
_LINK = "            if value is not None:\n                value._parents[target] = key\n"
_SAME = "            if value is oldvalue:\n                return value\n\n"
R.mutant("seed3-set-listener-unlinks-old-before-coerce-can-reject", MUT, sub(_SET_TAIL, _UNLINK + _COERCE + _LINK), "C49-R4")
R.mutant("set-listener-unlinks-old-through-alias-before-coerce", MUT, sub(
    _SET_TAIL,
    "            old_is_ours = isinstance(oldvalue, cls)\n"
    "            if old_is_ours:\n"
    "                old_parents = oldvalue._parents\n"
    "                old_parents.pop(inspect(target), None)\n" + _COERCE + _LINK), "C49-R4")
R.mutant("set-listener-no-same-value-shortcut", MUT, sub(_SAME, ""), "C49-R4")
# the same reordering done right: the old value goes only once the new one was accepted
R.mutant("benign-set-listener-unlinks-old-after-coerce-before-link", MUT, sub(_SET_TAIL, _COERCE + _UNLINK + _LINK), None)
R.mutant("benign-set-listener-no-shortcut-unlink-then-link", MUT, chain(sub(_SAME, ""), sub(_SET_TAIL, _COERCE + _UNLINK + _LINK)), None)
R.mutant("benign-set-listener-unlink-early-return-alias", MUT, sub(
    _SET_TAIL,
    _COERCE + _LINK +
    "            if not isinstance(oldvalue, cls):\n"
    "                return value\n"
    "            old_parents = oldvalue._parents\n"
    "            old_parents.pop(inspect(target), None)\n"), None)

_PICKLE_SETDEFAULT = (
    "            val = state.dict.get(key)\n"
    "            if {test}:\n"
    "                state_dict.setdefault(\n"
    "                    \"ext.mutable.values\", defaultdict(list)\n"
    "                )[key].append(val)\n"
)
R.mutant("seed4-pickle-listener-skips-falsy-values", MUT, sub(_PICKLE, _PICKLE_SETDEFAULT.format(test="val")), "C49-R6")
R.mutant("pickle-listener-files-only-when-it-creates-the-entry", MUT, sub(
    _PICKLE,
    "            val = state.dict.get(key, None)\n"
    "            if val is not None:\n"
    "                if \"ext.mutable.values\" not in state_dict:\n"
    "                    state_dict[\"ext.mutable.values\"] = defaultdict(list)\n"
    "                    state_dict[\"ext.mutable.values\"][key].append(val)\n"), "C49-R6")
R.mutant("pickle-listener-early-return-on-falsy", MUT, sub(
    _PICKLE,
    "            val = state.dict.get(key, None)\n"
    "            if not val:\n"
    "                return\n"
    "            bucket = state_dict.setdefault(\"ext.mutable.values\", defaultdict(list))\n"
    "            bucket[key].append(val)\n"), "C49-R6")
_UNPICKLE_LOOP = (
    "                    for val in state_dict[\"ext.mutable.values\"][key]:\n"
    "                        val._parents[state] = key\n"
)
R.mutant("unpickle-listener-skips-falsy-values", MUT, sub(
    _UNPICKLE_LOOP,
    "                    for val in state_dict[\"ext.mutable.values\"][key]:\n"
    "                        if val:\n"
    "                            val._parents[state] = key\n"), "C49-R6")
R.mutant("unpickle-listener-relinks-legacy-format-only", MUT, sub(
    _UNPICKLE_LOOP,
    "                    for val in state_dict[\"ext.mutable.values\"][key]:\n"
    "                        pass\n"), "C49-R6")
_UNPICKLE_ALL = (
    "            if \"ext.mutable.values\" in state_dict:\n"
    "                collection = state_dict[\"ext.mutable.values\"]\n"
    "                if isinstance(collection, list):\n"
    "                    # legacy format\n"
    "                    for val in collection:\n"
    "                        val._parents[state] = key\n"
    "                else:\n" + _UNPICKLE_LOOP
)
R.mutant("unpickle-listener-inverted-presence-test", MUT, sub(
    _UNPICKLE_ALL,
    "            if \"ext.mutable.values\" in state_dict:\n"
    "                return\n"
    "            collection = state_dict.get(\"ext.mutable.values\", {})\n"
    "            values = collection if isinstance(collection, list) else collection.get(key, ())\n"
    "            for val in values:\n"
    "                val._parents[state] = key\n"), "C49-R6")
R.mutant("benign-pickle-listener-setdefault-one-liner", MUT, sub(_PICKLE, _PICKLE_SETDEFAULT.format(test="val is not None")), None)
R.mutant("benign-pickle-listener-early-return-bucket-alias", MUT, sub(
    _PICKLE,
    "            val = state.dict.get(key, None)\n"
    "            if val is None:\n"
    "                return\n"
    "            bucket = state_dict.setdefault(\"ext.mutable.values\", defaultdict(list))\n"
    "            per_key = bucket[key]\n"
    "            per_key.append(val)\n"), None)
R.mutant("benign-pickle-listener-flag-local-inverted", MUT, sub(
    _PICKLE,
    "            val = state.dict.get(key, None)\n"
    "            missing = val is None\n"
    "            if missing:\n"
    "                pass\n"
    "            else:\n"
    "                if \"ext.mutable.values\" not in state_dict:\n"
    "                    state_dict[\"ext.mutable.values\"] = defaultdict(list)\n"
    "                state_dict[\"ext.mutable.values\"][key].append(val)\n"), None)
R.mutant("benign-unpickle-listener-early-return-single-loop", MUT, sub(
    _UNPICKLE_ALL,
    "            if \"ext.mutable.values\" not in state_dict:\n"
    "                return\n"
    "            collection = state_dict[\"ext.mutable.values\"]\n"
    "            values = collection if isinstance(collection, list) else collection[key]\n"
    "            for val in values:\n"
    "                val._parents[state] = key\n"), None)
R.mutant("benign-unpickle-listener-get-and-none-test", MUT, sub(
    _UNPICKLE_ALL,
    "            collection = state_dict.get(\"ext.mutable.values\")\n"
    "            if collection is not None:\n"
    "                legacy = isinstance(collection, list)\n"
    "                for val in list(collection if legacy else collection[key]):\n"
    "                    val._parents[state] = key\n"), None)

# C49-R2 partial failure (seed-agent observation, round 2): changed() is owed on the exceptional exit of a builtin that consumes
# an iterable element by element
_IADD = "        self.extend(x)\n        return self\n"
R.mutant("list-iadd-calls-builtin-changed-only-on-success", MUT,
         sub(_IADD, "        list.__iadd__(self, x)\n        self.changed()\n        return self\n"), "C49-R2")
R.mutant("dict-ior-calls-builtin-changed-only-on-success", MUT,
         sub("        self.update(other)\n        return self\n\n    if TYPE_CHECKING:",
             "        dict.__ior__(self, other)\n        self.changed()\n        return self\n\n    if TYPE_CHECKING:"), "C49-R2")
R.mutant("benign-list-iadd-calls-builtin-changed-in-finally", MUT,
         sub(_IADD, "        try:\n            list.__iadd__(self, x)\n        finally:\n            self.changed()\n        return self\n"), None)
R.mutant("benign-list-iadd-materialises-argument", MUT,
         sub(_IADD, "        items = list(x)\n        list.__iadd__(self, items)\n        self.changed()\n        return self\n"), None)

# C49-R7 (seed-agent observation, round 2): the once-only flag of as_mutable().  The tree carries the per-Column flag (finding);
# these are the spellings a repair may take / must not take.
_FLAG = ("                    if not prop.expression.info.get(_APPLIED_KEY, False):\n"
         "                        prop.expression.info[_APPLIED_KEY] = True\n"
         "                        cls.associate_with_attribute(getattr(class_, prop.key))\n")
R.mutant("benign-as-mutable-flag-keyed-by-class", MUT, sub(
    _FLAG,
    "                    applied = prop.expression.info.setdefault(_APPLIED_KEY, set())\n"
    "                    if class_ not in applied:\n"
    "                        applied.add(class_)\n"
    "                        cls.associate_with_attribute(getattr(class_, prop.key))\n"), None)
R.mutant("benign-as-mutable-skips-inherited-attributes-only", MUT, sub(
    _FLAG,
    "                    if mapper.inherits is not None and mapper.inherits.has_property(prop.key):\n"
    "                        continue\n"
    "                    cls.associate_with_attribute(getattr(class_, prop.key))\n"), None)
R.mutant("associate-with-gets-per-column-flag", MUT, sub(
    "                if isinstance(prop.columns[0].type, sqltype):\n                    cls.associate_with_attribute(getattr(class_, prop.key))\n",
    "                if isinstance(prop.columns[0].type, sqltype):\n                    info = prop.columns[0].info\n"
    "                    if \"_ext_mutable_seen\" in info:\n                        continue\n"
    "                    info[\"_ext_mutable_seen\"] = True\n"
    "                    cls.associate_with_attribute(getattr(class_, prop.key))\n"), "C49-R7")
R.mutant("composite-listener-gets-flag-on-the-composite-columns", MUT, sub(
    "                prop.composite_class._listen_on_attribute(\n                    getattr(class_, prop.key), False, class_\n                )\n",
    "                seen = prop.columns[0].info\n                if seen.get(\"_ext_mutable_composite\"):\n                    continue\n"
    "                seen[\"_ext_mutable_composite\"] = True\n"
    "                prop.composite_class._listen_on_attribute(\n                    getattr(class_, prop.key), False, class_\n                )\n"), "C49-R7")
R.mutant("benign-as-mutable-hook-registered-by-decorator", MUT, chain(
    sub("        def listen_for_type(\n            mapper: Mapper[_T],\n            class_: Union[DeclarativeAttributeIntercept, type],\n        ) -> None:\n",
        "        @event.listens_for(Mapper, \"mapper_configured\")\n        def listen_for_type(\n            mapper: Mapper[_T],\n"
        "            class_: Union[DeclarativeAttributeIntercept, type],\n        ) -> None:\n"),
    sub("        event.listen(Mapper, \"mapper_configured\", listen_for_type)\n\n        return sqltype\n", "        return sqltype\n")), None)
