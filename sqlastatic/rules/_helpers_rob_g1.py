"""Helpers of the rob-G1 robustification pass (C43, C44).

Everything here works on `ast` only -- nothing imports or runs SQLAlchemy.

* `Mini`            a tiny interpreter for a *restricted, side-effect free* subset of Python (names, constants,
                    not/and/or, is/==/in comparisons, conditional expressions, comprehensions, if / for-else / break /
                    continue / return, plain and augmented assignment to locals, list.append).  It is used to
                    *model-check* a small decision procedure exhaustively over a finite abstract domain (e.g. the
                    AND/OR clause-list evaluator over all operand sequences of TRUE/FALSE/NULL/expired up to length 3,
                    the "is this object matched" decision over the possible evaluator results) instead of matching
                    the shape of its `if` statements.  Anything outside the subset raises `Unsupported` (-> exit 2).
* alias / boolean-local resolution (`single_defs`, `expand_expr`)
* `normal_form`     the inverse of 'extract method' on a copy of a function's AST (statement-level calls and calls in
                    `if` tests of same-module helpers), adapted from the rob-B1 helper of the same name.
"""

from __future__ import annotations

import ast
import copy
from typing import Callable, Dict, Iterable, List, Optional, Sequence, Set, Tuple

from ..astutil import call_name, name_stores, unparse, walk_local


class Unsupported(Exception):
    pass


class Sentinel:
    """A module-level marker object of the analysed code (`_EXPIRED_OBJECT`, `_NO_OBJECT`).  `==` / `!=` against the
    expired marker yield the marker itself (truthy), against the no-object marker None (falsy): that is what the
    `operate()` / `reverse_operate()` methods of the real classes return -- the reason why the code under analysis
    has to use identity tests."""

    def __init__(self, name: str, eq_result="self"):
        self.name = name
        self.eq_result = eq_result

    def __repr__(self):
        return self.name


class Opaque:
    """A value the interpreter may pass around and compare by identity but never inspect."""

    def __init__(self, name: str):
        self.name = name

    def __repr__(self):
        return f"<{self.name}>"


class _Return(Exception):
    def __init__(self, value):
        self.value = value


class _Break(Exception):
    pass


class _Continue(Exception):
    pass


_BUILTINS = {"any": any, "all": all, "bool": None, "len": len, "tuple": tuple, "list": list, "True": True, "False": False, "None": None}


class Mini:
    def __init__(self, sentinels: Dict[str, Sentinel], free: Optional[Dict[str, object]] = None, budget: int = 20000):
        self.sentinels = sentinels
        self.free = dict(free or {})
        self.budget = budget

    # ---------------------------------------------------------------- values
    def truth(self, v) -> bool:
        if isinstance(v, (Sentinel, Opaque)):
            return True
        if v is None or isinstance(v, (bool, int, str, list, tuple, set, frozenset)):
            return bool(v)
        raise Unsupported(f"truth value of {v!r}")

    def eq(self, a, b):
        for x in (a, b):
            if isinstance(x, Sentinel):
                return x if x.eq_result == "self" else None
        if isinstance(a, Opaque) or isinstance(b, Opaque):
            return a is b
        return a == b

    def ne(self, a, b):
        for x in (a, b):
            if isinstance(x, Sentinel):
                return x if x.eq_result == "self" else None
        if isinstance(a, Opaque) or isinstance(b, Opaque):
            return a is not b
        return a != b

    def contains(self, container, x) -> bool:
        if not isinstance(container, (list, tuple, set, frozenset)):
            raise Unsupported(f"`in` on {container!r}")
        return any(x is e or self.truth(self.eq(x, e)) for e in container)

    # ---------------------------------------------------------------- expressions
    def ev(self, e: ast.AST, env: Dict[str, object]):
        self.budget -= 1
        if self.budget < 0:
            raise Unsupported("step budget exhausted")
        if isinstance(e, ast.Constant):
            return e.value
        if isinstance(e, ast.Name):
            if e.id in env:
                return env[e.id]
            if e.id in self.free:
                return self.free[e.id]
            if e.id in self.sentinels:
                return self.sentinels[e.id]
            if e.id in _BUILTINS:
                return _BUILTINS[e.id] if e.id != "bool" else self.truth
            raise Unsupported(f"name `{e.id}`")
        if isinstance(e, ast.Attribute):
            if e.attr in self.sentinels:
                return self.sentinels[e.attr]
            raise Unsupported(f"attribute `{unparse(e)}`")
        if isinstance(e, ast.NamedExpr) and isinstance(e.target, ast.Name):
            v = self.ev(e.value, env)
            env[e.target.id] = v
            return v
        if isinstance(e, ast.UnaryOp) and isinstance(e.op, ast.Not):
            return not self.truth(self.ev(e.operand, env))
        if isinstance(e, ast.BoolOp):
            v = None
            for sub_ in e.values:
                v = self.ev(sub_, env)
                t = self.truth(v)
                if isinstance(e.op, ast.And) and not t:
                    return v
                if isinstance(e.op, ast.Or) and t:
                    return v
            return v
        if isinstance(e, ast.IfExp):
            return self.ev(e.body if self.truth(self.ev(e.test, env)) else e.orelse, env)
        if isinstance(e, ast.Compare):
            left = self.ev(e.left, env)
            res = True
            for op, c in zip(e.ops, e.comparators):
                right = self.ev(c, env)
                if isinstance(op, ast.Is):
                    res = left is right
                elif isinstance(op, ast.IsNot):
                    res = left is not right
                elif isinstance(op, ast.Eq):
                    res = self.eq(left, right)
                elif isinstance(op, ast.NotEq):
                    res = self.ne(left, right)
                elif isinstance(op, ast.In):
                    res = self.contains(right, left)
                elif isinstance(op, ast.NotIn):
                    res = not self.contains(right, left)
                else:
                    raise Unsupported(f"comparison `{unparse(e)}`")
                if len(e.ops) > 1 and not self.truth(res):
                    return res
                left = right
            return res
        if isinstance(e, (ast.Tuple, ast.List, ast.Set)):
            vals = [self.ev(x, env) for x in e.elts]
            return tuple(vals) if isinstance(e, ast.Tuple) else (vals if isinstance(e, ast.List) else vals)
        if isinstance(e, (ast.ListComp, ast.GeneratorExp, ast.SetComp)):
            return self._comp(e, env)
        if isinstance(e, ast.Call):
            if e.keywords or any(isinstance(a, ast.Starred) for a in e.args):
                raise Unsupported(f"call `{unparse(e)}`")
            if isinstance(e.func, ast.Attribute) and e.func.attr in ("append", "add"):
                recv = self.ev(e.func.value, env)
                if isinstance(recv, list) and len(e.args) == 1:
                    recv.append(self.ev(e.args[0], env))
                    return None
                raise Unsupported(f"call `{unparse(e)}`")
            fn = self.ev(e.func, env)
            if not callable(fn):
                raise Unsupported(f"call of {fn!r}")
            args = [self.ev(a, env) for a in e.args]
            if fn in (any, all):
                if len(args) != 1:
                    raise Unsupported(unparse(e))
                ts = [self.truth(x) for x in args[0]]
                return fn(ts)
            return fn(*args)
        raise Unsupported(f"expression `{unparse(e)}`")

    def _comp(self, e, env):
        out: List[object] = []

        def rec(i, env2):
            if i == len(e.generators):
                out.append(self.ev(e.elt, env2))
                return
            gen = e.generators[i]
            if gen.is_async:
                raise Unsupported("async comprehension")
            it = self.ev(gen.iter, env2)
            if not isinstance(it, (list, tuple)):
                raise Unsupported(f"iteration over {it!r}")
            for x in it:
                env3 = dict(env2)
                self._bind(gen.target, x, env3)
                if all(self.truth(self.ev(c, env3)) for c in gen.ifs):
                    rec(i + 1, env3)

        rec(0, dict(env))
        return out

    def _bind(self, target, value, env):
        if isinstance(target, ast.Name):
            env[target.id] = value
        elif isinstance(target, (ast.Tuple, ast.List)) and isinstance(value, (tuple, list)) and len(value) == len(target.elts):
            for t, v in zip(target.elts, value):
                self._bind(t, v, env)
        else:
            raise Unsupported(f"assignment target `{unparse(target)}`")

    # ---------------------------------------------------------------- statements
    def run(self, body: Sequence[ast.stmt], env: Dict[str, object]):
        for st in body:
            self.budget -= 1
            if self.budget < 0:
                raise Unsupported("step budget exhausted")
            if isinstance(st, ast.Return):
                raise _Return(self.ev(st.value, env) if st.value is not None else None)
            elif isinstance(st, ast.Assign):
                v = self.ev(st.value, env)
                for t in st.targets:
                    self._bind(t, v, env)
            elif isinstance(st, ast.AnnAssign):
                if st.value is not None:
                    self._bind(st.target, self.ev(st.value, env), env)
            elif isinstance(st, ast.AugAssign):
                if not isinstance(st.target, ast.Name):
                    raise Unsupported(unparse(st))
                cur = self.ev(ast.Name(id=st.target.id, ctx=ast.Load()), env)
                rhs = self.ev(st.value, env)
                if not all(isinstance(x, (bool, int)) for x in (cur, rhs)):
                    raise Unsupported(unparse(st))
                if isinstance(st.op, ast.BitOr):
                    env[st.target.id] = cur | rhs
                elif isinstance(st.op, ast.BitAnd):
                    env[st.target.id] = cur & rhs
                elif isinstance(st.op, ast.Add):
                    env[st.target.id] = cur + rhs
                else:
                    raise Unsupported(unparse(st))
            elif isinstance(st, ast.If):
                self.run(st.body if self.truth(self.ev(st.test, env)) else st.orelse, env)
            elif isinstance(st, ast.For):
                it = self.ev(st.iter, env)
                if not isinstance(it, (list, tuple)):
                    raise Unsupported(f"iteration over {it!r}")
                broke = False
                for x in list(it):
                    self._bind(st.target, x, env)
                    try:
                        self.run(st.body, env)
                    except _Break:
                        broke = True
                        break
                    except _Continue:
                        continue
                if not broke:
                    self.run(st.orelse, env)
            elif isinstance(st, ast.Expr):
                if isinstance(st.value, ast.Constant):
                    continue
                self.ev(st.value, env)
            elif isinstance(st, ast.Pass):
                continue
            elif isinstance(st, ast.Break):
                raise _Break()
            elif isinstance(st, ast.Continue):
                raise _Continue()
            else:
                raise Unsupported(f"statement `{unparse(st).splitlines()[0]}`")

    def call(self, fn: ast.FunctionDef, *args):
        """Result of `fn(*args)`; `fn` is a plain positional-parameter function of the supported subset."""
        a = fn.args
        if a.vararg or a.kwarg or a.kwonlyargs or len(a.posonlyargs + a.args) != len(args):
            raise Unsupported(f"signature of {fn.name}")
        env = {p.arg: v for p, v in zip(a.posonlyargs + a.args, args)}
        try:
            self.run(fn.body, env)
        except _Return as r:
            return r.value
        except (_Break, _Continue):
            raise Unsupported("break/continue outside a loop")
        except (TypeError, ValueError, KeyError, IndexError, AttributeError) as e:
            raise Unsupported(f"{type(e).__name__}: {e}")
        return None


# ---------------------------------------------------------------------------------------------- alias resolution
def params_of(fnode) -> List[str]:
    a = fnode.args
    out = [x.arg for x in a.posonlyargs + a.args + a.kwonlyargs]
    if a.vararg:
        out.append(a.vararg.arg)
    if a.kwarg:
        out.append(a.kwarg.arg)
    return out


def single_defs(fnode, pred: Optional[Callable[[ast.AST], bool]] = None) -> Dict[str, ast.expr]:
    """{local: value} for locals of fnode (not parameters, not loop/with/except targets) bound by exactly one plain
    assignment `name = <value>`; optionally only values accepted by `pred`."""
    cnt: Dict[str, int] = {}
    val: Dict[str, Optional[ast.AST]] = {}
    for n, v, st in name_stores(fnode):
        cnt[n] = cnt.get(n, 0) + 1
        val[n] = v if isinstance(st, (ast.Assign, ast.AnnAssign)) and not isinstance(v, type(None)) else None
        if isinstance(st, ast.Assign) and not (len(st.targets) == 1 and isinstance(st.targets[0], ast.Name)):
            val[n] = None
    ps = set(params_of(fnode)) if hasattr(fnode, "args") else set()
    return {n: v for n, v in val.items() if v is not None and cnt[n] == 1 and n not in ps and (pred is None or pred(v))}


class _Subst(ast.NodeTransformer):
    def __init__(self, mapping: Dict[str, ast.AST]):
        self.mapping = mapping

    def visit_Name(self, node):
        if isinstance(node.ctx, ast.Load) and node.id in self.mapping:
            return copy.deepcopy(self.mapping[node.id])
        return node


def substitute(expr: ast.AST, mapping: Dict[str, ast.AST]) -> ast.AST:
    return ast.fix_missing_locations(_Subst(mapping).visit(copy.deepcopy(expr)))


def expand_expr(expr: ast.AST, defs: Dict[str, ast.expr], keep: Iterable[str] = (), depth: int = 4) -> ast.AST:
    """`expr` with single-assignment locals replaced (repeatedly) by the expressions they stand for."""
    keep = set(keep)
    m = {k: v for k, v in defs.items() if k not in keep}
    for _ in range(depth):
        names = {n.id for n in ast.walk(expr) if isinstance(n, ast.Name) and isinstance(n.ctx, ast.Load)}
        if not (names & set(m)):
            break
        expr = substitute(expr, m)
    return expr


def resolve_name(expr: ast.AST, defs: Dict[str, ast.expr], depth: int = 4) -> ast.AST:
    while depth > 0 and isinstance(expr, ast.Name) and expr.id in defs:
        expr = defs[expr.id]
        depth -= 1
    return expr


def names_read(e: ast.AST) -> Set[str]:
    return {n.id for n in ast.walk(e) if isinstance(n, ast.Name) and isinstance(n.ctx, ast.Load)}


def ast_atoms(test: ast.expr, polarity: bool = True) -> List[Tuple[ast.expr, bool]]:
    """astutil.test_atoms() that keeps the atom expressions: conjunctive atoms (expr, polarity); `not` is stripped,
    `a and b` (True) / `a or b` (False) are split; other forms stay one atom."""
    if isinstance(test, ast.UnaryOp) and isinstance(test.op, ast.Not):
        return ast_atoms(test.operand, not polarity)
    if isinstance(test, ast.BoolOp):
        if (isinstance(test.op, ast.And) and polarity) or (isinstance(test.op, ast.Or) and not polarity):
            out = []
            for v in test.values:
                out.extend(ast_atoms(v, polarity))
            return out
    return [(test, polarity)]


# ---------------------------------------------------------------------------------------------- extract-method inverse
def _body_wo_doc(fnode) -> List[ast.stmt]:
    body = list(fnode.body)
    if body and isinstance(body[0], ast.Expr) and isinstance(body[0].value, ast.Constant) and isinstance(body[0].value.value, str):
        body = body[1:]
    return body


def resolve_callee(ctx, f, call: ast.Call):
    """FuncInfo of a `helper(..)` (module function of f's module, followed through imports) or
    `self.helper(..)` / `cls.helper(..)` call; None if not found."""
    nm = call_name(call) or ""
    if not nm or "()" in nm:
        return None
    head, _, meth = nm.rpartition(".")
    if head in ("self", "cls") and f.cls is not None:
        m = ctx.index.resolve_method(f.cls, meth)
        return m if m is not None and hasattr(m, "node") else None
    try:
        r = ctx.index.resolve(f.module, nm)
    except Exception:
        r = None
    if r is not None and hasattr(r, "params") and hasattr(r, "node"):
        return r
    return None


def bind_args(call: ast.Call, callee) -> Optional[Dict[str, ast.AST]]:
    """{parameter name: argument expression} for a call of `callee` (self/cls of methods skipped; defaults filled in);
    None when the call uses *args/**kwargs or does not fit."""
    a = callee.node.args
    if a.vararg or a.kwarg:
        return None
    names = [x.arg for x in a.posonlyargs + a.args]
    if callee.cls is not None and names and names[0] in ("self", "cls") and "staticmethod" not in " ".join(callee.decorators):
        names = names[1:]
    if any(isinstance(x, ast.Starred) for x in call.args) or any(k.arg is None for k in call.keywords):
        return None
    if len(call.args) > len(names):
        return None
    out = dict(zip(names, call.args))
    kwonly = [x.arg for x in a.kwonlyargs]
    for k in call.keywords:
        if k.arg not in names + kwonly or k.arg in out:
            return None
        out[k.arg] = k.value
    pos = [x.arg for x in a.posonlyargs + a.args]
    defaults = dict(zip(pos[len(pos) - len(a.defaults):], a.defaults))
    defaults.update({x.arg: d for x, d in zip(a.kwonlyargs, a.kw_defaults) if d is not None})
    for p in names + kwonly:
        if p not in out:
            if p not in defaults:
                return None
            out[p] = defaults[p]
    return out


class _Rename(ast.NodeTransformer):
    def __init__(self, mapping: Dict[str, str]):
        self.mapping = mapping

    def visit_Name(self, node):
        if node.id in self.mapping:
            return ast.copy_location(ast.Name(id=self.mapping[node.id], ctx=node.ctx), node)
        return node


def _simple_arg(e) -> bool:
    while isinstance(e, ast.Attribute):
        e = e.value
    return isinstance(e, (ast.Name, ast.Constant))


def _inlinable(ctx, f, call: ast.Call, skip, want=None):
    callee = resolve_callee(ctx, f, call)
    if callee is not None and want is not None and not want(callee):
        return None
    if callee is None or callee.node is f.node or callee.module is not f.module or callee.name in skip:
        return None
    if callee.name == f.name or not isinstance(callee.node, ast.FunctionDef):
        return None
    if [d for d in callee.decorators if d.rsplit(".", 1)[-1] not in ("staticmethod", "classmethod")]:
        return None
    if any(isinstance(n, (ast.Yield, ast.YieldFrom, ast.Global, ast.Nonlocal)) for n in walk_local(callee.node)):
        return None
    a = callee.node.args
    pos = [x.arg for x in a.posonlyargs + a.args]
    if callee.cls is not None and pos and pos[0] in ("self", "cls") and "staticmethod" not in " ".join(callee.decorators):
        if (call_name(call) or "").rpartition(".")[0] not in ("self", "cls"):
            return None
    m = bind_args(call, callee)
    if m is None:
        return None
    return callee, m


def _relocate(stmts: List[ast.stmt], call: ast.Call, counter: List[int]):
    """Inlined nodes take the position of the call site (line of the call, increasing columns >= 1000): orderings by
    (lineno, col_offset) stay meaningful inside the caller and messages point at the call."""
    for st in stmts:
        for n in ast.walk(st):
            if hasattr(n, "lineno") or isinstance(n, (ast.expr, ast.stmt)):
                counter[0] += 1
                n.lineno = n.end_lineno = call.lineno
                n.col_offset = n.end_col_offset = 1000 + counter[0]


def _inline_call(ctx, f, call: ast.Call, mode: str, used: set, skip, counter, targets=None, want=None) -> Optional[List[ast.stmt]]:
    """Statements equivalent to `helper(..)` (mode 'expr'), `<targets> = helper(..)` ('assign') or
    `return helper(..)` ('return'), or None when the helper cannot be inlined faithfully."""
    result_assign = None
    r = _inlinable(ctx, f, call, skip, want)
    if r is None:
        return None
    callee, m = r
    hn = callee.node
    body = copy.deepcopy(_body_wo_doc(hn))
    if not body:
        return None
    all_rets = [n for n in walk_local(ast.Module(body=body, type_ignores=[])) if isinstance(n, ast.Return)]
    last = body[-1]
    if mode == "expr":
        if any(r_ is not last for r_ in all_rets):
            return None
        if isinstance(last, ast.Return):
            body = body[:-1] + ([ast.copy_location(ast.Expr(value=last.value), last)] if last.value is not None else [])
    elif mode == "assign":
        if not (isinstance(last, ast.Return) and last.value is not None) or any(r_ is not last for r_ in all_rets):
            return None
        # the caller's targets are attached AFTER the callee's locals are renamed / parameters substituted (a helper
        # local may have the same name as the caller's target)
        result_assign = ast.copy_location(ast.Assign(targets=[], value=last.value), last)
        body = body[:-1] + [result_assign]
    else:  # 'return'
        if not isinstance(last, (ast.Return, ast.Raise)):
            body.append(ast.copy_location(ast.Return(value=ast.Constant(value=None)), last))
    stored = {n for n, v, st in name_stores(hn)}
    prologue: List[ast.stmt] = []
    subst: Dict[str, ast.AST] = {}
    rename: Dict[str, str] = {}
    own = {x.arg for x in hn.args.posonlyargs + hn.args.args + hn.args.kwonlyargs}
    for p, arg in m.items():
        if p not in stored and (_simple_arg(arg) or sum(1 for n in walk_local(hn) if isinstance(n, ast.Name) and n.id == p) <= 1):
            subst[p] = arg
        else:
            new = p if p not in used else p + "__inl"
            if new != p:
                rename[p] = new
            prologue.append(ast.copy_location(ast.Assign(targets=[ast.Name(id=new, ctx=ast.Store())], value=copy.deepcopy(arg)), call))
    for loc_name in stored - set(m) - own:
        if loc_name in used:
            rename[loc_name] = loc_name + "__inl"
    mod = ast.Module(body=body, type_ignores=[])
    if rename:
        mod = _Rename(rename).visit(mod)
    if subst:
        mod = _Subst(subst).visit(mod)
    if result_assign is not None:
        result_assign.targets = copy.deepcopy(targets)
    used.update(rename.values())
    used.update(stored)
    ctx.functions_analysed.add(callee.key)
    out = prologue + list(mod.body)
    _relocate(out, call, counter)
    return out


class _InlinePredicates(ast.NodeTransformer):
    """`helper(args)` inside an expression, helper's body a single `return <expr>` -> <expr> with arguments substituted."""

    def __init__(self, ctx, f, skip, counter, depth):
        self.ctx, self.f, self.skip, self.counter, self.depth = ctx, f, skip, counter, depth

    def visit_Call(self, node):
        self.generic_visit(node)
        if self.depth <= 0:
            return node
        r = _inlinable(self.ctx, self.f, node, self.skip)
        if r is None:
            return node
        callee, m = r
        body = _body_wo_doc(callee.node)
        if len(body) != 1 or not isinstance(body[0], ast.Return) or body[0].value is None:
            return node
        # an argument may be duplicated / dropped only when evaluating it has no effect
        if not all(_simple_arg(a) or isinstance(a, ast.Call) and isinstance(a.func, ast.Name) and a.func.id == "len" and all(_simple_arg(x) for x in a.args)
                   for a in m.values()):
            return node
        self.ctx.functions_analysed.add(callee.key)
        new = _Subst(m).visit(copy.deepcopy(body[0].value))
        new = _InlinePredicates(self.ctx, self.f, self.skip, self.counter, self.depth - 1).visit(new)
        for n in ast.walk(new):
            self.counter[0] += 1
            n.lineno = n.end_lineno = node.lineno
            n.col_offset = n.end_col_offset = 1000 + self.counter[0]
        return new

    def visit_FunctionDef(self, node):
        return node

    visit_AsyncFunctionDef = visit_Lambda = visit_FunctionDef


def _inline_block(ctx, f, body: List[ast.stmt], used: set, skip, depth: int, counter, want=None) -> List[ast.stmt]:
    out: List[ast.stmt] = []
    for st in body:
        repl = None
        if depth > 0:
            if isinstance(st, ast.Expr) and isinstance(st.value, ast.Call):
                repl = _inline_call(ctx, f, st.value, "expr", used, skip, counter, None, want)
            elif isinstance(st, ast.Assign) and isinstance(st.value, ast.Call):
                repl = _inline_call(ctx, f, st.value, "assign", used, skip, counter, st.targets, want)
            elif isinstance(st, ast.Return) and isinstance(st.value, ast.Call):
                repl = _inline_call(ctx, f, st.value, "return", used, skip, counter, None, want)
        if repl is not None:
            out.extend(_inline_block(ctx, f, repl, used, skip, depth - 1, counter, want))
            continue
        # predicate helpers in the statement's own expressions
        tr = _InlinePredicates(ctx, f, skip, counter, depth)
        for fld, val in list(ast.iter_fields(st)):
            if isinstance(val, ast.expr):
                setattr(st, fld, tr.visit(val))
            elif isinstance(val, list) and val and all(isinstance(x, ast.expr) for x in val):
                setattr(st, fld, [tr.visit(x) for x in val])
        for fld in ("body", "orelse", "finalbody"):
            sub_ = getattr(st, fld, None)
            if isinstance(sub_, list) and sub_ and isinstance(sub_[0], ast.stmt) and not isinstance(st, (ast.FunctionDef, ast.AsyncFunctionDef, ast.ClassDef)):
                setattr(st, fld, _inline_block(ctx, f, sub_, used, skip, depth, counter, want))
        for h in getattr(st, "handlers", []) or []:
            h.body = _inline_block(ctx, f, h.body, used, skip, depth, counter, want)
        out.append(st)
    return out


def _is_attr_chain(v) -> bool:
    if not isinstance(v, ast.Attribute):
        return False
    while isinstance(v, ast.Attribute):
        v = v.value
    return isinstance(v, ast.Name)


def _resolve_pure_aliases(node) -> int:
    """`dialect = connection.dialect` (bound once, a plain attribute chain, never a parameter / loop target): every
    later read of `dialect` is replaced by `connection.dialect`.  The binding itself stays."""
    defs = single_defs(node, _is_attr_chain)
    # names rebound in nested scopes are left alone
    nested_stores = set()
    for n in ast.walk(node):
        if n is not node and isinstance(n, (ast.FunctionDef, ast.AsyncFunctionDef, ast.Lambda)):
            nested_stores |= {a.arg for a in n.args.posonlyargs + n.args.args + n.args.kwonlyargs}
            nested_stores |= {x.id for x in ast.walk(n) if isinstance(x, ast.Name) and isinstance(x.ctx, ast.Store)}
    defs = {k: v for k, v in defs.items() if k not in nested_stores}
    # resolve alias-of-alias
    for _ in range(3):
        defs = {k: (_Subst({a: b for a, b in defs.items() if a != k}).visit(copy.deepcopy(v))) for k, v in defs.items()}
    if not defs:
        return 0

    class T(ast.NodeTransformer):
        n = 0

        def visit_Name(self, nd):
            if isinstance(nd.ctx, ast.Load) and nd.id in defs:
                T.n += 1
                new = copy.deepcopy(defs[nd.id])
                for x in ast.walk(new):
                    ast.copy_location(x, nd)
                return new
            return nd

    node.body = [T().visit(st) for st in node.body]
    return T.n


def normal_form(ctx, f, skip=(), depth: int = 2, aliases: bool = True, want=None):
    """A copy of FuncInfo `f` whose AST has (a) the statement-level calls of same-module helpers / methods of its own
    class (`helper(x)`, `y = helper(x)`, `return helper(x)`) replaced by the helper's body with the arguments
    substituted and single-expression predicate helpers expanded inside expressions -- the inverse of 'extract
    method'; `want(callee FuncInfo)` selects the statement-level helpers worth following -- and (b) pure aliases (`dialect = connection.dialect`) resolved.  Helpers named in `skip`, generators,
    decorated functions and helpers with early returns (unless called as `return helper(..)`) stay calls.
    The result has fresh AST nodes: use `parent_map(f2.node)` and `ctx.cfg(f2.node)`."""
    cache = ctx.__dict__.setdefault("_rob_g1_nf", {})
    k = (id(f.node), tuple(sorted(skip)), depth, aliases, id(want))
    if k in cache:
        return cache[k]
    node = copy.deepcopy(f.node)
    used = {n.id for n in ast.walk(node) if isinstance(n, ast.Name)} | set(params_of(node))
    node.body = _inline_block(ctx, f, node.body, used, set(skip), depth, [0], want)
    if aliases:
        _resolve_pure_aliases(node)
    f2 = copy.copy(f)
    f2.node = node
    cache[k] = f2
    return f2
