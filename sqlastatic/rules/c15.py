"""C15 -- Reflection reproduces the schema that was created (writer/reader agreement clauses).

What is decided here is NOT the behaviour (that needs live PostgreSQL / MariaDB catalogs).  Decided are
necessary clauses of it that are visible in /repo's source: the text a dialect's DDL compiler writes and
the text its reflection code reads are two ends of one protocol, and both ends are in the repository.
The rules run the *writer* (DDLCompiler / TypeCompiler methods) and the *reader* (the dialect's get_*()
and its parser helpers) of one dialect on small schema models inside a source level interpreter
(`_helpers_na_c.Lite`; nothing of /repo is imported) and compare what comes back with what went in.
Between the two ends sits the backend; what it does with the text is taken from oracles
(`oracles/sqlite_catalog.json`, `catalog_type_names.json`, `catalog_fk_text.json`):  SQLite keeps the
statement text and the declared type verbatim, PostgreSQL / MySQL print canonical forms.

Because both ends are *executed on a model*, a verdict does not depend on local names, statement order,
the shape of a regular expression, helper extraction or the shape of conditionals.
"""

from __future__ import annotations

import re
from typing import Any, Dict, List, Optional, Tuple

from ..astutil import call_name, calls_in
from ..errors import AnalysisError
from ..index import ClassInfo, FuncInfo
from ..oracles import load
from ..report import Registry, chain, sub
from ._helpers_na_c import ClassVal, FuncVal, Inst, Lite, ModelRaise, Opaque, PyStub, Unsupported
from ._helpers_str2_z1 import NotUnderstood, SqliteRejects, sqlite_primary_key

R = Registry(
    "C15",
    title="Reflection reproduces the schema that was created",
    decides=(
        "writer/reader agreement clauses of C15, each judged by running the dialect's DDL/type compiler and its "
        "reflection code on schema models in a source interpreter: (R1) a type that reflection can produce is "
        "written by the dialect's type compiler under a name that the same dialect reads back to the same type "
        "affinity (SQLite, PostgreSQL, MySQL; catalog spelling from an oracle); (R2) the ON DELETE / ON UPDATE / "
        "DEFERRABLE / INITIALLY / MATCH clauses the DDL compiler writes for a foreign key are read back by the "
        "dialect's foreign key reflection (SQLite from the statement text, PostgreSQL / MySQL from the catalog's "
        "canonical text), together with name, columns and referred table; (R3) SQLite: names and columns of "
        "PRIMARY KEY / UNIQUE / CHECK constraints written by the DDL compiler are read back from the statement "
        "text; (R4) SQLite: CREATE INDEX as written (unique, columns, partial WHERE) is read back; (R5) every key "
        "of a reflected foreign key `options` / index `dialect_options` dictionary is an argument the consuming "
        "constructor accepts; (R6) SQLite: the CREATE TABLE text declares the primary key exactly once for every "
        "combination of sqlite_autoincrement / key shape / foreign key on the key column (SQLite's grammar from an "
        "oracle) and get_pk_constraint reads the same columns back; (R7) PostgreSQL: the referred_schema of a "
        "reflected foreign key names the schema the referenced table lives in (or None where a schema-less name "
        "reaches it) for every combination of reflecting schema, target schema and postgresql_ignore_search_path.  "
        "R2/R3 include names the identifier preparer writes unquoted although they contain a character outside "
        "[A-Za-z0-9_].  These are clauses of C15, not the behaviour."
    ),
    not_decided=(
        "what a live backend stores and reports (the oracles state the documented catalog formats), column "
        "defaults / comments / identity / computed columns, PostgreSQL and MySQL index, unique and check "
        "reflection (catalog queries), reflection of schemas not written by this library, quoting (C06)."
    ),
)

SQLITE = "dialects/sqlite/base.py::SQLiteDialect"
PG = "dialects/postgresql/base.py::PGDialect"
MYSQL = "dialects/mysql/base.py::MySQLDialect"
SCH = "sql/schema.py::"
DDL = "sql/ddl.py::"
TYPES = "sql/sqltypes.py::"


# ============================================================================================ the world

def _builds_select(ix, f: FuncInfo) -> bool:
    """does the function construct a SELECT statement (a query builder whose result is only handed to the
    connection)?  Such results are opaque to the model."""
    hit = getattr(f.node, "_nac_builds_select", None)     # memo on the AST node: overlays replace nodes
    if hit is not None:
        return hit
    out = False
    for c in calls_in(f.node):
        nm = call_name(c) or ""
        head = nm.split(".")[0]
        if nm.split(".")[-1] != "select" or not head:
            continue
        r = ix.resolve(f.module, nm)
        if isinstance(r, (FuncInfo, ClassInfo)) and r.module.relpath.startswith("sql/"):
            out = True
            break
    f.node._nac_builds_select = out
    return out


class World:
    """one dialect: interpreter, model dialect, writer (ddl / type compiler) and reader (dialect) objects"""

    def __init__(self, ctx, dialect_key: str, paramstyle: str = "qmark", **dialect_attrs):
        self.ctx = ctx
        self.ix = ix = ctx.index
        self.L = L = Lite(ix)
        L.opaque_pred = lambda f: _builds_select(ix, f)
        L.construct = L.construct_by_init
        self.dcls = ix.cls(dialect_key)
        self.dialect = d = Inst(self.dcls, dict(dialect_attrs, paramstyle=paramstyle), label="dialect")
        d.model = True
        self.name = L.getattr(d, "name")
        self.prep_cls = self._cls_attr("preparer")
        self.ddl_cls = self._cls_attr("ddl_compiler")
        self.tc_cls = self._cls_attr("type_compiler_cls")
        self.rprep = L.run_init(self.prep_cls, [d], {})          # reader side: the real preparer
        d.attrs["identifier_preparer"] = self.rprep
        self.wprep = wp = L.run_init(self.prep_cls, [d], {})     # writer side: real quote(), model format_*()
        wp.stubs["format_table"] = self._format_table
        wp.stubs["format_constraint"] = lambda c, **k: self.quote(c.attrs["name"])
        wp.stubs["format_column"] = lambda c, **k: self.quote(c.attrs["name"])
        wp.stubs["format_index"] = lambda c, **k: self.quote(c.attrs["name"])
        wp.stubs["schema_for_object"] = lambda o: o.attrs.get("schema")
        self.tc = Inst(self.tc_cls, {"dialect": d}, label="type_compiler")
        self.tc.stubs["process"] = lambda t, **kw: self.dispatch(self.tc, t, **kw)
        d.attrs["type_compiler_instance"] = self.tc
        d.attrs["type_compiler"] = self.tc
        self.sqlc = Inst(None, {"dialect": d, "preparer": wp}, label="sql_compiler")
        self.sqlc.stubs["process"] = lambda e, **kw: e.attrs["text"]
        self.ddl = Inst(self.ddl_cls, {"dialect": d, "preparer": wp, "sql_compiler": self.sqlc}, label="ddl_compiler")
        self.ddl.stubs["process"] = lambda o, **kw: self.dispatch(self.ddl, o, **kw)
        self._opts = None
        self.conn = Inst(None, {"dialect": d}, label="connection")

    def _cls_attr(self, name) -> ClassInfo:
        v = self.L.getattr(self.dialect, name)
        if not isinstance(v, ClassVal):
            raise AnalysisError(f"C15: {self.dcls.key}.{name} is not a class")
        return v.cls

    def quote(self, name):
        return self.L.call_method(self.wprep, "quote", name)

    def _format_table(self, table, use_schema=True, name=None):
        n = self.quote(name if name is not None else table.attrs["name"])
        sch = table.attrs.get("schema")
        if use_schema and sch:
            n = self.quote(sch) + "." + n
        return n

    def dispatch(self, visitor: Inst, obj, **kw):
        vn = self.L.getattr(obj, "__visit_name__")
        fn = self.L.inst_getattr(visitor, "visit_" + vn)
        node = getattr(getattr(fn, "fn", None), "node", None)
        if node is not None and node.args.kwarg is None:
            names = {a.arg for a in node.args.args + node.args.kwonlyargs}
            kw = {k: v for k, v in kw.items() if k in names}
        return self.L.call(fn, [obj], kw)

    def dialect_options(self, cls: ClassInfo) -> dict:
        if self._opts is None:
            self._opts = self.L.getattr(self.dialect, "construct_arguments") or []
        out: Dict[str, Any] = {}
        for k, defaults in self._opts:
            if isinstance(k, ClassVal) and self.L.is_subclass(cls, k.cls):
                out.update(defaults)
        return {self.name: out}

    def construct_argument_names(self, cls: ClassInfo) -> set:
        return set(self.dialect_options(cls)[self.name])

    def item(self, clskey: str, **attrs) -> Inst:
        c = self.ix.cls(clskey)
        i = Inst(c, attrs)
        i.model = True
        i.attrs.setdefault("dialect_options", self.dialect_options(c))
        return i

    def analysed(self):
        self.ctx.functions_analysed.update(self.L.functions_run)


def _guard(ctx, what: str, fn, *a, **k):
    """run a model computation; the model running out of its depth is an ANALYSIS-ERROR, never a verdict"""
    try:
        return fn(*a, **k)
    except Unsupported as e:
        raise AnalysisError(f"C15 model: {what}: {e}")


# ============================================================================================ schema models

def _type(W: World, name: str, **attrs) -> Inst:
    t = Inst(W.ix.cls(TYPES + name), attrs)
    t.default_attr = lambda a: None
    t.stubs["dialect_impl"] = lambda dialect: t        # model types already are the dialect's implementation
    return t


class TableModel:
    """a table description (python data) and its model objects in a World"""

    def __init__(self, W: World, name: str, columns, pk=None, pk_name=None, fks=(), uniques=(), checks=(),
                 schema=None, others=(), table_opts=None):
        self.W, self.name, self.schema = W, name, schema
        self.columns = list(columns)          # (name, type name, nullable)
        self.pk = list(pk if pk is not None else [self.columns[0][0]])
        self.pk_name = pk_name
        self.fks, self.uniques, self.checks = [dict(f) for f in fks], [dict(u) for u in uniques], [dict(c) for c in checks]
        self.tables: Dict[str, Inst] = {}
        self.cols: Dict[Tuple[str, str], Inst] = {}
        self.table = self._table(name, schema)
        for k, v in (table_opts or {}).items():       # dialect level table options (Table(..., <dialect>_<k>=v))
            self.table.attrs["dialect_options"][W.name][k] = v
        for cname, tname, nullable in self.columns:
            self._column(self.table, cname, tname, nullable, cname in self.pk)
        for f in self.fks:
            rt = self._table(f["rtable"], f.get("rschema", schema))
            for rc in f["rcols"]:
                if (f["rtable"], rc) not in self.cols:
                    self._column(rt, rc, "INTEGER", False, True)
        self._constraints()

    def _table(self, name, schema) -> Inst:
        if name not in self.tables:
            self.tables[name] = self.W.item(SCH + "Table", name=name, schema=schema, _prefixes=[], description=name,
                                            comment=None, _autoincrement_column=None)
        return self.tables[name]

    def _column(self, t: Inst, name, tname, nullable, pk) -> Inst:
        c = self.W.item(SCH + "Column", name=name, key=name, type=_type(self.W, tname), table=t, nullable=nullable and not pk,
                        primary_key=pk, server_default=None, computed=None, identity=None, autoincrement="auto",
                        foreign_keys=set(), constraints=[], system=False, comment=None, default=None)
        self.cols[(t.attrs["name"], name)] = c
        return c

    def _mark(self, c: Inst) -> Inst:
        c.stubs["_should_create_for_compiler"] = lambda compiler, **kw: True
        return c

    def _constraints(self):
        W, t = self.W, self.table
        pkcols = [self.cols[(self.name, n)] for n in self.pk]
        pk = self._mark(W.item(SCH + "PrimaryKeyConstraint", name=self.pk_name, columns=pkcols, _columns=pkcols,
                               _implicit_generated=False, columns_autoinc_first=pkcols, deferrable=None,
                               initially=None, table=t, comment=None))
        cons = [pk]
        self.fk_objs = []
        for f in self.fks:
            els = [Inst(None, {"parent": self.cols[(self.name, lc)], "column": self.cols[(f["rtable"], rc)]})
                   for lc, rc in zip(f["cols"], f["rcols"])]
            for el in els:                    # Column.foreign_keys: the ForeignKey elements of the column
                el.attrs["parent"].attrs["foreign_keys"].add(el)
            fk = self._mark(W.item(SCH + "ForeignKeyConstraint", name=f.get("name"), elements=els,
                                   ondelete=f.get("ondelete"), onupdate=f.get("onupdate"), match=f.get("match"),
                                   deferrable=f.get("deferrable"), initially=f.get("initially"), use_alter=False,
                                   table=t, comment=None, referred_table=self.tables[f["rtable"]]))
            self.fk_objs.append(fk)
            cons.append(fk)
        for u in self.uniques:
            cols = [self.cols[(self.name, n)] for n in u["cols"]]
            cons.append(self._mark(W.item(SCH + "UniqueConstraint", name=u.get("name"), columns=cols, _columns=cols,
                                          deferrable=None, initially=None, table=t, comment=None)))
        for ck in self.checks:
            cons.append(self._mark(W.item(SCH + "CheckConstraint", name=ck.get("name"),
                                          sqltext=Inst(None, {"text": ck["sqltext"]}), deferrable=None, initially=None,
                                          table=t, parent=t, comment=None, _type_bound=False, _create_rule=None)))
        t.attrs.update(primary_key=pk, foreign_key_constraints=set(self.fk_objs), _sorted_constraints=cons,
                       columns=[self.cols[(self.name, n)] for n, _, _ in self.columns], constraints=set(cons),
                       indexes=set())

    # -------------------------------------------------------------------------- writer
    def create_table_text(self) -> str:
        W = self.W
        cc = [Inst(W.ix.cls(DDL + "CreateColumn"), {"element": self.cols[(self.name, n)]}) for n, _, _ in self.columns]
        create = Inst(W.ix.cls(DDL + "CreateTable"), {"element": self.table, "columns": cc, "if_not_exists": False,
                                                         "include_foreign_key_constraints": None})
        return W.dispatch(W.ddl, create)

    def type_text(self, cname: str) -> str:
        c = self.cols[(self.name, cname)]
        return self.W.dispatch(self.W.tc, c.attrs["type"], type_expression=c)

    def index(self, name, cols, unique=False, where=None) -> Inst:
        W = self.W
        exprs = [Inst(None, {"text": W.quote(n)}) for n in cols]
        ix_ = W.item(SCH + "Index", name=name, table=self.table, unique=unique, expressions=exprs,
                     columns=[self.cols[(self.name, n)] for n in cols])
        if where is not None:
            ix_.attrs["dialect_options"][W.name]["where"] = Inst(None, {"text": where})
        return ix_

    def create_index_text(self, index: Inst) -> str:
        W = self.W
        create = Inst(W.ix.cls(DDL + "CreateIndex"), {"element": index, "if_not_exists": False})
        return W.dispatch(W.ddl, create)


# ============================================================================================ SQLite catalog

class SqliteCatalog:
    """what SQLite answers for a TableModel (oracles/sqlite_catalog.json).  The model sits at the connection: it
    understands the two kinds of statement SQLite reflection sends -- `PRAGMA [<db>.]<name>(<object>)` and a
    SELECT of the `sql` column of sqlite_master for a name given as parameter -- and nothing of the dialect's own
    helper methods is replaced."""

    _PRAGMA = re.compile(r'''^\s*PRAGMA\s+(?:(?:"((?:[^"]|"")+)"|(\w+))\.)?(\w+)\s*\(\s*(?:"((?:[^"]|"")+)"|(\w+))\s*\)\s*$''',
                         re.I)

    def __init__(self, tm: TableModel, table_sql: str, indexes=(), type_texts: Optional[Dict[str, str]] = None,
                 pk_from_text: bool = False):
        self.o = load("sqlite_catalog.json")
        # primary key membership as SQLite derives it from the statement it was given (oracle
        # sqlite_primary_key_grammar.json); without it the membership of the table description is reported
        self.pk = sqlite_primary_key(table_sql) if pk_from_text else list(tm.pk)
        self.tm, self.table_sql = tm, table_sql.strip()
        self.indexes = list(indexes)         # (name, cols, unique, where, sql)
        self.type_texts = dict(type_texts or {})
        W = tm.W
        W.dialect.attrs.setdefault("server_version_info", (3, 40, 1))
        W.conn.stubs["exec_driver_sql"] = self.exec_driver_sql

    def _row(self, layout: str, **vals):
        return tuple(vals[k] for k in self.o["layouts"][layout])

    def autoindexes(self):
        out = []
        for n, u in enumerate(self.tm.uniques, 1):
            out.append((self.o["autoindex_name"].format(table=self.tm.name, n=n), list(u["cols"])))
        return out

    def pragma(self, pragma, table_name):
        tm = self.tm
        names = [c[0] for c in tm.columns]
        if pragma in ("table_xinfo", "table_info"):
            if table_name != tm.name:
                if table_name in tm.tables:
                    rcols = [n for (t, n) in tm.cols if t == table_name]
                    return [self._row(pragma, cid=i, name=n, type="INTEGER", notnull=1, dflt_value=None, pk=i + 1,
                                      hidden=0) for i, n in enumerate(rcols)]
                return []
            return [self._row(pragma, cid=i, name=n, type=self.type_texts.get(n) or tm.type_text(n),
                              notnull=0 if (nl and n not in tm.pk) else 1,
                              dflt_value=None, pk=(self.pk.index(n) + 1 if n in self.pk else 0), hidden=0)
                    for i, (n, t, nl) in enumerate(tm.columns)]
        if table_name != tm.name and pragma != "index_info":
            return []
        if pragma == "foreign_key_list":
            rows = []
            fks = list(enumerate(reversed(tm.fks))) if self.o["fk_ids_reverse_declaration_order"] else list(enumerate(tm.fks))
            for i, f in fks:
                for seq, (lc, rc) in enumerate(zip(f["cols"], f["rcols"])):
                    rows.append(self._row("foreign_key_list", id=i, seq=seq, table=f["rtable"], **{"from": lc, "to": rc},
                                          on_update=f.get("onupdate") or self.o["default_action"],
                                          on_delete=f.get("ondelete") or self.o["default_action"],
                                          match=self.o["match_reported"]))
            return rows
        if pragma == "index_list":
            rows = []
            seq = 0
            for name, cols, unique, where, _sql in reversed(self.indexes):
                rows.append(self._row("index_list", seq=seq, name=name, unique=1 if unique else 0, origin="c",
                                      partial=1 if where is not None else 0))
                seq += 1
            for name, cols in reversed(self.autoindexes()):
                rows.append(self._row("index_list", seq=seq, name=name, unique=1, origin="u", partial=0))
                seq += 1
            return rows
        if pragma == "index_info":
            for name, cols, *_ in self.indexes:
                if name == table_name:
                    return [self._row("index_info", seqno=i, cid=names.index(c), name=c) for i, c in enumerate(cols)]
            for name, cols in self.autoindexes():
                if name == table_name:
                    return [self._row("index_info", seqno=i, cid=names.index(c), name=c) for i, c in enumerate(cols)]
            return []
        raise Unsupported(f"PRAGMA {pragma} is not part of the SQLite catalog model")

    def exec_driver_sql(self, statement, parameters=None, *a, **k):
        res = Inst(None, {}, label="result")
        m = self._PRAGMA.match(statement) if isinstance(statement, str) else None
        if m:
            db = (m.group(1) or "").replace('""', '"') or m.group(2) or "main"
            obj = m.group(4).replace('""', '"') if m.group(4) is not None else m.group(5)
            rows = [] if db.lower() == "temp" else self.pragma(m.group(3).lower(), obj)
            res.attrs["_soft_closed"] = not rows       # a cursor without rows is closed at once
            res.stubs["fetchall"] = lambda: list(rows)
            res.stubs["all"] = lambda: list(rows)
            res.stubs["__iter__"] = lambda: list(rows)
            return res
        if isinstance(statement, str) and re.search(r"\bsqlite_(?:temp_)?master\b", statement, re.I) and parameters:
            value = None
            wants_index = re.search(r"type\s*=\s*'index'", statement, re.I) is not None
            if wants_index:
                for name, cols, unique, where, sql in self.indexes:
                    if name == parameters[0]:
                        value = sql.strip()
            elif parameters[0] == self.tm.name:
                value = self.table_sql
            elif parameters[0] in self.tm.tables:
                value = f"CREATE TABLE {parameters[0]} (id INTEGER NOT NULL, PRIMARY KEY (id))"
            res.stubs["scalar"] = lambda: value
            return res
        raise Unsupported(f"the SQLite catalog model does not understand the statement {str(statement)[:80]!r}")


# ============================================================================================ comparisons

def _norm_fk_options(opts: dict, dialect: str) -> dict:
    """semantic normal form of foreign key options (defaults dropped)"""
    o = load("catalog_fk_text.json")[dialect]
    out = {}
    for k in ("ondelete", "onupdate"):
        v = opts.get(k)
        if v is not None and re.sub(r"\s+", " ", str(v).upper()).strip() not in o["default_action"]:
            out[k] = re.sub(r"\s+", " ", str(v).upper()).strip()
    if opts.get("deferrable"):
        out["deferrable"] = True
    if opts.get("initially") is not None and str(opts["initially"]).upper() != "IMMEDIATE":
        out["initially"] = str(opts["initially"]).upper()
    m = opts.get("match")
    if m is not None:
        m = re.sub(r"^MATCH\s+", "", str(m).upper())
        if m != "SIMPLE":
            out["match"] = m
    return {k: v for k, v in out.items() if k in o["supports"]}


def _fk_expect(f: dict, dialect: str) -> dict:
    return _norm_fk_options(f, dialect)


def _compare_fks(tm: TableModel, reflected, dialect: str) -> List[str]:
    problems = []
    if not isinstance(reflected, list):
        return [f"reflection returned {reflected!r}"]
    for f in tm.fks:
        hits = [r for r in reflected if isinstance(r, dict) and list(r.get("constrained_columns") or []) == list(f["cols"])]
        if len(hits) != 1:
            problems.append(f"foreign key on {f['cols']} reflected {len(hits)} times")
            continue
        r = hits[0]
        if f.get("name") is not None and r.get("name") != f["name"]:
            problems.append(f"name {r.get('name')!r} instead of {f['name']!r}")
        if r.get("referred_table") != f["rtable"]:
            problems.append(f"referred table {r.get('referred_table')!r} instead of {f['rtable']!r}")
        if list(r.get("referred_columns") or []) != list(f["rcols"]):
            problems.append(f"referred columns {r.get('referred_columns')!r} instead of {f['rcols']!r}")
        if f.get("rschema") and r.get("referred_schema") != f["rschema"]:
            problems.append(f"referred schema {r.get('referred_schema')!r} instead of {f['rschema']!r}")
        got = _norm_fk_options(r.get("options") or {}, dialect)
        exp = _fk_expect(f, dialect)
        if got != exp:
            problems.append(f"options read back as {got!r}, written {exp!r}")
    if len(reflected) != len(tm.fks):
        problems.append(f"{len(reflected)} foreign keys reflected, {len(tm.fks)} written")
    return problems


# ============================================================================================ R2: foreign keys

def _unquoted_special_char(W: World) -> Optional[str]:
    """a character outside [A-Za-z0-9_] that the dialect's identifier preparer (run on the model) leaves unquoted
    inside a name: names containing it reach the statement text / the catalog text bare"""
    for ch in "$#@":
        name = f"a{ch}b"
        try:
            if W.quote(name) == name:
                return ch
        except (Unsupported, ModelRaise):
            return None
    return None


def _fk_scenarios(actions, special: Optional[str] = None) -> List[Tuple[str, List[dict], dict]]:
    """(scenario id, foreign keys, extra table kwargs)"""
    base = {"name": "fk1", "cols": ["pid"], "rtable": "p", "rcols": ["id"]}
    out = []
    for a in actions:
        out.append((f"ondelete={a}", [dict(base, ondelete=a)], {}))
        out.append((f"onupdate={a}", [dict(base, onupdate=a)], {}))
    out.append(("ondelete+onupdate", [dict(base, ondelete="CASCADE", onupdate="SET NULL")], {}))
    out.append(("deferrable=True", [dict(base, deferrable=True)], {}))
    out.append(("deferrable=False+ondelete", [dict(base, deferrable=False, ondelete="CASCADE")], {}))
    out.append(("initially=DEFERRED", [dict(base, initially="DEFERRED")], {}))
    out.append(("deferrable+initially+onupdate", [dict(base, deferrable=True, initially="DEFERRED", onupdate="CASCADE")], {}))
    out.append(("initially=IMMEDIATE+ondelete", [dict(base, deferrable=True, initially="IMMEDIATE", ondelete="SET NULL")], {}))
    out.append(("match=FULL+ondelete+deferrable", [dict(base, match="FULL", ondelete="CASCADE", deferrable=True,
                                                        initially="DEFERRED")], {}))
    out.append(("match=FULL", [dict(base, match="FULL")], {}))
    out.append(("unnamed+ondelete", [dict(base, name=None, ondelete="CASCADE")], {}))
    out.append(("quoted-names", [{"name": "fk 1", "cols": ["p id"], "rtable": "the p", "rcols": ["the id"],
                                   "ondelete": "CASCADE", "onupdate": "RESTRICT"}], {}))
    if special:
        out.append(("unquoted-special-char-names", [{"name": f"fk{special}1", "cols": [f"p{special}id"],
                                                    "rtable": f"p{special}t", "rcols": [f"the{special}id"],
                                                    "ondelete": "CASCADE", "deferrable": True}], {}))
    out.append(("composite", [{"name": "fk2", "cols": ["pid", "qid"], "rtable": "p", "rcols": ["id", "id2"],
                                "onupdate": "CASCADE", "ondelete": "SET DEFAULT"}], {}))
    out.append(("two-constraints", [dict(base, ondelete="CASCADE"),
                                    {"name": "fk3", "cols": ["qid"], "rtable": "q", "rcols": ["id"],
                                     "onupdate": "SET NULL", "deferrable": True}], {}))
    return out


def _fk_table(W: World, fks) -> TableModel:
    cols = [("id", "INTEGER", False)]
    for f in fks:
        for c in f["cols"]:
            if c not in [x[0] for x in cols]:
                cols.append((c, "INTEGER", True))
    return TableModel(W, "c", cols, fks=fks)


def _writer_accepts(W: World, fks, full=True) -> Tuple[Optional[TableModel], Optional[str], Optional[str]]:
    """(model, CREATE TABLE text [or the constraint clauses], None) or (None, None, reason) when the DDL compiler
    itself rejects the options (then they are not part of what this dialect can write)"""
    tm = _fk_table(W, fks)
    try:
        if full:
            return tm, tm.create_table_text(), None
        return tm, "\n".join(W.dispatch(W.ddl, fk) or "" for fk in tm.fk_objs), None
    except ModelRaise as e:
        if e.cls_name == "CompileError":
            return None, None, e.message
        raise


def _key(dialect_key: str, method: str, aspect: str) -> str:
    return f"{dialect_key}.{method}:{aspect}"


@R.rule("C15-R2", floor=70, template="T-TABLE",
        desc="every foreign key clause the DDL compiler writes (ON DELETE/UPDATE actions, DEFERRABLE, INITIALLY, MATCH, "
             "names, column lists) is read back by the same dialect's foreign key reflection: writer and reader run on "
             "models; SQLite reads the statement text, PostgreSQL / MySQL the catalog's canonical text (oracle)")
def r2(ctx):
    fko = load("catalog_fk_text.json")
    actions = fko["actions"]
    # ---- SQLite: the reader parses exactly what the writer wrote
    W = World(ctx, SQLITE)
    for sid, fks, _ in _fk_scenarios(actions, _unquoted_special_char(W)):
        key = _key(SQLITE, "get_foreign_keys", f"reads-what-ddl-writes[{sid}]")
        if fko["sqlite"].get("initially_requires_deferrable") and any(
                f.get("initially") and f.get("deferrable") is None for f in fks):
            ctx.ok(key, "INITIALLY without [NOT] DEFERRABLE is a syntax error on this backend (oracle)", nontrivial=False)
            continue
        tm, text, why = _guard(ctx, f"sqlite writer {sid}", _writer_accepts, W, fks)
        if tm is None:
            ctx.ok(key, f"not writable on this dialect ({why})", nontrivial=False)
            continue
        SqliteCatalog(tm, text)
        try:
            got = _guard(ctx, f"sqlite reader {sid}", W.L.call_method, W.dialect, "get_foreign_keys", W.conn, tm.name)
        except ModelRaise as e:
            ctx.violation(key, f"get_foreign_keys raises {e} for the table the DDL compiler wrote", W.dcls.loc,
                          [text.strip()])
            continue
        problems = _compare_fks(tm, got, "sqlite")
        ctx.check(not problems, key, "; ".join(problems) + " -- DDL: " + _fk_line(text), "options/name/columns read back",
                  W.dcls.loc, [text.strip(), repr(got)])
    W.analysed()
    _r2_postgresql(ctx, actions)
    _r2_mysql(ctx, actions)


def _fk_line(text: str) -> str:
    for ln in text.splitlines():
        if "FOREIGN KEY" in ln:
            return ln.strip()
    return text.strip()


# ---------------------------------------------------------------------------------------- PostgreSQL

def _pg_condef(W: World, f: dict) -> str:
    """pg_get_constraintdef() text of a foreign key (oracle catalog_fk_text.json)"""
    o = load("catalog_fk_text.json")["postgresql"]
    safe = load("pg_search_path.json")["quote_identifier_safe"]

    def q(n):
        # the catalog quotes by PostgreSQL's own rule (oracle), not by the rule of /repo's identifier preparer;
        # keywords: the preparer's answer for an otherwise safe name
        if re.fullmatch(safe, n) and W.quote(n) == n:
            return n
        return '"' + n.replace('"', '""') + '"'

    def act(v):
        return re.sub(r"\s+", " ", v.upper()).strip()

    sep = o["list_separator"]
    table = q(f["rtable"])
    if f.get("rschema"):
        table = q(f["rschema"]) + "." + table
    m = f.get("match")
    match = f" MATCH {m.upper()}" if m and m.upper() != o["default_match"] else ""
    onupdate = f" ON UPDATE {act(f['onupdate'])}" if f.get("onupdate") and act(f["onupdate"]) not in o["default_action"] else ""
    ondelete = f" ON DELETE {act(f['ondelete'])}" if f.get("ondelete") and act(f["ondelete"]) not in o["default_action"] else ""
    deferrable = " DEFERRABLE" if f.get("deferrable") else (" NOT DEFERRABLE" if f.get("deferrable") is False and o["prints_not_deferrable"] else "")
    ini = f.get("initially")
    initially = ""
    if ini and (ini.upper() != "IMMEDIATE" or o["prints_initially_immediate"]):
        initially = f" INITIALLY {ini.upper()}"
    return o["template"].format(local=sep.join(q(c) for c in f["cols"]), table=table,
                                remote=sep.join(q(c) for c in f["rcols"]), match=match, onupdate=onupdate,
                                ondelete=ondelete, deferrable=deferrable, initially=initially)


class _Result:
    """result object of the model connection: rows for iteration and rows for .mappings()"""

    def __init__(self, rows=(), mappings=()):
        self.inst = Inst(None, {}, label="result")
        self.rows, self.maps = list(rows), list(mappings)
        self.inst.stubs["__iter__"] = lambda: list(self.rows)
        self.inst.stubs["mappings"] = lambda: list(self.maps)
        self.inst.stubs["all"] = lambda: list(self.rows)
        self.inst.stubs["fetchall"] = lambda: list(self.rows)


def _first_then_empty(main: "_Result"):
    """model connection.execute(): the first statement an entry point executes is its main catalog query; further
    statements (lookups of named types and the like) find nothing"""
    calls = []

    def execute(*a, **k):
        calls.append(1)
        return main.inst if len(calls) == 1 else _Result().inst

    return execute


def _r2_postgresql(ctx, actions):
    W = World(ctx, PG, paramstyle="named", default_schema_name="public", server_version_info=(16, 0))
    L = W.L
    scen = _fk_scenarios(actions, _unquoted_special_char(W))
    scen.append(("ondelete=SET NULL (col)", [{"name": "fk1", "cols": ["pid"], "rtable": "p", "rcols": ["id"],
                                             "ondelete": "SET NULL (pid)"}], {}))
    scen.append(("match=PARTIAL+onupdate", [{"name": "fk1", "cols": ["pid"], "rtable": "p", "rcols": ["id"],
                                             "match": "PARTIAL", "onupdate": "CASCADE"}], {}))
    scen.append(("other-schema", [{"name": "fk1", "cols": ["pid"], "rtable": "p", "rcols": ["id"], "rschema": "other",
                                   "ondelete": "CASCADE"}], {}))
    for sid, fks, _ in scen:
        key = _key(PG, "get_multi_foreign_keys", f"reads-catalog-text-of-what-ddl-writes[{sid}]")
        tm, text, why = _guard(ctx, f"postgresql writer {sid}", _writer_accepts, W, fks, False)
        if tm is None:
            ctx.ok(key, f"not writable on this dialect ({why})", nontrivial=False)
            continue
        rows = [(tm.name, f.get("name") or f"c_{f['cols'][0]}_fkey", _pg_condef(W, f), f.get("rschema") or "public", None)
                for f in fks]
        W.conn.stubs["execute"] = _first_then_empty(_Result(rows=rows))
        try:
            got = _guard(ctx, f"postgresql reader {sid}", L.call_method, W.dialect, "get_multi_foreign_keys", W.conn,
                         None, [tm.name], Opaque("scope"), Opaque("kind"))
            got = dict(list(got)) if not isinstance(got, dict) else got
            lst = got.get((None, tm.name))
        except ModelRaise as e:
            ctx.violation(key, f"get_multi_foreign_keys raises {e} for catalog text {rows[0][2]!r}", W.dcls.loc,
                          [_fk_line(text), rows[0][2]])
            continue
        for f in fks:   # the catalog names unnamed constraints
            if f.get("name") is None:
                f["name"] = f"c_{f['cols'][0]}_fkey"
        problems = _compare_fks(tm, lst, "postgresql")
        ctx.check(not problems, key, "; ".join(problems) + f" -- DDL: {_fk_line(text)} -- catalog: {rows[0][2]}",
                  "catalog text read back", W.dcls.loc, [_fk_line(text), rows[0][2], repr(lst)])
    W.analysed()


# ---------------------------------------------------------------------------------------- MySQL

def _mysql_show_create(W: World, tm: TableModel, type_names: Dict[str, str]) -> str:
    """SHOW CREATE TABLE text of a TableModel (oracles catalog_fk_text.json / catalog_type_names.json)"""
    o = load("catalog_fk_text.json")["mysql"]

    def q(n):
        return "`" + n.replace("`", "``") + "`"

    def act(v):
        return re.sub(r"\s+", " ", v.upper()).strip()

    lines = []
    for n, t, nullable in tm.columns:
        ty = type_names.get(n, "int")
        lines.append(f"  {q(n)} {ty}" + (" NOT NULL" if (not nullable or n in tm.pk) else " DEFAULT NULL"))
    lines.append("  PRIMARY KEY (" + ",".join(q(n) for n in tm.pk) + ")")
    for f in tm.fks:
        lines.append("  KEY " + q(f.get("name") or "c_ibfk_1") + " (" + ",".join(q(c) for c in f["cols"]) + ")")
    for i, f in enumerate(tm.fks, 1):
        table = q(f["rtable"])
        if f.get("rschema"):
            table = q(f["rschema"]) + "." + table
        od = f.get("ondelete")
        ou = f.get("onupdate")
        ondelete = f" ON DELETE {act(od)}" if od and act(od) != o["omitted_action"] else ""
        onupdate = f" ON UPDATE {act(ou)}" if ou and act(ou) != o["omitted_action"] else ""
        lines.append(o["template"].format(name=(f.get("name") or f"c_ibfk_{i}").replace("`", "``"),
                                          local=o["list_separator"].join(q(c) for c in f["cols"]), table=table,
                                          remote=o["list_separator"].join(q(c) for c in f["rcols"]),
                                          ondelete=ondelete, onupdate=onupdate))
    return (f"CREATE TABLE {q(tm.name)} (\n" + ",\n".join(lines) +
            "\n) ENGINE=InnoDB DEFAULT CHARSET=utf8mb4 COLLATE=utf8mb4_0900_ai_ci")


class MysqlCatalog:
    def __init__(self, W: World, text: str):
        self.text = text
        d = W.dialect
        row = ("c", text)
        res = Inst(None, {}, label="result")
        res.stubs["fetchone"] = lambda: row
        res.stubs["first"] = lambda: row
        res.stubs["__iter__"] = lambda: [row]
        conn = W.conn
        conn.stubs["execution_options"] = lambda **kw: conn
        conn.stubs["exec_driver_sql"] = lambda st, *a, **k: res


def _mysql_world(ctx) -> World:
    W = World(ctx, MYSQL, paramstyle="format", _connection_charset="utf8mb4", server_version_info=(8, 0, 30),
              default_schema_name="test", _casing=0, _needs_correct_for_88718_96365=False, is_mariadb=False,
              _is_mariadb=False, _is_mysql=True)
    return W


def _r2_mysql(ctx, actions):
    W = _mysql_world(ctx)
    L = W.L
    scen = [s for s in _fk_scenarios(actions, _unquoted_special_char(W))]
    scen.append(("other-schema", [{"name": "fk1", "cols": ["pid"], "rtable": "p", "rcols": ["id"], "rschema": "other",
                                   "ondelete": "CASCADE"}], {}))
    for sid, fks, _ in scen:
        key = _key(MYSQL, "get_foreign_keys", f"reads-catalog-text-of-what-ddl-writes[{sid}]")
        tm, text, why = _guard(ctx, f"mysql writer {sid}", _writer_accepts, W, fks, False)
        if tm is None:
            ctx.ok(key, f"not writable on this dialect ({why})", nontrivial=False)
            continue
        show = _mysql_show_create(W, tm, {})
        MysqlCatalog(W, show)
        try:
            got = _guard(ctx, f"mysql reader {sid}", L.call_method, W.dialect, "get_foreign_keys", W.conn, tm.name)
        except ModelRaise as e:
            ctx.violation(key, f"get_foreign_keys raises {e} for SHOW CREATE TABLE text", W.dcls.loc, [show])
            continue
        for i, f in enumerate(fks, 1):
            if f.get("name") is None:
                f["name"] = f"c_ibfk_{i}"
        problems = _compare_fks(tm, got, "mysql")
        ctx.check(not problems, key, "; ".join(problems) + f" -- DDL: {_fk_line(text)} -- catalog: {_fk_line(show)}",
                  "SHOW CREATE TABLE text read back", W.dcls.loc, [_fk_line(text), show, repr(got)])
    W.analysed()


# ============================================================================================ R3: SQLite constraints

def _sqlite_constraint_scenarios(special: Optional[str] = None):
    cols = [("id", "INTEGER", False), ("a", "INTEGER", True), ("b c", "INTEGER", True), ("d", "VARCHAR", True)]
    S = []
    if special:
        x = special
        cols.append((f"e{x}1", "INTEGER", True))
        S.append(("unique:unquoted-special-char-names", "get_unique_constraints",
                  dict(uniques=[{"name": f"uq{x}1", "cols": [f"e{x}1", "a"]}])))
        S.append(("check:unquoted-special-char-name", "get_check_constraints",
                  dict(checks=[{"name": f"ck{x}1", "sqltext": "a > 0"}])))
        S.append(("pk:unquoted-special-char-name", "get_pk_constraint", dict(pk_name=f"pk{x}1")))
    # (id, reader, kwargs for TableModel, expectation)
    S.append(("unique:unnamed", "get_unique_constraints", dict(uniques=[{"name": None, "cols": ["a"]}])))
    S.append(("unique:named-composite", "get_unique_constraints", dict(uniques=[{"name": "uq_ab", "cols": ["a", "d"]}])))
    S.append(("unique:quoted-name", "get_unique_constraints", dict(uniques=[{"name": "u q", "cols": ["a"]}])))
    S.append(("unique:quoted-column", "get_unique_constraints", dict(uniques=[{"name": "uq2", "cols": ["b c", "a"]}])))
    S.append(("unique:two", "get_unique_constraints", dict(uniques=[{"name": "uq_a", "cols": ["a"]},
                                                                   {"name": None, "cols": ["d"]}])))
    S.append(("unique:reserved-word-name", "get_unique_constraints", dict(uniques=[{"name": "order", "cols": ["d"]}])))
    S.append(("check:unnamed", "get_check_constraints", dict(checks=[{"name": None, "sqltext": "a > 0"}])))
    S.append(("check:named", "get_check_constraints", dict(checks=[{"name": "ck_a", "sqltext": "a > 0"}])))
    S.append(("check:quoted-name", "get_check_constraints", dict(checks=[{"name": "ck a", "sqltext": "a > 0"}])))
    S.append(("check:nested-parens", "get_check_constraints",
              dict(checks=[{"name": "ck_p", "sqltext": "(a > 0) AND (d IN ('x', 'y)'))"}])))
    S.append(("check:two", "get_check_constraints", dict(checks=[{"name": "ck_1", "sqltext": "a > 0"},
                                                                 {"name": "ck_2", "sqltext": "a < 10"}])))
    S.append(("pk:named", "get_pk_constraint", dict(pk_name="pk_c")))
    S.append(("pk:quoted-name", "get_pk_constraint", dict(pk_name="pk c")))
    S.append(("pk:composite-named", "get_pk_constraint", dict(pk_name="pk_two", pk=["id", "a"])))
    S.append(("pk:unnamed", "get_pk_constraint", dict()))
    return cols, S


@R.rule("C15-R3", floor=18, template="T-TABLE",
        desc="SQLite: names and column lists of the PRIMARY KEY / UNIQUE / CHECK clauses the DDL compiler writes into "
             "CREATE TABLE are read back by get_pk_constraint / get_unique_constraints / get_check_constraints from "
             "that statement text (writer and reader run on models)")
def r3(ctx):
    W = World(ctx, SQLITE)
    cols, scen = _sqlite_constraint_scenarios(_unquoted_special_char(W))
    for sid, reader, kw in scen:
        key = _key(SQLITE, reader, f"reads-what-ddl-writes[{sid}]")
        tm = TableModel(W, "c", cols, **kw)
        try:
            text = _guard(ctx, f"sqlite writer {sid}", tm.create_table_text)
        except ModelRaise as e:
            ctx.violation(key, f"the DDL compiler raises {e}", W.dcls.loc)
            continue
        SqliteCatalog(tm, text)
        try:
            got = _guard(ctx, f"sqlite reader {sid}", W.L.call_method, W.dialect, reader, W.conn, tm.name)
        except ModelRaise as e:
            ctx.violation(key, f"{reader} raises {e} for the table the DDL compiler wrote", W.dcls.loc, [text.strip()])
            continue
        problems = []
        if reader == "get_unique_constraints":
            exp = sorted((u.get("name") or "", list(u["cols"])) for u in tm.uniques)
            have = sorted(((r.get("name") or ""), list(r.get("column_names") or [])) for r in (got or []))
            if exp != have:
                problems.append(f"unique constraints read back as {have!r}, written {exp!r}")
        elif reader == "get_check_constraints":
            exp = sorted((c.get("name") or "", c["sqltext"]) for c in tm.checks)
            have = sorted(((r.get("name") or ""), (r.get("sqltext") or "").strip()) for r in (got or []))
            if exp != have:
                problems.append(f"check constraints read back as {have!r}, written {exp!r}")
        else:
            if not isinstance(got, dict) or list(got.get("constrained_columns") or []) != list(tm.pk):
                problems.append(f"primary key columns read back as {got!r}, written {tm.pk!r}")
            elif got.get("name") != tm.pk_name:
                problems.append(f"primary key name read back as {got.get('name')!r}, written {tm.pk_name!r}")
        ctx.check(not problems, key, "; ".join(problems), "read back", W.dcls.loc, [text.strip(), repr(got)])
    W.analysed()


# ============================================================================================ R4: SQLite indexes

@R.rule("C15-R4", floor=7, template="T-TABLE",
        desc="SQLite: CREATE INDEX as written by the DDL compiler (name, UNIQUE, column list, partial index WHERE "
             "predicate) is read back by get_indexes from the catalog model + that statement text")
def r4(ctx):
    W = World(ctx, SQLITE)
    cols = [("id", "INTEGER", False), ("a", "INTEGER", True), ("b c", "INTEGER", True), ("d", "VARCHAR", True)]
    scen = [
        ("plain", dict(name="ix_a", cols=["a"], unique=False, where=None)),
        ("unique", dict(name="ix_u", cols=["a"], unique=True, where=None)),
        ("composite", dict(name="ix_ad", cols=["a", "d"], unique=False, where=None)),
        ("partial", dict(name="ix_p", cols=["a"], unique=False, where="a > 5")),
        ("partial-unique", dict(name="ix_pu", cols=["d"], unique=True, where="d IS NOT NULL")),
        ("partial-parens", dict(name="ix_pp", cols=["a"], unique=False, where="(a > 5) AND (d != 'x')")),
        ("quoted", dict(name="ix b", cols=["b c"], unique=False, where='"b c" > 1')),
    ]
    for sid, spec in scen:
        key = _key(SQLITE, "get_indexes", f"reads-what-ddl-writes[{sid}]")
        tm = TableModel(W, "c", cols)
        try:
            ttext = _guard(ctx, f"sqlite writer {sid}", tm.create_table_text)
            itext = _guard(ctx, f"sqlite index writer {sid}", tm.create_index_text, tm.index(**spec))
        except ModelRaise as e:
            ctx.violation(key, f"the DDL compiler raises {e}", W.dcls.loc)
            continue
        SqliteCatalog(tm, ttext, indexes=[(spec["name"], spec["cols"], spec["unique"], spec["where"], itext)])
        try:
            got = _guard(ctx, f"sqlite reader {sid}", W.L.call_method, W.dialect, "get_indexes", W.conn, tm.name)
        except ModelRaise as e:
            ctx.violation(key, f"get_indexes raises {e} for the index the DDL compiler wrote", W.dcls.loc, [itext])
            continue
        problems = []
        hits = [r for r in (got or []) if isinstance(r, dict) and r.get("name") == spec["name"]]
        if len(hits) != 1:
            problems.append(f"index {spec['name']!r} reflected {len(hits)} times ({got!r})")
        else:
            r = hits[0]
            if list(r.get("column_names") or []) != spec["cols"]:
                problems.append(f"columns {r.get('column_names')!r} instead of {spec['cols']!r}")
            if bool(r.get("unique")) != spec["unique"]:
                problems.append(f"unique {r.get('unique')!r} instead of {spec['unique']!r}")
            opts = r.get("dialect_options") or {}
            w = [v for k, v in opts.items() if k.endswith("_where")]
            wtext = None
            if w:
                v = w[0]
                wtext = v if isinstance(v, str) else (v.args[0] if isinstance(v, Inst) and v.args else
                                                      (v.attrs.get("text") if isinstance(v, Inst) else None))
            if (wtext or None) != spec["where"] and (wtext or "").strip() != (spec["where"] or ""):
                problems.append(f"partial index predicate read back as {wtext!r}, written {spec['where']!r}")
        if W.L.warnings:
            problems.append("reader warned: " + "; ".join(W.L.warnings))
            W.L.warnings.clear()
        ctx.check(not problems, key, "; ".join(problems) + f" -- DDL: {itext}", "read back", W.dcls.loc, [itext, repr(got)])
    W.analysed()


# ============================================================================================ R6: SQLite primary key

def _sqlite_pk_scenarios():
    """table descriptions over every input the DDL compiler's primary key code distinguishes: the dialect level
    table option that moves the PRIMARY KEY clause into the column definition, the shape / type of the key, a
    foreign key on the key column, a constraint name"""
    shapes = [
        ("integer", [("id", "INTEGER", False), ("a", "INTEGER", True)], ["id"], None),
        ("integer-named", [("id", "INTEGER", False), ("a", "INTEGER", True)], ["id"], "pk_c"),
        ("biginteger", [("id", "BIGINT", False), ("a", "INTEGER", True)], ["id"], None),
        ("varchar", [("id", "VARCHAR", False), ("a", "INTEGER", True)], ["id"], None),
        ("composite", [("a", "INTEGER", False), ("id", "INTEGER", False)], ["id", "a"], None),
    ]
    out = []
    for autoinc in (False, True):
        for sname, cols, pk, pk_name in shapes:
            for with_fk in (False, True):
                fks = [{"name": "fk1", "cols": ["id"], "rtable": "p", "rcols": ["id"]}] if with_fk else []
                sid = f"{sname}{'+fk' if with_fk else ''}{'+autoincrement' if autoinc else ''}"
                out.append((sid, dict(columns=cols, pk=pk, pk_name=pk_name, fks=fks,
                                      table_opts={"autoincrement": True} if autoinc else None)))
    return out


@R.rule("C15-R6", floor=20, template="T-TABLE",
        desc="SQLite: the CREATE TABLE text the DDL compiler writes declares the table's primary key exactly once "
             "(column level or table level; SQLite's grammar from an oracle decides what the backend makes of the "
             "text) for every combination of sqlite_autoincrement, key shape / type and a foreign key on the key "
             "column, and get_pk_constraint reads the same columns back in key order")
def r6(ctx):
    W = World(ctx, SQLITE)
    for sid, kw in _sqlite_pk_scenarios():
        key = _key(SQLITE, "get_pk_constraint", f"primary-key-written-once-and-read-back[{sid}]")
        kw = dict(kw)
        cols = kw.pop("columns")
        tm = TableModel(W, "c", cols, **kw)
        try:
            text = _guard(ctx, f"sqlite writer {sid}", tm.create_table_text)
        except ModelRaise as e:
            if e.cls_name == "CompileError":
                ctx.ok(key, f"not writable on this dialect ({e.message})", nontrivial=False)
            else:
                ctx.violation(key, f"the DDL compiler raises {e}", W.dcls.loc)
            continue
        try:
            SqliteCatalog(tm, text, pk_from_text=True)
        except SqliteRejects as e:
            if e.about == "autoincrement" and "INTEGER" in str(e):
                # documented limit of the backend, not a disagreement of writer and reader: the table cannot be
                # created, so there is nothing to reflect (SQLite dialect documentation, "Allowing autoincrement
                # behavior SQLAlchemy types other than Integer/INTEGER")
                ctx.ok(key, f"not an input: SQLite does not accept this definition ({e})", nontrivial=False)
                continue
            ctx.violation(key, f"SQLite rejects the CREATE TABLE statement the DDL compiler writes for a table with "
                               f"primary key {tm.pk!r}: {e} -- DDL: {' '.join(text.split())}", W.dcls.loc, [text.strip()])
            continue
        except NotUnderstood as e:
            raise AnalysisError(f"C15-R6 model: {sid}: {e}")
        declared = sqlite_primary_key(text)
        try:
            got = _guard(ctx, f"sqlite reader {sid}", W.L.call_method, W.dialect, "get_pk_constraint", W.conn, tm.name)
        except ModelRaise as e:
            ctx.violation(key, f"get_pk_constraint raises {e} for the table the DDL compiler wrote", W.dcls.loc,
                          [text.strip()])
            continue
        problems = []
        if declared != list(tm.pk):
            problems.append(f"the statement the DDL compiler writes declares the primary key {declared!r}, the table "
                            f"was defined with {tm.pk!r}" + (" (no PRIMARY KEY clause at all: the column definition and "
                                                            "the table level constraint each leave it to the other)"
                                                            if not declared else ""))
        have = list(got.get("constrained_columns") or []) if isinstance(got, dict) else got
        if have != list(tm.pk):
            problems.append(f"get_pk_constraint reads back {have!r}")
        ctx.check(not problems, key, "; ".join(problems) + f" -- DDL: {' '.join(text.split())}", "declared once, read back",
                  W.dcls.loc, [text.strip(), repr(got)])
    W.analysed()


# ============================================================================================ R7: PostgreSQL referred schema

def _pg_schema_scenarios():
    o = load("pg_search_path.json")
    visible = list(o["search_path"])
    default = o["default_schema"]
    off = list(o["schemas_off_the_search_path"])
    reflect = [None, default] + [s for s in visible if s != default] + off
    targets = [default] + [s for s in visible if s != default] + off
    return o, [(s, t, ign) for ign in (False, True) for s in reflect for t in targets]


@R.rule("C15-R7", floor=24, template="T-TABLE",
        desc="PostgreSQL: for every combination of (schema the table is reflected with, schema the referenced table "
             "lives in, postgresql_ignore_search_path) the `referred_schema` get_multi_foreign_keys reports names the "
             "schema the referenced table lives in -- or is None where a schema-less name reaches it (search_path / "
             "default schema, oracle pg_search_path.json); catalog text as pg_get_constraintdef() prints it (qualified "
             "iff not visible)")
def r7(ctx):
    o, scen = _pg_schema_scenarios()
    visible, default = set(o["search_path"]), o["default_schema"]
    W = World(ctx, PG, paramstyle="named", default_schema_name=default, server_version_info=(16, 0))
    L = W.L
    for schema, target, ignore in scen:
        sid = f"reflect={schema},target={target}" + (",ignore_search_path" if ignore else "")
        key = _key(PG, "get_multi_foreign_keys", f"referred-schema-is-where-the-target-lives[{sid}]")
        f = {"name": "fk1", "cols": ["pid"], "rtable": "p", "rcols": ["id"], "ondelete": "CASCADE"}
        printed = dict(f, rschema=target) if (target not in visible and o["constraintdef_qualifies_iff_not_visible"]) else f
        tm = _fk_table(W, [dict(f)])
        condef = _pg_condef(W, printed)
        rows = [(tm.name, f["name"], condef, target, None)]
        W.conn.stubs["execute"] = _first_then_empty(_Result(rows=rows))
        try:
            got = _guard(ctx, f"postgresql reader {sid}", L.call_method, W.dialect, "get_multi_foreign_keys", W.conn,
                         schema, [tm.name], Opaque("scope"), Opaque("kind"), postgresql_ignore_search_path=ignore)
            got = dict(list(got)) if not isinstance(got, dict) else got
            lst = got.get((schema, tm.name))
        except ModelRaise as e:
            ctx.violation(key, f"get_multi_foreign_keys raises {e} for catalog text {condef!r}", W.dcls.loc, [condef])
            continue
        if not isinstance(lst, list) or len(lst) != 1 or not isinstance(lst[0], dict):
            ctx.violation(key, f"get_multi_foreign_keys returns {lst!r} for catalog text {condef!r}", W.dcls.loc, [condef])
            continue
        r = lst[0].get("referred_schema", "<missing>")
        reach = (target == default) if ignore else (target in visible)
        ok = r == target or (r is None and reach)
        ctx.check(ok, key,
                  f"table reflected with schema={schema!r}, foreign key to a table that lives in schema {target!r} "
                  f"(pg_get_constraintdef prints {condef!r}, its schema column says {target!r}): referred_schema is "
                  f"{r!r}, which names " + ("no schema through which the table is reached" if r is None else
                                            "a schema the referenced table does not live in")
                  + ": Table reflection / a re-created table refers to another relation",
                  f"referred_schema {r!r}", W.dcls.loc, [condef, repr(lst)])
    W.analysed()


# ============================================================================================ R1: type names

def _canonical_type_text(dialect: str, text: str) -> str:
    """how the backend's catalog spells a column type that was declared as `text` (oracle)"""
    o = load("catalog_type_names.json")[dialect]
    if o["case"] == "verbatim":
        return text
    m = re.match(r"^\s*([A-Za-z_][\w ]*?)\s*(?:(\(.*?\))\s*([A-Za-z_][\w ]*?)?)?\s*((?:\[\])*)\s*$", text)
    if not m:
        return text.lower()
    head, args, tail, arr = m.group(1), m.group(2) or "", m.group(3) or "", m.group(4) or ""
    words = re.sub(r"\s+", " ", (head + " " + tail).strip()).upper()
    canon = o["aliases"].get(words)
    extra = ""
    if canon is None:
        # attributes such as UNSIGNED / CHARACTER SET follow the name: canonicalise the leading name only
        hw = re.sub(r"\s+", " ", head.strip()).upper()
        canon = o["aliases"].get(hw, hw.lower())
        extra = (" " + tail.lower()) if tail else ""
        words = hw
    args = args.replace(" ", "")
    if not args:
        args = o.get("implicit_arguments", {}).get(words, "")
    first = canon.split(" ")[0]
    if args and " " in canon and first in o.get("modifier_after_first_word", []):
        return first + args + canon[len(first):] + extra + arr
    return canon + args + extra + arr


def _is_canonical_key(dialect: str, key: str) -> bool:
    o = load("catalog_type_names.json")[dialect]
    if o["case"] == "verbatim":
        return True
    canon = o["aliases"].get(key.upper())
    return canon is None or canon == key


def _affinity(W: World, cls: ClassInfo) -> Optional[ClassInfo]:
    memo = W.__dict__.setdefault("_aff", {})
    if cls.key not in memo:
        memo[cls.key] = _affinity_uncached(W, cls)
    return memo[cls.key]


def _affinity_uncached(W: World, cls: ClassInfo) -> Optional[ClassInfo]:
    t = Inst(cls, {})
    t.default_attr = lambda a: None
    v = W.L.getattr(t, "_type_affinity")
    if isinstance(v, ClassVal):
        return v.cls
    if v is None:
        return None
    raise Unsupported(f"_type_affinity of {cls.qualname} evaluates to {v!r}")


def _type_instances(W: World, cls: ClassInfo):
    """model instances of a type class: built by the class's own constructor (no argument, a length, two
    labels), then bare instances whose every attribute is None / the integer 7"""
    L = W.L
    for args in ((), (7,), ("a", "b")):
        budget = L.budget
        try:
            t = L.run_init(cls, list(args), {})
        except (Unsupported, ModelRaise):
            L.budget = budget
            continue
        t.default_attr = lambda a: None
        yield t
    for fill in (None, 7):
        t = Inst(cls, {})
        t.default_attr = (lambda a, fill=fill: fill)
        yield t


def _write_type(W: World, cls: ClassInfo) -> Tuple[Optional[str], str]:
    """text the dialect's type compiler writes for an instance of `cls` (first model instance it accepts)"""
    why = ""
    for t in _type_instances(W, cls):
        t.stubs["dialect_impl"] = lambda dialect, t=t: t
        try:
            txt = W.dispatch(W.tc, t, identifier_preparer=W.wprep)
            if isinstance(txt, str) and txt:
                return txt, ""
        except ModelRaise as e:
            why = str(e)
        except Unsupported as e:
            why = f"outside the model: {e}"
    return None, why


class _Row:
    """catalog row of the model connection: known columns answer, unknown columns are a hole in the model"""

    def __init__(self, **vals):
        self.inst = Inst(None, {}, label="row")
        self.vals = vals

        def get(k):
            if k in vals:
                return vals[k]
            raise Unsupported(f"the catalog row model has no column {k!r}")

        self.inst.stubs["__getitem__"] = get


def _read_type(ctx, W: World, dialect: str, catalog_text: str):
    """run the dialect's column reflection on a one-column table whose catalog type is `catalog_text`"""
    L = W.L
    L.warnings.clear()
    if dialect == "sqlite":
        tm = TableModel(W, "c", [("id", "INTEGER", False), ("x", "INTEGER", True)])
        SqliteCatalog(tm, f"CREATE TABLE c (id INTEGER NOT NULL, x {catalog_text}, PRIMARY KEY (id))",
                      type_texts={"x": catalog_text})
        cols = L.call_method(W.dialect, "get_columns", W.conn, "c")
        cols = [c for c in cols if isinstance(c, dict) and c.get("name") == "x"] if isinstance(cols, list) else cols
    elif dialect == "postgresql":
        row = _Row(name="x", table_name="c", format_type=catalog_text, default=None, not_null=False, generated="",
                   identity_options=None, comment=None, collation=None)
        W.conn.stubs["execute"] = _first_then_empty(_Result(rows=[], mappings=[row.inst]))
        got = L.call_method(W.dialect, "get_multi_columns", W.conn, None, ["c"], Opaque("scope"), Opaque("kind"))
        got = dict(list(got))
        cols = got.get((None, "c"))
    else:
        show = ("CREATE TABLE `c` (\n  `x` " + catalog_text + " DEFAULT NULL\n"
                ") ENGINE=InnoDB DEFAULT CHARSET=utf8mb4 COLLATE=utf8mb4_0900_ai_ci")
        MysqlCatalog(W, show)
        cols = L.call_method(W.dialect, "get_columns", W.conn, "c")
    if not isinstance(cols, list) or len(cols) != 1 or not isinstance(cols[0], dict):
        raise Unsupported(f"column reflection returned {cols!r}")
    return cols[0].get("type")


def _r1_dialect(ctx, dialect_key: str, W: World):
    L = W.L
    names = _guard(ctx, "ischema_names", L.getattr, W.dialect, "ischema_names")
    ctx.require(isinstance(names, dict) and names, f"{dialect_key}.ischema_names is not a dictionary")
    dname = W.name
    for k in sorted(names, key=str):
        v = names[k]
        if not isinstance(k, str) or not isinstance(v, ClassVal):
            continue
        key = f"{dialect_key}.ischema_names[{k}]:recreate-rereflect"
        if not _is_canonical_key(dname, k):
            continue      # the catalog never prints this spelling (alias): the entry is not reachable by C15's inputs
        cls = v.cls
        aff = _guard(ctx, f"affinity of {cls.qualname}", _affinity, W, cls)
        text, why = _write_type(W, cls)
        if text is None:
            ctx.ok(key, f"{cls.name}: not writable in the model ({why[:80]})", nontrivial=False)
            continue
        cat = _canonical_type_text(dname, text)
        try:
            got = _guard(ctx, f"{dname} column reflection of {cat!r}", _read_type, ctx, W, dname, cat)
        except ModelRaise as e:
            ctx.violation(key, f"column reflection raises {e} for catalog type {cat!r} (written as {text!r})", W.dcls.loc)
            continue
        if not isinstance(got, Inst) or got.cls is None:
            ctx.violation(key, f"{cls.name} is written as {text!r}, the catalog reports {cat!r}, read back as {got!r}",
                          W.dcls.loc)
            continue
        aff2 = _guard(ctx, f"affinity of {got.cls.qualname}", _affinity, W, got.cls)
        ok = aff is not None and aff2 is aff
        ctx.check(ok, key,
                  f"{cls.name} (affinity {aff.name if aff else None}) is written as {text!r}, the catalog reports "
                  f"{cat!r}, and that is read back as {got.cls.name} (affinity {aff2.name if aff2 else None})"
                  + (f"; reader warned: {L.warnings}" if L.warnings else ""),
                  f"{cls.name} -> {text!r} -> {cat!r} -> {got.cls.name}", W.dcls.loc)
    W.analysed()


# types a dialect's compiler writes that the backend does not have as a type of its own (documented emulation):
# the catalog reports the substitute, which is what reflection must return.
EMULATED = {
    "dialects/mysql/base.py::MySQLTypeCompiler.visit_BOOLEAN":
        "MySQL has no boolean type: BOOL/BOOLEAN are synonyms of TINYINT(1) (reference manual, 'Numeric Data Type "
        "Syntax'); the catalog reports tinyint(1)",
}


def _type_classes_by_visit_name(W: World) -> Dict[str, List[ClassInfo]]:
    """TypeEngine subclasses by their class level __visit_name__ (dialect package first, then sql/sqltypes.py)"""
    ix = W.ix
    te = ix.cls("sql/type_api.py::TypeEngine")
    pkg = W.dcls.module.relpath.rsplit("/", 1)[0] + "/"
    out: Dict[str, List[ClassInfo]] = {}
    for c in ix.all_classes():
        rel = c.module.relpath
        if not (rel.startswith(pkg) or rel == "sql/sqltypes.py"):
            continue
        nodes = c.assigns.get("__visit_name__")
        if not nodes or not isinstance(nodes[-1], __import__("ast").Constant) or not isinstance(nodes[-1].value, str):
            continue
        if not W.L.is_subclass(c, te):
            continue
        out.setdefault(nodes[-1].value, []).append(c)
    for k in out:
        out[k].sort(key=lambda c: (not c.module.relpath.startswith(pkg), c.key))
    return out


def _r1_own_names(ctx, dialect_key: str, W: World):
    """every native type name the dialect's own type compiler class writes is readable by the dialect"""
    L = W.L
    dname = W.name
    by_name = _type_classes_by_visit_name(W)
    tc = W.tc_cls
    for mname in sorted(tc.methods):
        f = tc.methods[mname]
        nm = mname[len("visit_"):]
        if not mname.startswith("visit_") or not nm.isupper() or f.type_only:
            continue
        key = f"{tc.key}.{mname}:written-name-is-read-back"
        classes = by_name.get(nm)
        if not classes:
            continue
        cls = classes[0]
        if f.key in EMULATED:
            ctx.ok(key, "emulated type: " + EMULATED[f.key], nontrivial=False)
            continue
        aff = _guard(ctx, f"affinity of {cls.qualname}", _affinity, W, cls)
        text, why = _write_type(W, cls)
        if text is None:
            ctx.ok(key, f"{cls.name}: not writable in the model ({why[:80]})", nontrivial=False)
            continue
        cat = _canonical_type_text(dname, text)
        try:
            got = _guard(ctx, f"{dname} column reflection of {cat!r}", _read_type, ctx, W, dname, cat)
        except ModelRaise as e:
            ctx.violation(key, f"column reflection raises {e} for catalog type {cat!r} (written as {text!r})", f.loc)
            continue
        aff2 = None
        if isinstance(got, Inst) and got.cls is not None:
            aff2 = _guard(ctx, f"affinity of {got.cls.qualname}", _affinity, W, got.cls)
        ok = aff is not None and aff2 is aff
        ctx.check(ok, key,
                  f"{cls.name} (affinity {aff.name if aff else None}) is written as {text!r}; the catalog reports {cat!r}; "
                  f"column reflection reads that as {got.cls.name if isinstance(got, Inst) and got.cls else got!r} "
                  f"(affinity {aff2.name if aff2 else None})" + (f"; reader warned: {L.warnings}" if L.warnings else ""),
                  f"{cls.name} -> {text!r} -> {cat!r} -> {got.cls.name if isinstance(got, Inst) and got.cls else got!r}",
                  f.loc)
    W.analysed()


@R.rule("C15-R1", floor=150, template="T-TABLE",
        desc="type names: (a) re-create / re-reflect: every type a dialect's reflection can produce (value of "
             "ischema_names under a name the catalog can print) is written by the dialect's type compiler as text whose "
             "catalog spelling (oracle) the same dialect's column reflection reads back to the same type affinity; "
             "(b) every native type name written by a visit_<NAME> method of the dialect's own type compiler class is "
             "read back to the affinity of the type it was written for")
def r1(ctx):
    for key, mk in ((SQLITE, lambda: World(ctx, SQLITE)),
                    (PG, lambda: World(ctx, PG, paramstyle="named", default_schema_name="public",
                                       server_version_info=(16, 0))),
                    (MYSQL, lambda: _mysql_world(ctx))):
        W = mk()
        _r1_dialect(ctx, key, W)
        _r1_own_names(ctx, key, W)


# ============================================================================================ R5: record keys

# keys of reflected records that are private to a dialect (never handed to a schema constructor)
PRIVATE_KEYS = {
    ("sqlite", "column", "primary_key"):
        "position in the primary key from PRAGMA table_info; consumed by SQLiteDialect.get_pk_constraint, ignored by "
        "Inspector._reflect_column",
}


def _ctor_params(W: World, cls: ClassInfo) -> Tuple[set, bool]:
    f = W.L.find_method(cls, "__init__")
    if f is None:
        raise AnalysisError(f"C15-R5: {cls.key} has no __init__")
    a = f.node.args
    names = {x.arg for x in a.posonlyargs + a.args + a.kwonlyargs} - {"self"}
    return names, a.kwarg is not None


def _consumer_class(ctx, class_name: str) -> ClassInfo:
    """the schema class that Inspector methods construct with a `**<reflected dictionary>` argument"""
    ix = ctx.index
    insp = ix.cls("engine/reflection.py::Inspector")
    want = ix.cls(SCH + class_name)
    for f in insp.methods.values():
        for c in calls_in(f.node):
            if not any(k.arg is None for k in c.keywords):
                continue
            r = ix.resolve(f.module, call_name(c) or "")
            if r is want:
                ctx.functions_analysed.add(f.key)
                return want
    raise AnalysisError(f"C15-R5: no Inspector method constructs {class_name}(**<reflected options>)")


def _typed_dict_fields(ctx, key: str) -> set:
    import ast as _ast
    c = ctx.index.cls(key)
    out = set()
    for k in [c] + [b for b in c.bases if b is not None]:
        for st in k.node.body:
            if isinstance(st, _ast.AnnAssign) and isinstance(st.target, _ast.Name):
                out.add(st.target.id)
    return out


@R.rule("C15-R5", floor=20, template="T-TABLE",
        desc="every key of a reflected foreign key `options` dictionary / index `dialect_options` dictionary is an "
             "argument the constructor that Inspector calls with `**` accepts (or a `<dialect>_<name>` argument declared "
             "in the dialect's construct_arguments); every key of a reflected column record is a field of "
             "ReflectedColumn (records observed from the model runs)")
def r5(ctx):
    fk_cls = _consumer_class(ctx, "ForeignKeyConstraint")
    ix_cls = _consumer_class(ctx, "Index")
    col_fields = _typed_dict_fields(ctx, "engine/interfaces.py::ReflectedColumn")
    ctx.require(len(col_fields) >= 4, "ReflectedColumn fields not found")
    rich = [{"name": "fk1", "cols": ["pid"], "rtable": "p", "rcols": ["id"], "ondelete": "CASCADE", "onupdate": "SET NULL",
             "deferrable": True, "initially": "DEFERRED"},
            {"name": "fk2", "cols": ["qid"], "rtable": "q", "rcols": ["id"], "match": "FULL"}]
    worlds = [
        (SQLITE, lambda: World(ctx, SQLITE)),
        (PG, lambda: World(ctx, PG, paramstyle="named", default_schema_name="public", server_version_info=(16, 0))),
        (MYSQL, lambda: _mysql_world(ctx)),
    ]
    for dkey, mk in worlds:
        W = mk()
        L = W.L
        dn = W.name
        params, _ = _ctor_params(W, fk_cls)
        dargs = W.construct_argument_names(fk_cls)
        seen: Dict[str, Any] = {}
        for f in rich:
            tm, text, why = _guard(ctx, f"{dn} writer", _writer_accepts, W, [dict(f)], dn == "sqlite")
            if tm is None:
                continue
            try:
                if dn == "sqlite":
                    SqliteCatalog(tm, text)
                    got = _guard(ctx, "sqlite fk reader", L.call_method, W.dialect, "get_foreign_keys", W.conn, tm.name)
                elif dn == "postgresql":
                    rows = [(tm.name, f["name"], _pg_condef(W, f), "public", None)]
                    W.conn.stubs["execute"] = _first_then_empty(_Result(rows=rows))
                    got = _guard(ctx, "pg fk reader", L.call_method, W.dialect, "get_multi_foreign_keys", W.conn, None,
                                 [tm.name], Opaque("scope"), Opaque("kind"))
                    got = dict(list(got)).get((None, tm.name))
                else:
                    MysqlCatalog(W, _mysql_show_create(W, tm, {}))
                    got = _guard(ctx, "mysql fk reader", L.call_method, W.dialect, "get_foreign_keys", W.conn, tm.name)
            except ModelRaise:
                continue        # judged by C15-R2
            for r in got or []:
                for k, v in (r.get("options") or {}).items():
                    seen.setdefault(k, v)
        ctx.require(seen, f"C15-R5: no foreign key option was reflected by the {dn} model run")
        for k in sorted(seen):
            key = f"{dkey}:reflected-fk-option[{k}]"
            ok = k in params or (k.startswith(dn + "_") and k[len(dn) + 1:] in dargs)
            ctx.check(ok, key, f"reflected foreign key option {k!r} is not an argument of {fk_cls.name}() "
                      f"(arguments: {sorted(params)}; {dn} dialect arguments: {sorted(dargs)}): Table reflection raises",
                      f"{k!r} accepted by {fk_cls.name}()", W.dcls.loc)
        # column records
        for cat in (_canonical_type_text(dn, "INTEGER"),):
            try:
                L.warnings.clear()
                rec = _column_record(ctx, W, dn, cat)
            except ModelRaise:
                continue
            for k in sorted(rec):
                key = f"{dkey}:reflected-column-key[{k}]"
                if (dn, "column", k) in PRIVATE_KEYS:
                    ctx.ok(key, "private key: " + PRIVATE_KEYS[(dn, "column", k)], nontrivial=False)
                    continue
                ctx.check(k in col_fields, key, f"reflected column record key {k!r} is not a field of ReflectedColumn "
                          f"({sorted(col_fields)}): Inspector._reflect_column ignores it", f"{k!r} is a ReflectedColumn field",
                          W.dcls.loc)
        if dn == "sqlite":
            iparams, _ = _ctor_params(W, ix_cls)
            iargs = W.construct_argument_names(ix_cls)
            cols = [("id", "INTEGER", False), ("a", "INTEGER", True)]
            tm = TableModel(W, "c", cols)
            ttext = _guard(ctx, "sqlite writer", tm.create_table_text)
            itext = _guard(ctx, "sqlite index writer", tm.create_index_text, tm.index("ix_p", ["a"], False, "a > 5"))
            SqliteCatalog(tm, ttext, indexes=[("ix_p", ["a"], False, "a > 5", itext)])
            try:
                got = _guard(ctx, "sqlite index reader", L.call_method, W.dialect, "get_indexes", W.conn, tm.name)
            except ModelRaise:
                got = []
            for r in got or []:
                for k in sorted(r.get("dialect_options") or {}):
                    key = f"{dkey}:reflected-index-option[{k}]"
                    ok = k in iparams or (k.startswith(dn + "_") and k[len(dn) + 1:] in iargs)
                    ctx.check(ok, key, f"reflected index option {k!r} is not an argument of {ix_cls.name}() "
                              f"({dn} dialect arguments: {sorted(iargs)}): Table reflection raises",
                              f"{k!r} accepted by {ix_cls.name}()", W.dcls.loc)
        W.analysed()


def _column_record(ctx, W: World, dialect: str, catalog_text: str) -> dict:
    # _read_type returns only the type; re-run its plumbing and keep the whole record
    L = W.L
    if dialect == "sqlite":
        _read_type(ctx, W, dialect, catalog_text)
        cols = L.call_method(W.dialect, "get_columns", W.conn, "c")
    elif dialect == "postgresql":
        row = _Row(name="x", table_name="c", format_type=catalog_text, default=None, not_null=False, generated="",
                   identity_options=None, comment=None, collation=None)
        W.conn.stubs["execute"] = _first_then_empty(_Result(rows=[], mappings=[row.inst]))
        got = L.call_method(W.dialect, "get_multi_columns", W.conn, None, ["c"], Opaque("scope"), Opaque("kind"))
        cols = dict(list(got)).get((None, "c"))
    else:
        _read_type(ctx, W, dialect, catalog_text)
        cols = L.call_method(W.dialect, "get_columns", W.conn, "c")
    if isinstance(cols, list):
        cols = [c for c in cols if isinstance(c, dict) and c.get("name") == "x"]
    if not isinstance(cols, list) or len(cols) != 1 or not isinstance(cols[0], dict):
        raise Unsupported(f"column reflection returned {cols!r}")
    return cols[0]


# ============================================================================================ self-test battery

_SQ = "dialects/sqlite/base.py"
_PGF = "dialects/postgresql/base.py"
_MYF = "dialects/mysql/base.py"
_MYR = "dialects/mysql/reflection.py"
_CMP = "sql/compiler.py"

# ---- C15-R1 (type names) -------------------------------------------------------------------------------
R.mutant("r1-sqlite-json-written-under-unknown-name", _SQ,
         sub('''        # numeric value.   JSONTEXT can be used if this case is required.
        return "JSON"''', '''        # numeric value.   JSONTEXT can be used if this case is required.
        return "JSONTEXT"'''), "C15-R1")
R.mutant("r1-pg-tsvector-row-dropped", _PGF, sub('''    "tsvector": TSVECTOR,\n''', ""), "C15-R1")
R.mutant("r1-generic-double-precision-renamed", _CMP, sub('''        return "DOUBLE PRECISION"''', '''        return "DOUBLE"'''),
         "C15-R1")
R.mutant("r1-mysql-type-lookup-upper-cased", _MYR,
         sub("col_type = self.dialect.ischema_names[type_]", "col_type = self.dialect.ischema_names[type_.upper()]"),
         "C15-R1")
R.mutant("benign-r1-sqlite-affinity-restructured", _SQ,
         chain(sub('''        if coltype in self.ischema_names:
            coltype = self.ischema_names[coltype]
        elif "INT" in coltype:
            coltype = sqltypes.INTEGER
        elif "CHAR" in coltype or "CLOB" in coltype or "TEXT" in coltype:
            coltype = sqltypes.TEXT
        elif "BLOB" in coltype or not coltype:
            coltype = sqltypes.NullType
        elif "REAL" in coltype or "FLOA" in coltype or "DOUB" in coltype:
            coltype = sqltypes.REAL
        else:
            coltype = sqltypes.NUMERIC
''', '''        declared = coltype
        known = self.ischema_names.get(declared)
        if known is not None:
            coltype = known
        else:
            coltype = self._affinity_of_declared_type(declared)
'''),
               sub('''    @reflection.cache
    def get_pk_constraint(self, connection, table_name, schema=None, **kw):''', '''    def _affinity_of_declared_type(self, declared):
        def has(*parts):
            return any(p in declared for p in parts)

        if has("INT"):
            return sqltypes.INTEGER
        if has("CHAR", "CLOB", "TEXT"):
            return sqltypes.TEXT
        if has("BLOB") or not declared:
            return sqltypes.NullType
        if has("REAL", "FLOA", "DOUB"):
            return sqltypes.REAL
        return sqltypes.NUMERIC

    @reflection.cache
    def get_pk_constraint(self, connection, table_name, schema=None, **kw):''')), None)
R.mutant("benign-r1-pg-reflect-type-renamed-locals", _PGF,
         chain(sub('''        attype = self._format_type_args_pattern.sub("", format_type)
        attype = self._format_array_spec_pattern.sub("", attype)

        schema_type = self.ischema_names.get(attype.lower(), None)''', '''        bare = self._format_type_args_pattern.sub("", format_type)
        attype = self._format_array_spec_pattern.sub("", bare)
        lookup_name = attype.lower()

        schema_type = self.ischema_names[lookup_name] if lookup_name in self.ischema_names else None''')), None)
R.mutant("benign-r1-sqlite-new-ischema-row", _SQ,
         sub('''    "BIGINT": sqltypes.BIGINT,
    "BLOB": sqltypes.BLOB,''', '''    "BIGINT": sqltypes.BIGINT,
    "INT8": sqltypes.BIGINT,
    "BLOB": sqltypes.BLOB,'''), None)

# ---- C15-R2 (foreign keys) -----------------------------------------------------------------------------
R.mutant("r2-sqlite-restrict-not-in-pattern", _SQ,
         sub('''r"(?:SET\\s+NULL|SET\\s+DEFAULT|CASCADE|RESTRICT|"''', '''r"(?:SET\\s+NULL|SET\\s+DEFAULT|CASCADE|"'''), "C15-R2")
R.mutant("r2-sqlite-update-action-stored-as-delete", _SQ,
         sub('''                        if onupdate and onupdate != "NO ACTION":
                            options["onupdate"] = onupdate''', '''                        if onupdate and onupdate != "NO ACTION":
                            options["ondelete"] = onupdate'''), "C15-R2")
R.mutant("r2-pg-match-inner-group-non-capturing", _PGF,
         sub('''r"[\\s]?(MATCH (FULL|PARTIAL|SIMPLE)+)?"''', '''r"[\\s]?(MATCH (?:FULL|PARTIAL|SIMPLE)+)?"'''), "C15-R2")
R.mutant("r2-mysql-on-update-before-on-delete", _MYR,
         sub('''            r"(?: +ON DELETE (?P<ondelete>%(on)s))?"
            r"(?: +ON UPDATE (?P<onupdate>%(on)s))?" % kw''', '''            r"(?: +ON UPDATE (?P<onupdate>%(on)s))?"
            r"(?: +ON DELETE (?P<ondelete>%(on)s))?" % kw'''), "C15-R2")
R.mutant("r2-mysql-ondelete-not-copied", _MYF,
         sub('''for opt in ("onupdate", "ondelete"):''', '''for opt in ("onupdate",):'''), "C15-R2")
R.mutant("r2-writer-deferrability-before-actions", _CMP,
         sub('''        text += self.define_constraint_match(constraint)
        text += self.define_constraint_cascades(constraint)
        text += self.define_constraint_deferrability(constraint)
        return text''', '''        text += self.define_constraint_match(constraint)
        text += self.define_constraint_deferrability(constraint)
        text += self.define_constraint_cascades(constraint)
        return text'''), "C15-R2")
R.mutant("r2-pg-set-null-column-list-rejected-by-reader", _PGF,
         sub('''            r"[\\s]?(?:ON (UPDATE|DELETE) "
            r"(CASCADE|RESTRICT|NO ACTION|"
            r"SET (?:NULL|DEFAULT)(?:\\s\\(.+\\))?)+)?"
            r"[\\s]?(?:ON (UPDATE|DELETE) "
            r"(CASCADE|RESTRICT|NO ACTION|"
            r"SET (?:NULL|DEFAULT)(?:\\s\\(.+\\))?)+)?"''', '''            r"[\\s]?(?:ON (UPDATE|DELETE) "
            r"(CASCADE|RESTRICT|NO ACTION|"
            r"SET (?:NULL|DEFAULT))+)?"
            r"[\\s]?(?:ON (UPDATE|DELETE) "
            r"(CASCADE|RESTRICT|NO ACTION|"
            r"SET (?:NULL|DEFAULT))+)?"'''), "C15-R2")
R.mutant("benign-r2-sqlite-deferrable-alternation-rewritten", _SQ,
         sub('''r"((?:NOT\\s+)?DEFERRABLE)?"''', '''r"(NOT\\s+DEFERRABLE|DEFERRABLE)?"'''), None)
R.mutant("benign-r2-sqlite-fk-pattern-hoisted-and-compiled", _SQ,
         chain(sub('''            FK_PATTERN = (
                r'(?:CONSTRAINT\\s+(?:"((?:[^"]|"")+)"|(\\w+))\\s+)?\'''', '''            fk_clause = re.compile(
                r'(?:CONSTRAINT\\s+(?:"((?:[^"]|"")+)"|(\\w+))\\s+)?\''''),
               sub('''                r"(?:\\s+INITIALLY\\s+(DEFERRED|IMMEDIATE))?"
            )
            for match in re.finditer(FK_PATTERN, table_data, re.I):''', '''                r"(?:\\s+INITIALLY\\s+(DEFERRED|IMMEDIATE))?",
                re.IGNORECASE,
            )
            for match in fk_clause.finditer(table_data):''')), None)
R.mutant("benign-r2-pg-parse-fk-groups-by-index", _PGF,
         sub('''        onupdate = (
            upddelval1
            if upddelkey1 == "UPDATE"
            else upddelval2 if upddelkey2 == "UPDATE" else None
        )
        ondelete = (
            upddelval1
            if upddelkey1 == "DELETE"
            else upddelval2 if upddelkey2 == "DELETE" else None
        )
''', '''        actions = {upddelkey1: upddelval1, upddelkey2: upddelval2}
        onupdate = actions.get("UPDATE")
        ondelete = actions.get("DELETE")
'''), None)
R.mutant("benign-r2-mysql-options-unrolled", _MYF,
         sub('''            con_kw = {}
            for opt in ("onupdate", "ondelete"):
                if spec.get(opt, False) not in ("NO ACTION", None):
                    con_kw[opt] = spec[opt]
''', '''            fk_options = {}
            upd, dele = spec.get("onupdate"), spec.get("ondelete")
            if upd is not None and upd != "NO ACTION":
                fk_options["onupdate"] = upd
            if dele is not None and dele != "NO ACTION":
                fk_options["ondelete"] = dele
            con_kw = fk_options
'''), None)

# ---- C15-R3 (SQLite constraints in the statement text) ---------------------------------------------------
R.mutant("r3-unique-signature-sorted", _SQ,
         sub('''            sig = tuple(idx["column_names"])
            auto_index_by_sig[sig] = idx''', '''            sig = tuple(sorted(idx["column_names"]))
            auto_index_by_sig[sig] = idx'''), "C15-R3")
R.mutant("r3-check-body-starts-at-paren", _SQ,
         sub('''                sqltext = table_data[match.end() : close].strip()''',
             '''                sqltext = table_data[match.end() - 1 : close].strip()'''), "C15-R3")
R.mutant("r3-check-name-not-unquoted", _SQ,
         sub('''            if constraint_name:
                # Remove surrounding quotes if present''', '''            if constraint_name and False:
                # Remove surrounding quotes if present'''), "C15-R3")
R.mutant("r3-pk-name-only-unquoted", _SQ,
         sub('''                constraint_name = self._unescape_quoted_name(
                    result.group(1)
                ) or result.group(2)''', '''                constraint_name = result.group(2)'''), "C15-R3")
R.mutant("r3-writer-unique-keyword-key", _CMP,
         sub('''        text = "UNIQUE %s(%s)" % (''', '''        text = "UNIQUE KEY %s(%s)" % ('''), "C15-R3")
R.mutant("r3-check-name-word-characters-only", _SQ,
         sub("""                    |\\S+                  # Unquoted: simple_name""",
             """                    |\\w+                  # Unquoted: simple_name"""), "C15-R3")
R.mutant("benign-r3-unique-patterns-compiled-renamed", _SQ,
         chain(sub('''            for match in re.finditer(UNIQUE_PATTERN, table_data, re.I):
                quoted_name, unquoted_name, cols = match.group(1, 2, 3)
                name = self._unescape_quoted_name(quoted_name) or unquoted_name
                yield name, list(self._find_cols_in_sig(cols))''', '''            table_level = re.compile(UNIQUE_PATTERN, re.IGNORECASE)
            for found in table_level.finditer(table_data):
                qname = found.group(1)
                plain = found.group(2)
                column_list = found.group(3)
                if qname:
                    yield self._unescape_quoted_name(qname), list(
                        self._find_cols_in_sig(column_list)
                    )
                else:
                    yield plain, list(self._find_cols_in_sig(column_list))''')), None)
R.mutant("benign-r3-check-sort-key-function", _SQ,
         sub('''        cks.sort(key=lambda d: d["name"] or "~")  # sort None as last
        if cks:
            return cks''', '''        def by_name(rec):
            return rec["name"] or "~"

        ordered = sorted(cks, key=by_name)
        if ordered:
            return ordered'''), None)

# ---- C15-R4 (SQLite indexes) ---------------------------------------------------------------------------
R.mutant("r4-partial-predicate-case-sensitive", _SQ,
         sub('''partial_pred_re = re.compile(r"\\)\\s+where\\s+(.+)", re.IGNORECASE)''',
             '''partial_pred_re = re.compile(r"\\)\\s+where\\s+(.+)")'''), "C15-R4")
R.mutant("r4-unique-from-origin-column", _SQ, sub("unique=row[2],", "unique=row[3],"), "C15-R4")
R.mutant("r4-column-id-instead-of-name", _SQ,
         sub('''idx["column_names"].append(row[2])''', '''idx["column_names"].append(row[1])'''), "C15-R4")
R.mutant("r4-writer-drops-where", _SQ,
         sub('''            text += " WHERE " + where_compiled''', '''            text += " " + where_compiled'''), "C15-R4")
R.mutant("benign-r4-predicate-pattern-class-level", _SQ,
         chain(sub('''        partial_pred_re = re.compile(r"\\)\\s+where\\s+(.+)", re.IGNORECASE)
''', ""),
               sub('''                predicate_match = partial_pred_re.search(index_sql)''',
                   '''                predicate_match = self._partial_index_predicate.search(
                    index_sql
                )'''),
               sub('''    _broken_fk_pragma_quotes = False''', '''    _partial_index_predicate = re.compile(
        r"\\)\\s+WHERE\\s+(.+)", re.IGNORECASE | re.DOTALL
    )
    _broken_fk_pragma_quotes = False''')), None)
R.mutant("benign-r4-index-record-literal", _SQ,
         sub('''            indexes.append(
                dict(
                    name=row[1],
                    column_names=[],
                    unique=row[2],
                    dialect_options={},
                )
            )''', '''            index_name, is_unique = row[1], row[2]
            record = {
                "name": index_name,
                "column_names": [],
                "unique": is_unique,
                "dialect_options": {},
            }
            indexes.append(record)'''), None)

# ---- C15-R6 (SQLite primary key declared once and read back) --------------------------------------------
R.mutant("r6-table-level-pk-suppressed-also-for-fk-column", _SQ,        # essence of seeded C15_1
         sub("""                and issubclass(c.type._type_affinity, sqltypes.Integer)
                and not c.foreign_keys
            ):
                return None""", """                and issubclass(c.type._type_affinity, sqltypes.Integer)
            ):
                return None"""), "C15-R6")
R.mutant("r6-inline-pk-also-for-fk-column", _SQ,
         sub("""                and issubclass(column.type._type_affinity, sqltypes.Integer)
                and not column.foreign_keys
            ):
                colspec += " PRIMARY KEY\"""", """                and issubclass(column.type._type_affinity, sqltypes.Integer)
            ):
                colspec += " PRIMARY KEY\""""), "C15-R6")
R.mutant("r6-suppression-not-limited-to-single-column-keys", _SQ,
         sub("""        if len(constraint.columns) == 1:
            c = list(constraint)[0]
            if (
                c.primary_key""", """        if len(constraint.columns) >= 1:
            c = list(constraint)[0]
            if (
                c.primary_key"""), "C15-R6")
R.mutant("r6-inline-pk-for-any-type", _SQ,
         sub("""                and len(column.table.primary_key.columns) == 1
                and issubclass(column.type._type_affinity, sqltypes.Integer)
                and not column.foreign_keys""", """                and len(column.table.primary_key.columns) == 1
                and not column.foreign_keys"""), "C15-R6")
R.mutant("benign-r6-shared-inline-condition-in-helper", _SQ,
         chain(sub("""            if (
                column.table.dialect_options["sqlite"]["autoincrement"]
                and len(column.table.primary_key.columns) == 1
                and issubclass(column.type._type_affinity, sqltypes.Integer)
                and not column.foreign_keys
            ):
                colspec += " PRIMARY KEY\"""", """            if self._renders_inline_autoincrement_key(column):
                colspec += " PRIMARY KEY\""""),
               sub("""        if len(constraint.columns) == 1:
            c = list(constraint)[0]
            if (
                c.primary_key
                and c.table.dialect_options["sqlite"]["autoincrement"]
                and issubclass(c.type._type_affinity, sqltypes.Integer)
                and not c.foreign_keys
            ):
                return None
""", """        members = list(constraint)
        if len(members) == 1 and self._renders_inline_autoincrement_key(
            members[0]
        ):
            return None
"""),
               sub("""    def visit_primary_key_constraint(self, constraint, **kw):
        # for columns with sqlite_autoincrement=True,""", """    def _renders_inline_autoincrement_key(self, col):
        if not col.primary_key or col.foreign_keys:
            return False
        owner = col.table
        if len(owner.primary_key.columns) != 1:
            return False
        wants_it = owner.dialect_options["sqlite"]["autoincrement"]
        return bool(wants_it) and issubclass(
            col.type._type_affinity, sqltypes.Integer
        )

    def visit_primary_key_constraint(self, constraint, **kw):
        # for columns with sqlite_autoincrement=True,""")), None)
R.mutant("benign-r6-suppression-as-inverted-branches-with-aliases", _SQ,
         sub("""        if len(constraint.columns) == 1:
            c = list(constraint)[0]
            if (
                c.primary_key
                and c.table.dialect_options["sqlite"]["autoincrement"]
                and issubclass(c.type._type_affinity, sqltypes.Integer)
                and not c.foreign_keys
            ):
                return None
""", """        if len(constraint.columns) != 1:
            inline = False
        else:
            only = list(constraint)[0]
            table_opts = only.table.dialect_options["sqlite"]
            if only.foreign_keys or not only.primary_key:
                inline = False
            elif not table_opts["autoincrement"]:
                inline = False
            else:
                inline = issubclass(only.type._type_affinity, sqltypes.Integer)
        if inline:
            return None
"""), None)

# ---- C15-R7 (PostgreSQL referred schema) ---------------------------------------------------------------
R.mutant("r7-unqualified-target-always-gets-the-reflecting-schema", _PGF,     # essence of seeded C15_2
         sub("""            elif schema is not None and schema == conschema:""", """            elif schema is not None:"""), "C15-R7")
R.mutant("r7-ignore-search-path-uses-reflecting-schema-for-any-target", _PGF,
         sub("""                if conschema != self.default_schema_name:
                    referred_schema = conschema
                else:""", """                if conschema != self.default_schema_name:
                    referred_schema = schema
                else:"""), "C15-R7")
R.mutant("r7-same-schema-test-inverted", _PGF,
         sub("""            elif schema is not None and schema == conschema:""",
             """            elif schema is not None and schema != conschema:"""), "C15-R7")
R.mutant("benign-r7-schema-resolution-in-helper", _PGF,
         chain(sub("""            if postgresql_ignore_search_path:
                # when ignoring search path, we use the actual schema
                # provided it isn't the "default" schema
                if conschema != self.default_schema_name:
                    referred_schema = conschema
                else:
                    referred_schema = schema
            elif referred_schema:
                # referred_schema is the schema that we regexp'ed from
                # pg_get_constraintdef().  If the schema is in the search
                # path, pg_get_constraintdef() will give us None.
                referred_schema = preparer._unquote_identifier(referred_schema)
            elif schema is not None and schema == conschema:
                # If the actual schema matches the schema of the table
                # we're reflecting, then we will use that.
                referred_schema = schema
""", """            referred_schema = self._target_schema_of_fk(
                preparer,
                schema,
                conschema,
                referred_schema,
                postgresql_ignore_search_path,
            )
"""),
               sub("""    def get_multi_foreign_keys(
        self,
        connection,""", """    def _target_schema_of_fk(
        self, preparer, own_schema, actual, printed, ignore_search_path
    ):
        if not ignore_search_path:
            if printed:
                return preparer._unquote_identifier(printed)
            same = own_schema is not None and own_schema == actual
            return own_schema if same else printed
        if actual == self.default_schema_name:
            return own_schema
        return actual

    def get_multi_foreign_keys(
        self,
        connection,""")), None)
R.mutant("benign-r7-branches-inverted-and-actual-schema-preferred", _PGF,
         sub("""            elif schema is not None and schema == conschema:
                # If the actual schema matches the schema of the table
                # we're reflecting, then we will use that.
                referred_schema = schema
""", """            else:
                in_own_schema = conschema == schema
                if schema is None or not in_own_schema:
                    pass
                else:
                    referred_schema = conschema
"""), None)

# ---- C15-R5 (record keys) ------------------------------------------------------------------------------
R.mutant("r5-sqlite-fk-option-key-misspelt", _SQ,
         sub('''                        if ondelete and ondelete != "NO ACTION":
                            options["ondelete"] = ondelete''', '''                        if ondelete and ondelete != "NO ACTION":
                            options["on_delete"] = ondelete'''), "C15-R5")
R.mutant("r5-pg-match-key-renamed", _PGF, sub('''("match", match),''', '''("match_type", match),'''), "C15-R5")
R.mutant("r5-sqlite-index-option-without-dialect-prefix", _SQ,
         sub('''indexes[-1]["dialect_options"]["sqlite_where"] = text(''', '''indexes[-1]["dialect_options"]["where"] = text('''),
         "C15-R5")
R.mutant("r5-mysql-column-key-misspelt", _MYR,
         chain(sub('''        col_kw["nullable"] = True''', '''        col_kw["null"] = True'''),
               sub('''        if spec.get("notnull", False) == "NOT NULL":
            col_kw["nullable"] = False''', '''        if spec.get("notnull", False) == "NOT NULL":
            col_kw["null"] = False''')), "C15-R5")
R.mutant("benign-r5-fk-constructor-new-optional-argument", "sql/schema.py",
         sub('''        comment: Optional[str] = None,
        **dialect_kw: Any,
    ) -> None:
        r"""Construct a composite-capable FOREIGN KEY.''', '''        comment: Optional[str] = None,
        not_enforced: Optional[bool] = None,
        **dialect_kw: Any,
    ) -> None:
        r"""Construct a composite-capable FOREIGN KEY.'''), None)
R.mutant("benign-r5-inspector-options-local-renamed", "engine/reflection.py",
         chain(sub('''            if "options" in fkey_d:
                options = fkey_d["options"]
            else:
                options = {}''', '''            fk_options = fkey_d.get("options") or {}'''),
               sub('''                        **options,
''', '''                        **fk_options,
''')), None)
R.mutant("benign-sqlite-private-helpers-renamed", _SQ,
         chain(sub("_get_table_pragma", "_pragma_rows", count=6), sub("_get_table_sql", "_stored_statement", count=6)), None)
R.mutant("benign-mysql-show-create-through-renamed-helper", _MYF,
         chain(sub('''        sql = self._show_create_table(
            connection, None, charset, full_name=full_name
        )
        if parser._check_view(sql):''', '''        sql = self._fetch_create_statement(connection, full_name, charset)
        if parser._check_view(sql):'''),
               sub('''    def _fetch_setting(
        self, connection: Connection, setting_name: str
    ) -> Optional[str]:''', '''    def _fetch_create_statement(self, connection, full_name, charset):
        return self._show_create_table(
            connection, None, charset, full_name=full_name
        )

    def _fetch_setting(
        self, connection: Connection, setting_name: str
    ) -> Optional[str]:''')), None)
