"""Helpers of agent rob-B2 (robustification of C33 / C34 / C35 against behaviour-preserving refactorings).

* boolean locals / aliases used as guards are resolved to the expression they were bound from
  (`flag = a and not b; if flag:` dominates exactly like `if a and not b:`);
* private helpers are followed: call sites of a function of the same module, parameter -> argument maps;
* transitive ownership: a private function all of whose callers are owners is an owner.
"""

from __future__ import annotations

import ast
import copy
from typing import Callable, Dict, Iterable, List, Optional, Set, Tuple

from ..astutil import calls_in, dotted, name_stores, test_atoms, unparse, walk_local

FuncNode = (ast.FunctionDef, ast.AsyncFunctionDef)


# ---------------------------------------------------------------------- locals
def param_names(fn) -> List[str]:
    a = fn.args
    out = [x.arg for x in a.posonlyargs + a.args]
    if a.vararg:
        out.append(a.vararg.arg)
    out += [x.arg for x in a.kwonlyargs]
    if a.kwarg:
        out.append(a.kwarg.arg)
    return out


def single_binds(fn) -> Dict[str, ast.expr]:
    """{local: value} for names bound by exactly one statement of `fn` (own scope) to a known value; parameters,
    loop targets, augmented / tuple-unpacked names are excluded."""
    count: Dict[str, int] = {}
    val: Dict[str, Optional[ast.expr]] = {}
    for n, v, st in name_stores(fn):
        count[n] = count.get(n, 0) + 1
        val[n] = v
    params = set(param_names(fn))
    return {n: v for n, v in val.items() if count[n] == 1 and v is not None and n not in params}


def is_boolish(v) -> bool:
    """An expression that computes a truth value from other expressions (not a call, not a plain read)."""
    if isinstance(v, ast.BoolOp) or isinstance(v, ast.Compare):
        return True
    if isinstance(v, ast.UnaryOp) and isinstance(v.op, ast.Not):
        return True
    return isinstance(v, ast.Constant) and isinstance(v.value, bool)


def is_read(v) -> bool:
    """Name / attribute chain (a pure read)."""
    while isinstance(v, ast.Attribute):
        v = v.value
    return isinstance(v, ast.Name)


def bool_binds(fn, aliases=False) -> Dict[str, ast.expr]:
    """Single-assignment locals bound to a boolean combination (with aliases=True also to a plain attribute read)."""
    return {n: v for n, v in single_binds(fn).items() if is_boolish(v) or (aliases and isinstance(v, ast.Attribute) and is_read(v))}


class _Subst(ast.NodeTransformer):
    def __init__(self, binds, depth):
        self.binds = binds
        self.depth = depth

    def visit_Name(self, node):
        if isinstance(node.ctx, ast.Load) and node.id in self.binds and self.depth > 0:
            v = copy.deepcopy(self.binds[node.id])
            return _Subst({k: b for k, b in self.binds.items() if k != node.id}, self.depth - 1).visit(v)
        return node

    def visit_Lambda(self, node):
        return node


def expand(expr, binds: Dict[str, ast.expr], depth=3):
    """`expr` with every read of a local in `binds` replaced by (the expansion of) its value."""
    if not binds or not any(isinstance(n, ast.Name) and n.id in binds for n in ast.walk(expr)):
        return expr
    return ast.fix_missing_locations(_Subst(binds, depth).visit(copy.deepcopy(expr)))


def resolved_guards(g, fn, node: int, aliases=False, binds=None) -> List[Tuple[ast.expr, bool]]:
    """g.edge_guards(node) with boolean locals resolved.  The original test node is kept as third item of nothing: callers
    that need the CFG test node use g.edge_guards themselves."""
    b = bool_binds(fn, aliases) if binds is None else binds
    return [(expand(t, b), pol) for t, pol in g.edge_guards(node)]


def resolved_atom_set(g, fn, node: int, aliases=False, binds=None) -> Set[Tuple[str, bool]]:
    out: Set[Tuple[str, bool]] = set()
    for t, pol in resolved_guards(g, fn, node, aliases, binds):
        out.update(test_atoms(t, pol))
    return out


def read_aliases(fn, pred: Callable[[ast.expr], bool]) -> Set[str]:
    """Locals of `fn` every binding of which satisfies pred(value) (e.g. `imap = self.session.identity_map`)."""
    good: Dict[str, bool] = {}
    for n, v, st in name_stores(fn):
        ok = v is not None and pred(v)
        good[n] = good.get(n, True) and ok
    return {n for n, ok in good.items() if ok}


# ---------------------------------------------------------------------- call sites / helpers
def callee_simple_name(c: ast.Call) -> Optional[str]:
    if isinstance(c.func, ast.Attribute):
        return c.func.attr
    if isinstance(c.func, ast.Name):
        return c.func.id
    return None


def functions_of(tree) -> List[ast.AST]:
    return [n for n in ast.walk(tree) if isinstance(n, FuncNode)]


def bind_args(fn, call: ast.Call, bound_method: bool) -> Optional[Dict[str, ast.expr]]:
    """{parameter name: argument expression} for the call (None when * / ** make it unknowable).  `bound_method`: the first
    parameter (self / cls) is supplied by the receiver and not part of call.args."""
    if any(isinstance(a, ast.Starred) for a in call.args) or any(k.arg is None for k in call.keywords):
        return None
    a = fn.args
    pos = [x.arg for x in a.posonlyargs + a.args]
    out: Dict[str, ast.expr] = {}
    if bound_method and pos:
        if isinstance(call.func, ast.Attribute):
            out[pos[0]] = call.func.value
        pos = pos[1:]
    if len(call.args) > len(pos):
        return None
    for p, v in zip(pos, call.args):
        out[p] = v
    for k in call.keywords:
        out[k.arg] = k.value
    return out


def is_bound_method(fn, pm) -> bool:
    """Defined directly in a class body and not a staticmethod."""
    par = pm.get(fn)
    if not isinstance(par, ast.ClassDef):
        return False
    return not any((dotted(d) or "").rsplit(".", 1)[-1] == "staticmethod" for d in fn.decorator_list)


def module_functions_by_name(tree) -> Dict[str, List[ast.AST]]:
    out: Dict[str, List[ast.AST]] = {}
    for f in functions_of(tree):
        out.setdefault(f.name, []).append(f)
    return out


def references(tree, name: str, pm=None) -> Tuple[List[Tuple[ast.AST, ast.Call]], int]:
    """([(enclosing function | None, call)], number of non-call references) of `name` / `<x>.name` in tree."""
    if pm is None:
        pm = {}
        for p in ast.walk(tree):
            for ch in ast.iter_child_nodes(p):
                pm[ch] = p
    calls, other = [], 0
    for n in ast.walk(tree):
        hit = (isinstance(n, ast.Attribute) and n.attr == name and isinstance(n.ctx, ast.Load)) or (isinstance(n, ast.Name) and n.id == name and isinstance(n.ctx, ast.Load))
        if not hit:
            continue
        par = pm.get(n)
        if isinstance(par, ast.Call) and par.func is n:
            cur = par
            while cur is not None and not isinstance(cur, FuncNode):
                cur = pm.get(cur)
            calls.append((cur, par))
        else:
            other += 1
    return calls, other


def qual_of(pm, node) -> str:
    parts = []
    cur = pm.get(node)
    while cur is not None:
        if isinstance(cur, (ast.FunctionDef, ast.AsyncFunctionDef, ast.ClassDef)):
            parts.append(cur.name)
        cur = pm.get(cur)
    return ".".join(reversed(parts))


def transitive_owner(ctx, fkey: str, owners: Iterable[str], prefix="orm/", depth=3) -> Optional[str]:
    """A reason string when function `fkey` ('relpath::Qual.name') is a PRIVATE helper every use of which is a call from a
    listed owner (or from another such helper); None otherwise.  Uses are found by simple name over the modules under
    `prefix`; a reference that is not a call (the function escapes) disqualifies."""
    owners = set(owners)
    seen: Set[str] = set()

    def rec(key: str, d: int) -> Optional[List[str]]:
        if key in owners:
            return [key]
        if d <= 0 or key in seen:
            return None
        seen.add(key)
        rel, _, q = key.partition("::")
        name = q.rsplit(".", 1)[-1]
        if not name.startswith("_") or (name.startswith("__") and name.endswith("__")):
            return None
        via: List[str] = []
        n_calls = 0
        for m in ctx.index.all_modules():
            if not m.relpath.startswith(prefix) or name not in m.source:
                continue
            pm = m.parents()
            calls, other = references(m.tree, name, pm)
            if other:
                return None
            for encl, c in calls:
                n_calls += 1
                if encl is None:
                    return None
                q2 = qual_of(pm, encl)
                k2 = f"{m.relpath}::{q2 + '.' if q2 else ''}{encl.name}"
                if k2 == key:
                    continue  # recursion
                r = rec(k2, d - 1)
                if r is None:
                    return None
                via.extend(r)
        return sorted(set(via)) if n_calls and via else None

    r = rec(fkey, depth)
    if r is None or fkey in owners:
        return None
    return "private helper called only by the owner(s) " + ", ".join(x.partition("::")[2] for x in r)


# ---------------------------------------------------------------------- helpers that re-key a state handed to them
class KeyStoreHelper:
    """Summary of a function F(…, p, …) of a module that assigns `p.key = <value>` on a possibly registered state `p`:
    `discards_first` -- every path to the store passes an identity-map discard of p inside F;
    `registers_after` -- F registers p again after the store.  What F does not do itself is the duty of its callers, where a
    call `F(x)` is treated as the key store on x."""

    def __init__(self, fn, param, index, bound, discards_first, registers_after):
        self.fn, self.param, self.index, self.bound = fn, param, index, bound
        self.discards_first, self.registers_after = discards_first, registers_after
        self.sites: List[Tuple[ast.AST, ast.Call, Optional[str]]] = []  # (caller fn, call, variable passed | None)

    @property
    def followed(self) -> bool:
        """Every use of F in the module is a call that passes a plain local as the state."""
        return bool(self.sites) and all(v is not None for _, _, v in self.sites)


def key_store_helpers(ctx, m, disc_pred, reg_pred, guard_atoms_of) -> Dict[str, KeyStoreHelper]:
    """{function name: KeyStoreHelper} for the functions of module `m` (unique by name) that store the key of one of their
    parameters.  disc_pred(call, var, fn) / reg_pred(call, var, fn): the call discards / registers `var`;
    guard_atoms_of(g, fn, node) -> atom set."""
    from ._helpers_rules_d import call_nodes
    import re
    if not re.search(r"\b(?!self\b|cls\b)[A-Za-z_]\w*\.key\s*=[^=]", m.source):
        return {}  # no `<name>.key = ...` on anything but self in this module
    pm = m.parents()
    byname = module_functions_by_name(m.tree)
    out: Dict[str, KeyStoreHelper] = {}
    for name, fns in byname.items():
        if len(fns) != 1:
            continue
        fn = fns[0]
        if not any(isinstance(n, ast.Attribute) and n.attr == "key" and isinstance(n.ctx, ast.Store) for n in ast.walk(fn)):
            continue
        bound = is_bound_method(fn, pm)
        params = [x.arg for x in fn.args.posonlyargs + fn.args.args]
        pos = params[1:] if bound else params
        for p in pos:
            stores = []
            for n in walk_local(fn):
                if isinstance(n, ast.Assign) and not (isinstance(n.value, ast.Constant) and n.value.value is None):
                    if any(isinstance(t, ast.Attribute) and t.attr == "key" and isinstance(t.value, ast.Name) and t.value.id == p for t in n.targets):
                        stores.append(n)
            if not stores or any(n == p and st is not None for n, v, st in name_stores(fn)):
                continue  # no store / the parameter is rebound
            g = ctx.cfg(fn)
            N = [x for st in stores for x in g.nodes_for(st)]
            N = [x for x in N if (f"{p}.key is None", True) not in guard_atoms_of(g, fn, x) and (f"{p}.key", False) not in guard_atoms_of(g, fn, x)]
            if not N:
                continue  # first key of an unregistered state only
            disc = call_nodes(g, lambda c: disc_pred(c, p, fn))
            reg = call_nodes(g, lambda c: reg_pred(c, p, fn))
            d_first = bool(disc) and all(g.witness([g.entry], [x], avoid=disc) is None for x in N)
            r_after = bool(reg) and all(g.witness([x], reg) is not None for x in N)
            h = KeyStoreHelper(fn, p, pos.index(p), bound, d_first, r_after)
            calls, other = references(m.tree, name, pm)
            for encl, c in calls:
                b = bind_args(fn, c, bound and isinstance(c.func, ast.Attribute)) if encl is not None else None
                a = b.get(p) if b else None
                h.sites.append((encl, c, a.id if isinstance(a, ast.Name) else None))
            if other:
                h.sites.append((None, None, None))
            out[name] = h
            break
    return out


def helper_key_stores(fn, helpers: Dict[str, KeyStoreHelper]) -> Dict[str, List[Tuple[ast.stmt, KeyStoreHelper, ast.Call]]]:
    """{variable: [(statement, helper, call)]}: calls inside `fn` of a followed key-storing helper, i.e. key stores on `variable`."""
    out: Dict[str, List[Tuple[ast.stmt, KeyStoreHelper, ast.Call]]] = {}
    for h in helpers.values():
        if not h.followed:
            continue
        for encl, c, var in h.sites:
            if encl is fn and var is not None:
                out.setdefault(var, []).append((None, h, c))
    return out


# ---------------------------------------------------------------------- propositional reading of guards
def _leaves(e, out: List[str]):
    """Collect the canonical leaf texts of a boolean expression (`not`, and/or stripped; `is not`/`!=`/`not in` -> positive form)."""
    if isinstance(e, ast.UnaryOp) and isinstance(e.op, ast.Not):
        return _leaves(e.operand, out)
    if isinstance(e, ast.BoolOp):
        for v in e.values:
            _leaves(v, out)
        return
    a, pol = test_atoms(e, True)[0]
    if a not in out:
        out.append(a)


def _eval_prop(e, env: Dict[str, bool]) -> bool:
    if isinstance(e, ast.UnaryOp) and isinstance(e.op, ast.Not):
        return not _eval_prop(e.operand, env)
    if isinstance(e, ast.BoolOp):
        vals = [_eval_prop(v, env) for v in e.values]
        return all(vals) if isinstance(e.op, ast.And) else any(vals)
    if isinstance(e, ast.Constant):
        return bool(e.value)
    a, pol = test_atoms(e, True)[0]
    return env[a] if pol else not env[a]


def guards_imply(guards: Iterable[Tuple[ast.expr, bool]], goal: Callable[[Dict[str, bool]], bool], axioms: Callable[[Dict[str, bool]], bool] = None,
                 extra_leaves: Iterable[str] = (), max_leaves=10) -> Optional[bool]:
    """Do the branch outcomes `guards` (read as propositional formulas over their leaf conditions) imply goal(assignment)?
    `axioms(assignment)` restricts the assignments considered (known equivalences between leaves).  None when there are
    too many leaves to enumerate."""
    import itertools
    guards = list(guards)
    leaves: List[str] = list(extra_leaves)
    for t, pol in guards:
        _leaves(t, leaves)
    if len(leaves) > max_leaves:
        return None
    for vals in itertools.product([False, True], repeat=len(leaves)):
        env = dict(zip(leaves, vals))
        if axioms is not None and not axioms(env):
            continue
        if all(_eval_prop(t, env) == pol for t, pol in guards) and not goal(env):
            return False
    return True
