"""C02 -- The compiled-statement cache is transparent (cache-key completeness)."""

from __future__ import annotations

import ast
from typing import Dict, List, Optional, Set, Tuple

from ..astutil import call_name, calls_in, dotted, name_stores, unparse, walk_local, walk_stmts, returns_of
from ..evalx import Evaluator, Sym, Unknown, has_unknown
from ..index import ClassInfo, FuncInfo
from ..report import Registry, sub, chain

R = Registry(
    "C02",
    title="The compiled-statement cache is transparent",
    decides=(
        "key completeness: every attribute of a cacheable SQL element that a compiler visit method (base "
        "compiler, string compiler, five dialect compilers, followed into their helpers, CompileState "
        "constructors and crud) reads is covered by that element's effective cache-key traversal (or is derived "
        "only from covered attributes, or is a class-level constant); the compiled cache is looked up and "
        "populated under one key that covers every argument forwarded to the compiler; every traversal symbol "
        "in use has a cache-key handler and a comparison handler; construct_params takes values from the "
        "executing statement's parameters, never from the cached one; statement-level .params() values are "
        "collected for the same statement classes and with the same nesting-level precedence whether the "
        "cache key (cached) or the compiler (uncached) collects them."
    ),
    not_decided=(
        "that the key is not too fine (performance only); LRU behaviour at run time; keys of ORM loader "
        "options beyond attribute coverage; user-defined constructs and @compiles hooks."
    ),
)

CMP = "sql/compiler.py"
COMPILERS = [
    f"{CMP}::SQLCompiler",
    f"{CMP}::StrSQLCompiler",
    "dialects/sqlite/base.py::SQLiteCompiler",
    "dialects/postgresql/base.py::PGCompiler",
    "dialects/mysql/base.py::MySQLCompiler",
    "dialects/mssql/base.py::MSSQLCompiler",
    "dialects/oracle/base.py::OracleCompiler",
]

# (class name, attribute) -> reason the read does not need to be part of the key
R1_EXCEPTIONS: Dict[Tuple[str, str], str] = {
    ("BindParameter", "unique"): "the key encodes `_anon_map_key is not None`, which is set exactly when unique=True",
    ("_OffsetLimitParam", "unique"): "the key encodes `_anon_map_key is not None`, which is set exactly when unique=True",
    ("Column", "key"): "a table-bound Column is keyed by (name, Table identity); a Table has one column per name, so .key is a function of the key",
    ("Label", "type"): "ColumnElement.label() always passes the element's own type; Label.type is derived from the keyed _element",
    ("OnDuplicateClause", "inserted_alias"): "alias named 'inserted' of the INSERT's own keyed table (Insert.inserted), compared by identity only",
    ("DeferredLambdaElement", "_resolved"): "lambda keys are built by AnalyzedCode from code object + tracked closure values (C17: not a shape property)",
    ("LinkedLambdaElement", "_resolved"): "lambda keys are built by AnalyzedCode from code object + tracked closure values (C17: not a shape property)",
    ("StatementLambdaElement", "_resolved"): "lambda keys are built by AnalyzedCode from code object + tracked closure values (C17: not a shape property)",
    ("next_value", "_params"): "ExecutableStatement.params() is not meaningful on a bare sequence function; read happens only for statements",
    ("next_value", "type"): "next_value is keyed on its Sequence (dp_named_ddl_element); its type is the sequence's data_type",
    ("next_value", "_with_ordinality"): "next_value is keyed on its Sequence; table-valued function options do not apply to it",
    ("Update", "_sort_by_parameter_order"): "returning()/return_defaults() raise ArgumentError for sort_by_parameter_order on a non-INSERT before the store",
    ("Delete", "_sort_by_parameter_order"): "returning()/return_defaults() raise ArgumentError for sort_by_parameter_order on a non-INSERT before the store",
    ("Update", "_multi_values"): "an UPDATE given multiple parameter sets fails to compile for every such statement (no compiled form is shared)",
    ("Values", "_unnamed"): "equals `name is None` (set so in __init__/alias()/lateral()), and name is keyed",
}
# attributes that are structural protocol of every element (never influence rendered SQL by value)
PROTOCOL_ATTRS = {
    "__class__": "class is part of every key",
    "__visit_name__": "class-level dispatch name",
    "_compiler_dispatch": "dispatch method",
    "_is_clone_of": "clone lineage, identity bookkeeping only",
    "_cloned_set": "clone lineage, identity bookkeeping only",
    "_de_clone": "clone lineage, identity bookkeeping only",
    "_annotations": "annotations are keyed through dp_annotations_key when present",
    "_propagate_attrs": "keyed through dp_propagate_attrs on the statement",
    "_compile_state_factory": "function of class + plugin name, both keyed",
    "_compile_state_plugin": "function of class + plugin name, both keyed",
    "_clone": "method",
    "_generate": "method",
    "compare": "method",
    "self_group": "method",
    "_execution_options": "execution options do not take part in compilation (cleared before compile in ORM)",
    "proxy_set": "clone lineage, identity bookkeeping only",
    "_ungroup": "method",
    "_deannotate": "method",
    "_with_annotations": "method",
    "_from_objects": "derived from keyed sub-elements",
    "__dict__": "memoisation storage",
    "c": "column collection derived by _populate_column_collection from the keyed element / columns",
    "columns": "column collection derived by _populate_column_collection from the keyed element / columns",
    "selected_columns": "column collection derived from keyed _raw_columns / selects",
    "exported_columns": "column collection derived from keyed _raw_columns / selects",
    "_reset_memoizations": "method",
    "_memoized_keys": "memoisation bookkeeping",
}


def _has_cache_key(ctx) -> ClassInfo:
    return ctx.index.cls("sql/cache_key.py::HasCacheKey")


def _effective_traversal(ctx, ev: Evaluator, c: ClassInfo):
    """Mirror of HasCacheKey._generate_cache_attrs, statically.  Returns (status, attrs, owner) where status in
    'keyed' | 'no_cache' | 'custom'."""
    ix = ctx.index

    def own(k, nm):
        return k.assigns[nm][-1] if nm in k.assigns else None

    def inherited(nm):
        for k in ix.mro(c):
            if nm in k.assigns:
                return k, k.assigns[nm][-1]
        return None, None

    inh = own(c, "inherit_cache")
    inherit = isinstance(inh, ast.Constant) and inh.value is True
    if inherit:
        k, node = inherited("_cache_key_traversal")
        if node is None or (isinstance(node, ast.Constant) and node.value is None):
            k, node = inherited("_traverse_internals")
        if node is None:
            return "no_cache", set(), None
    else:
        node = own(c, "_cache_key_traversal")
        k = c
        if node is None or (isinstance(node, ast.Constant) and node.value is None):
            node = own(c, "_traverse_internals")
        if node is None:
            return "no_cache", set(), None
    if isinstance(node, (ast.Name, ast.Attribute)) and (dotted(node) or "").endswith("NO_CACHE"):
        return "no_cache", set(), None
    v = ev.eval(node, k.module, k)
    if has_unknown(v) or not isinstance(v, (list, tuple)):
        return "unknown", set(), k
    attrs = set()
    for row in v:
        if isinstance(row, tuple) and row and isinstance(row[0], str):
            attrs.add(row[0])
    return "keyed", attrs, k


def _custom_gen_cache_key(ctx, c: ClassInfo) -> Optional[FuncInfo]:
    hck = _has_cache_key(ctx)
    for k in ctx.index.mro(c):
        if k is hck:
            return None
        f = k.methods.get("_gen_cache_key")
        if f is not None:
            # ClauseElement-level abstract stubs raise NotImplementedError
            if any(isinstance(n, ast.Raise) for n in f.node.body):
                continue
            return f
    return None


def _self_reads(fn_node, selfname="self") -> Set[str]:
    out = set()
    for n in ast.walk(fn_node):
        if isinstance(n, ast.Attribute) and isinstance(n.value, ast.Name) and n.value.id == selfname and isinstance(n.ctx, ast.Load):
            out.add(n.attr)
    return out


class _Reads:
    """Attribute reads on an element variable inside a function, followed into callees that receive it."""

    def __init__(self, ctx, compiler_cls: ClassInfo, max_depth=3):
        self.ctx, self.compiler_cls, self.max_depth = ctx, compiler_cls, max_depth
        self.reads: Dict[str, List[str]] = {}
        self.seen = set()

    def collect(self, f: FuncInfo, param: str, depth=0, chain=()):
        k = (f.key, param)
        if k in self.seen or depth > self.max_depth:
            return
        self.seen.add(k)
        self.ctx.functions_analysed.add(f.key)
        aliases = {param}
        # simple aliasing: x = p ; x = p._clone() ; x = cast(T, p); x = compile_state.statement where compile_state from p
        cs_vars = set()
        changed = True
        stores = name_stores(f.node)
        while changed:
            changed = False
            for n, v, st in stores:
                if v is None or n in aliases:
                    continue
                if isinstance(v, ast.Name) and v.id in aliases:
                    aliases.add(n); changed = True
                elif isinstance(v, ast.Call):
                    nm = call_name(v) or ""
                    short = nm.rsplit(".", 1)[-1]
                    recv = v.func.value if isinstance(v.func, ast.Attribute) else None
                    if short in ("_clone", "_generate", "_deannotate", "_annotate") and isinstance(recv, ast.Name) and recv.id in aliases:
                        aliases.add(n); changed = True
                    elif short == "cast" and len(v.args) == 2 and isinstance(v.args[1], ast.Name) and v.args[1].id in aliases:
                        aliases.add(n); changed = True
                    elif short == "_compile_state_factory" and isinstance(recv, ast.Name) and recv.id in aliases and n not in cs_vars:
                        cs_vars.add(n); changed = True
                elif isinstance(v, ast.Attribute) and v.attr == "statement" and isinstance(v.value, ast.Name) and v.value.id in cs_vars:
                    aliases.add(n); changed = True
        here = f"{f.key}"
        for n in walk_local(f.node, into_nested=True):
            if isinstance(n, ast.Attribute) and isinstance(n.ctx, ast.Load) and isinstance(n.value, ast.Name) and n.value.id in aliases:
                self.reads.setdefault(n.attr, []).append(" -> ".join(chain + (here,)))
            elif isinstance(n, ast.Attribute) and isinstance(n.ctx, ast.Load) and isinstance(n.value, ast.Attribute) \
                    and n.value.attr == "statement" and isinstance(n.value.value, ast.Name) and n.value.value.id in cs_vars:
                self.reads.setdefault(n.attr, []).append(" -> ".join(chain + (here,)))
            elif isinstance(n, ast.Call) and (call_name(n) or "") == "getattr" and len(n.args) >= 2 \
                    and isinstance(n.args[0], ast.Name) and n.args[0].id in aliases and isinstance(n.args[1], ast.Constant):
                self.reads.setdefault(str(n.args[1].value), []).append(" -> ".join(chain + (here,)))
        # follow calls that pass the element
        for c in calls_in(f.node, into_nested=True):
            pos = [i for i, a in enumerate(c.args) if isinstance(a, ast.Name) and a.id in aliases]
            kws = [k.arg for k in c.keywords if isinstance(k.value, ast.Name) and k.value.id in aliases and k.arg]
            if not pos and not kws:
                continue
            nm = call_name(c) or ""
            short = nm.rsplit(".", 1)[-1]
            tgt = None
            skip_self = 1
            if isinstance(c.func, ast.Attribute) and isinstance(c.func.value, ast.Name) and c.func.value.id == "self":
                tgt = self.ctx.index.resolve_method(self.compiler_cls, short)
            elif isinstance(c.func, ast.Attribute) and unparse(c.func.value).startswith("super()"):
                own = f.cls
                if own is not None:
                    mro = self.ctx.index.mro(self.compiler_cls)
                    if own in mro:
                        for k2 in mro[mro.index(own) + 1:]:
                            if short in k2.methods:
                                tgt = k2.methods[short]
                                break
            elif "()" not in nm and nm:
                r = self.ctx.index.resolve(f.module, nm)
                if isinstance(r, FuncInfo):
                    tgt = r
                    skip_self = 1 if r.cls is not None else 0
                elif isinstance(r, ClassInfo):
                    tgt = self.ctx.index.resolve_method(r, "__init__")
            if tgt is None or short.startswith("visit_") and False:
                continue
            if short in ("process", "_compiler_dispatch", "isinstance", "append", "add", "get", "len", "id", "type",
                         "traverse", "_gen_cache_key", "compare", "warn", "_add_to_result_map", "add_to_result_map"):
                continue
            params = tgt.params[skip_self:] if tgt.params and tgt.params[0] in ("self", "cls") else tgt.params
            for i in pos:
                if i < len(params):
                    self.collect(tgt, params[i], depth + 1, chain + (here,))
            for kw in kws:
                if kw in params:
                    self.collect(tgt, kw, depth + 1, chain + (here,))


def _covered(ctx, ev, c: ClassInfo, attr: str, keyed: Set[str], extra: Set[str], memo: Dict, depth=0) -> Tuple[bool, str]:
    """Is `attr` of class c determined by the cache key?"""
    ix = ctx.index
    if attr in keyed:
        return True, "keyed"
    if attr in extra:
        return True, "read by custom _gen_cache_key"
    if attr in PROTOCOL_ATTRS:
        return True, "protocol: " + PROTOCOL_ATTRS[attr]
    if (c.name, attr) in R1_EXCEPTIONS:
        return True, "exception: " + R1_EXCEPTIONS[(c.name, attr)]
    mk = (c.key, attr)
    if mk in memo:
        return memo[mk]
    memo[mk] = (True, "recursive")  # cycle cut
    if depth > 6:
        memo[mk] = (False, "derivation too deep")
        return memo[mk]
    res = (False, "not in the cache-key traversal and not derivable from keyed attributes")
    f = ix.resolve_method(c, attr)
    chain = _init_chain(ctx, c)
    chain_keys = {m.key for m, _ in chain}
    own_init = bool(chain) and chain[0][0].cls is not None
    stores = []
    for k2, m, st in _instance_stores(ctx, c, attr):
        if m.name in ("__init__", "_init"):
            if m.key in chain_keys:
                stores.append((k2, m, st))
            continue
        if "classmethod" in m.decorators and k2 is not c and own_init:
            continue  # alternative constructor of a base class; instances of c are built by their own __init__
        stores.append((k2, m, st))
    if f is not None and not stores:
        bad = []
        for a in sorted(_self_reads(f.node)):
            ok, why = _covered(ctx, ev, c, a, keyed, extra, memo, depth + 1)
            if not ok:
                bad.append(a)
        res = (True, f"derived ({f.key})") if not bad else (False, f"derived through {f.key} from un-keyed {bad}")
    elif not stores:
        owner = ix.find_class_attr(c, attr)
        if owner is not None:
            res = (True, f"class-level constant ({owner.key})")
        else:
            # the attribute does not exist on instances of this class: the read sits on a path that is not
            # taken for this element type (shared helper guarded by isinsert / isinstance / getattr default)
            res = (True, "attribute never defined for this class: read is on a path not taken for this element type")
    else:
        bad = []
        for k2, m, st in stores:
            v = getattr(st, "value", None)
            if v is None:
                continue
            if m.name not in ("__init__", "_init") and not _self_reads(v) and "classmethod" not in m.decorators \
                    and not ({n.id for n in ast.walk(v) if isinstance(n, ast.Name)} & set(m.params)):
                # a constant stored by a (generative) method: the value records *whether the method was called*
                if not any(d.endswith(("memoized_property", "memoized_attribute", "memoized_instancemethod")) for d in m.decorators):
                    bad.append(f"{m.key}: set to `{unparse(v)[:30]}` by calling the method")
                continue
            bad.extend(_expr_uncovered(ctx, ev, c, attr, v, m, chain, keyed, extra, memo, depth))
        res = (True, "instance attribute derived from keyed state") if not bad else (False, "; ".join(sorted(set(bad))[:3]))
    memo[mk] = res
    return res


def _init_chain(ctx, c: ClassInfo):
    """[(init FuncInfo, super-call or None)] the __init__ methods that actually run for instances of c."""
    out = []
    mro = ctx.index.mro(c)
    i = 0
    while i < len(mro):
        k = mro[i]
        init = k.methods.get("__init__") or k.methods.get("_init")
        if init is None:
            i += 1
            continue
        sup = None
        nxt = None
        for cc in calls_in(init.node):
            nm = call_name(cc) or ""
            if nm in ("super().__init__", "super()._init") or (nm.endswith(".__init__") and not nm.startswith("self.")):
                sup = cc
                if nm.startswith("super()"):
                    nxt = i + 1
                else:
                    r = ctx.index.resolve(k.module, nm.rsplit(".", 1)[0])
                    if isinstance(r, ClassInfo) and r in mro:
                        nxt = mro.index(r)
        out.append((init, sup))
        if sup is None and init.name == "__init__":
            # `self._init(...)` helper constructors
            for cc in calls_in(init.node):
                if (call_name(cc) or "") == "self._init":
                    tgt = ctx.index.resolve_method(c, "_init")
                    if tgt is not None and tgt.key != init.key:
                        out[-1] = (init, cc)
                        out.append((tgt, None))
            break
        if sup is None or nxt is None:
            break
        # next __init__ provider at or after nxt
        i = nxt
        while i < len(mro) and not ("__init__" in mro[i].methods or "_init" in mro[i].methods):
            i += 1
    return out


def _expr_uncovered(ctx, ev, c, attr, v, m: FuncInfo, chain, keyed, extra, memo, depth, hops=0) -> List[str]:
    """Parts of expression v (stored into self.attr inside method m) that are not determined by the key."""
    bad = []
    names = {n.id for n in ast.walk(v) if isinstance(n, ast.Name)}
    params = set(m.params) - {"self", "cls"}
    for p in sorted(names & params):
        stored_as = _param_stored_as(m, p)
        if any(s in keyed or s in extra for s in stored_as):
            continue
        # argument of a base __init__ supplied by a subclass __init__ through super().__init__(...)
        resolved = False
        if m.name in ("__init__", "_init") and hops < 4:
            idx = [i for i, (fi, _) in enumerate(chain) if fi.key == m.key]
            if idx and idx[0] > 0:
                caller, sup = chain[idx[0] - 1]
                if sup is not None:
                    mparams = [x for x in m.params if x not in ("self", "cls")]
                    arg = None
                    args = [a for a in sup.args if not (isinstance(a, ast.Name) and a.id == "self")]
                    if p in mparams and mparams.index(p) < len(args) and not isinstance(args[mparams.index(p)], ast.Starred):
                        arg = args[mparams.index(p)]
                    for kw in sup.keywords:
                        if kw.arg == p:
                            arg = kw.value
                    if arg is not None:
                        resolved = True
                        bad.extend(_expr_uncovered(ctx, ev, c, attr, arg, caller, chain, keyed, extra, memo, depth, hops + 1))
                    elif not any(isinstance(a, ast.Starred) for a in sup.args) and not any(kw.arg is None for kw in sup.keywords):
                        resolved = True  # argument not supplied: the base default (a constant) applies
        if not resolved:
            bad.append(f"{m.key}: from argument `{p}`")
    for a in sorted(_self_reads(v)):
        if a == attr:
            continue
        ok, why = _covered(ctx, ev, c, a, keyed, extra, memo, depth + 1)
        if not ok:
            bad.append(f"{m.key}: from self.{a}")
    return bad


_STORE_CACHE: Dict = {}


def _instance_stores(ctx, c: ClassInfo, attr: str):
    """[(class, method, stmt)] for `self.attr = ...` in methods of the MRO of c."""
    out = []
    for k in ctx.index.mro(c):
        ck = (id(ctx.index), k.key)
        if ck not in _STORE_CACHE:
            d: Dict[str, list] = {}
            for m in k.methods.values():
                # locals that hold a copy / new instance of this class: `x = self._clone()`, `cls.__new__(cls)` ...
                copies = {"self"}
                for n_, v_, st_ in name_stores(m.node):
                    if isinstance(v_, ast.Call):
                        cn = call_name(v_) or ""
                        if cn.startswith(("self.", "cls.", "self.__class__")) or cn.rsplit(".", 1)[-1] in ("_clone", "_generate", "__new__", "_construct"):
                            copies.add(n_)
                for st in walk_stmts(m.node.body):
                    tg = []
                    if isinstance(st, ast.Assign):
                        tg = st.targets
                    elif isinstance(st, (ast.AnnAssign, ast.AugAssign)) and getattr(st, "value", None) is not None:
                        tg = [st.target]
                    for t in tg:
                        for e in ([t] if not isinstance(t, (ast.Tuple, ast.List)) else t.elts):
                            if isinstance(e, ast.Attribute) and isinstance(e.value, ast.Name) and e.value.id in copies:
                                d.setdefault(e.attr, []).append((k, m, st))
            _STORE_CACHE[ck] = d
        out.extend(_STORE_CACHE[ck].get(attr, []))
    return out


def _param_stored_as(m: FuncInfo, p: str) -> Set[str]:
    out = set()
    for st in walk_stmts(m.node.body):
        if isinstance(st, ast.Assign) and isinstance(st.value, ast.Name) and st.value.id == p:
            for t in st.targets:
                if isinstance(t, ast.Attribute) and isinstance(t.value, ast.Name) and t.value.id == "self":
                    out.add(t.attr)
    return out


def _element_classes(ctx):
    """visit_name -> [cacheable element classes]."""
    hck = _has_cache_key(ctx)
    out: Dict[str, List[ClassInfo]] = {}
    for c in ctx.index.all_classes():
        if c.module.relpath.startswith(("testing", "ext/")) or hck not in ctx.index.mro(c):
            continue
        vn = c.assigns.get("__visit_name__")
        if vn and isinstance(vn[-1], ast.Constant) and isinstance(vn[-1].value, str):
            out.setdefault(vn[-1].value, []).append(c)
        elif "__visit_name__" not in c.assigns:
            # inherits the visit name: still its own traversal (inherit_cache) matters
            for k in ctx.index.mro(c)[1:]:
                v2 = k.assigns.get("__visit_name__")
                if v2 and isinstance(v2[-1], ast.Constant) and isinstance(v2[-1].value, str):
                    out.setdefault(v2[-1].value, []).append(c)
                    break
    return out


@R.rule("C02-R1", floor=150, template="T-FLOW/T-TABLE",
        desc="compiler-read attribute set of every cacheable element class is covered by its effective cache key")
def r1(ctx):
    ev = Evaluator(ctx.index, symbolic_classes={"InternalTraversal"})
    byvisit = _element_classes(ctx)
    ctx.require(len(byvisit) >= 80, f"only {len(byvisit)} element visit names found")
    compilers = [ctx.index.cls(k) for k in COMPILERS]
    memo: Dict = {}
    n_classes = 0
    for vn in sorted(byvisit):
        # which compilers define/override visit_<vn>
        methods = []
        for cc in compilers:
            f = ctx.index.resolve_method(cc, "visit_" + vn)
            if f is not None and (f, cc) not in methods and len(f.params) >= 2:
                if not any(f is m for m, _ in methods) or cc is not compilers[0]:
                    methods.append((f, cc))
        if not methods:
            continue
        # CompileState constructors for statements
        cs_inits = []
        for k in ctx.index.all_classes():
            for d in k.node.decorator_list:
                if isinstance(d, ast.Call) and (call_name(d) or "").endswith("plugin_for") and len(d.args) == 2 \
                        and isinstance(d.args[1], ast.Constant) and d.args[1].value == vn \
                        and isinstance(d.args[0], ast.Constant) and d.args[0].value == "default":
                    init = ctx.index.resolve_method(k, "__init__")
                    if init is not None and len(init.params) >= 2:
                        cs_inits.append((init, k))
        for c in sorted(byvisit[vn], key=lambda x: x.key):
            status, keyed, owner = _effective_traversal(ctx, ev, c)
            custom = _custom_gen_cache_key(ctx, c)
            extra: Set[str] = set()
            identity = False
            if custom is not None:
                extra = _self_reads(custom.node)
                for r in returns_of(custom.node):
                    if r.value is not None and any(isinstance(e, ast.Name) and e.id == "self" for e in (
                            r.value.elts if isinstance(r.value, ast.Tuple) else [r.value])):
                        identity = True
                # BindParameter style: delegates part of the key to type._static_cache_key etc.
            if status == "no_cache" and custom is None:
                ctx.ok(f"{c.key}:<not cached>", "element disables caching (no traversal / no inherit_cache): never shares a compiled form", nontrivial=False)
                continue
            if status == "unknown":
                ctx.error(f"cannot evaluate the traversal list of {c.key}")
            if identity:
                ctx.ok(f"{c.key}:<identity keyed>", f"cache key contains the object itself ({custom.key})", nontrivial=False)
                continue
            n_classes += 1
            reads: Dict[str, List[str]] = {}
            seen_m = set()
            for f, cc in methods:
                if (f.key, cc.key) in seen_m:
                    continue
                seen_m.add((f.key, cc.key))
                rd = _Reads(ctx, cc)
                rd.collect(f, f.params[1])
                for init, k in cs_inits:
                    rd.collect(init, init.params[1])
                for a, chains in rd.reads.items():
                    reads.setdefault(a, []).extend(chains)
            for attr in sorted(reads):
                ok, why = _covered(ctx, ev, c, attr, keyed, extra, memo)
                key = f"{c.key}.{attr}"
                if ok:
                    ctx.ok(key, why, nontrivial=not why.startswith(("keyed", "protocol")))
                else:
                    ctx.violation(
                        key,
                        f"compilation of <{vn}> reads `{attr}`, which is not part of {c.name}'s cache key "
                        f"(traversal of {owner.key if owner else '?'}): {why}; two statements differing only in it "
                        f"would share one compiled form",
                        c.loc, reads[attr][:3])
    ctx.require(n_classes >= 60, f"only {n_classes} cacheable element classes with a visit method analysed")


def _cache_sites(sc, cache_atoms):
    """Uses of the compiled cache (the mapping whose atoms are `cache_atoms`) in the function of `sc` and in the
    same-module helpers it calls: lookups [(scope, key expr, cfg node)] for `C.get(K)`, `C[K]`, `K in C`;
    stores [(scope, key expr, cfg node, value expr)] for `C[K] = V`, `C.setdefault(K, V)`, `C.__setitem__(K, V)`.
    The mapping is recognised by what it is (the parameter, a plain local alias of it, the helper parameter it was
    passed as), not by its name."""
    lookups, stores = [], []
    for s in sc.with_helpers():
        for n in s.local_walk():
            at = s.node_of(n)
            if at is None or not s.rd.reachable(at):
                continue

            def is_cache(x, at=at, s=s):
                return s.param_atoms(x, at) == cache_atoms
            if isinstance(n, ast.Call) and isinstance(n.func, ast.Attribute) and is_cache(n.func.value) and n.args:
                if n.func.attr in ("get", "__getitem__", "setdefault", "pop"):
                    lookups.append((s, n.args[0], at))
                if n.func.attr in ("setdefault", "__setitem__") and len(n.args) >= 2:
                    stores.append((s, n.args[0], at, n.args[1]))
            elif isinstance(n, ast.Subscript) and is_cache(n.value):
                if isinstance(n.ctx, ast.Load):
                    lookups.append((s, n.slice, at))
                elif isinstance(n.ctx, ast.Store):
                    st = s.g.nodes[at].stmt
                    stores.append((s, n.slice, at, getattr(st, "value", None)))
            elif isinstance(n, ast.Compare) and len(n.ops) == 1 and isinstance(n.ops[0], (ast.In, ast.NotIn)) \
                    and is_cache(n.comparators[0]):
                lookups.append((s, n.left, at))
    return lookups, stores


def _same_value(s1, e1, at1, s2, e2, at2) -> bool:
    """Do the two expressions denote the same value: the same definition(s) of a local reach both uses, or
    they are structurally equal expressions over locals with identical reaching definitions."""
    if s1 is not s2:
        return s1.deps(e1, at1, must=True) == s2.deps(e2, at2, must=True) and bool(s1.deps(e1, at1, must=True))
    o1, o2 = s1.origins(e1, at1), s1.origins(e2, at2)
    if {(k, id(x)) for k, x, _ in o1} == {(k, id(x)) for k, x, _ in o2} and (isinstance(e1, ast.Name) or e1 is e2):
        return True
    if len(o1) == 1 and len(o2) == 1 and o1[0][0] == "expr" and o2[0][0] == "expr":
        x1, n1 = o1[0][1], o1[0][2]
        x2, n2 = o2[0][1], o2[0][2]
        if ast.dump(x1) != ast.dump(x2):
            return False
        names = {n.id for n in ast.walk(x1) if isinstance(n, ast.Name)}
        return all({d.id for d in s1.rd.at(n1, nm)} == {d.id for d in s1.rd.at(n2, nm)} for nm in names)
    return False


# ---- abstract evaluation of a predicate of ONE argument over {None, empty container, non-empty container}
_ABS = ("NONE", "EMPTY", "NONEMPTY")


class _NotDecided(Exception):
    pass


def _abs_truth(v):
    if v in _ABS:
        return v == "NONEMPTY"
    if v == "POS":
        return True
    if isinstance(v, (bool, int, str, type(None))):
        return bool(v)
    raise _NotDecided(repr(v))


def _abs_eval(e: ast.expr, var: str, a: str):
    """value of `e` when the only free name `var` holds the abstract value `a`"""
    if isinstance(e, ast.Name):
        if e.id == var:
            return a
        raise _NotDecided(e.id)
    if isinstance(e, ast.Constant):
        return e.value
    if isinstance(e, ast.UnaryOp) and isinstance(e.op, ast.Not):
        return not _abs_truth(_abs_eval(e.operand, var, a))
    if isinstance(e, ast.BoolOp):
        val = None
        for x in e.values:
            val = _abs_eval(x, var, a)
            t = _abs_truth(val)
            if (isinstance(e.op, ast.And) and not t) or (isinstance(e.op, ast.Or) and t):
                return val
        return val
    if isinstance(e, ast.IfExp):
        return _abs_eval(e.body if _abs_truth(_abs_eval(e.test, var, a)) else e.orelse, var, a)
    if isinstance(e, ast.Call) and isinstance(e.func, ast.Name) and len(e.args) == 1 and not e.keywords:
        if e.func.id == "bool":
            return _abs_truth(_abs_eval(e.args[0], var, a))
        if e.func.id in ("tuple", "frozenset", "list", "dict", "sorted"):
            return _abs_eval(e.args[0], var, a)  # a repackaging: keeps what the argument tells apart
        if e.func.id == "len":
            v = _abs_eval(e.args[0], var, a)
            if v == "EMPTY":
                return 0
            if v == "NONEMPTY":
                return "POS"
        raise _NotDecided(unparse(e))
    if isinstance(e, ast.Compare) and len(e.ops) == 1:
        l, r = _abs_eval(e.left, var, a), _abs_eval(e.comparators[0], var, a)
        op = e.ops[0]
        if isinstance(op, (ast.Is, ast.IsNot, ast.Eq, ast.NotEq)) and (l is None or r is None or "NONE" in (l, r)):
            other = r if (l is None or l == "NONE") else l
            if (l is None or l == "NONE") and (r is None or r == "NONE"):
                same = True
            elif other in ("EMPTY", "NONEMPTY", "POS") or isinstance(other, (bool, int, str)):
                same = False
            else:
                raise _NotDecided(unparse(e))
            return same if isinstance(op, (ast.Is, ast.Eq)) else not same
        if "POS" in (l, r) or isinstance(l, int) and isinstance(r, int):
            # len(x) against 0 / 1
            def num(v, lo):
                return (1 if lo else 10 ** 6) if v == "POS" else v
            if all(isinstance(v, int) or v == "POS" for v in (l, r)) and not isinstance(l, bool) and not isinstance(r, bool):
                import operator as _o
                fn = {ast.Gt: _o.gt, ast.GtE: _o.ge, ast.Lt: _o.lt, ast.LtE: _o.le, ast.Eq: _o.eq, ast.NotEq: _o.ne}.get(type(op))
                if fn is not None:
                    lo, hi = fn(num(l, True), num(r, True)), fn(num(l, False), num(r, False))
                    if lo == hi:
                        return lo
        raise _NotDecided(unparse(e))
    raise _NotDecided(unparse(e))


def _signature(e: ast.expr, var: str):
    """(value for None, for an empty container, for a non-empty container) or None if not decidable"""
    try:
        return tuple(_abs_eval(e, var, a) for a in _ABS)
    except _NotDecided:
        return None


def _only_name(e: ast.expr) -> Optional[str]:
    names = {n.id for n in ast.walk(e) if isinstance(n, ast.Name)} - {"bool", "len", "tuple", "frozenset", "list", "dict", "sorted"}
    return next(iter(names)) if len(names) == 1 else None


def _compile_time_gates(ctx, kwname: str):
    """[(FuncInfo, test expr, signature)] conditions on the constructor argument `kwname` alone in the __init__
    methods of Compiled and its subclasses (if / while / conditional expression tests),
    with locals bound once resolved."""
    from ._helpers_rob_c1 import inline_locals
    base = ctx.index.cls(f"{CMP}::Compiled")
    out = []
    for c in [base] + list(ctx.index.subclasses(base)):
        if c.module.relpath.startswith("testing"):
            continue
        f = c.methods.get("__init__")
        if f is None or kwname not in f.params:
            continue
        ctx.functions_analysed.add(f.key)
        tests = []
        for n in walk_local(f.node):
            if isinstance(n, (ast.If, ast.While, ast.IfExp)):  # (an assert is a type-narrowing no-op, not a branch)
                tests.append(n.test)
            elif isinstance(n, ast.comprehension):
                tests.extend(n.ifs)
        for t in tests:
            t2 = inline_locals(f.node, t)
            if _only_name(t2) != kwname:
                continue
            sig = _signature(t2, kwname)
            if sig is not None:
                out.append((f, t, tuple(_abs_truth(v) for v in sig)))
    return out


@R.rule("C02-R2", floor=6, template="T-FLOW",
        desc="_compile_w_cache: every argument forwarded to the compiler on a miss is part of the lookup key; the "
             "compiled object is stored under the key that was looked up; a key component that projects an argument "
             "to a predicate (bool(m), m is not None) separates every two values (None / empty / non-empty) that a "
             "test on that argument in Compiled.__init__ (and subclasses) separates")
def r2(ctx):
    from ._helpers_rob_c2 import Scope
    f = ctx.func("sql/elements.py::ClauseElement._compile_w_cache")
    ctx.require("compiled_cache" in f.params, "_compile_w_cache: no `compiled_cache` parameter")
    sc = Scope(ctx, f)
    # the key is whatever is subscripted into / looked up in / stored into the compiled cache (in the function
    # itself or in a helper it hands the cache to), resolved through locals and key-building helpers
    lookups, stores = _cache_sites(sc, frozenset({"param:compiled_cache"}))
    ctx.require(lookups and stores, "_compile_w_cache: no lookup in / store into the compiled_cache mapping found "
                                    "(compiled_cache.get(K) / compiled_cache[K] / compiled_cache[K] = V)")
    key_must = [(s, k, at, s.deps(k, at, must=True)) for s, k, at in lookups] + \
               [(s, k, at, s.deps(k, at, must=True)) for s, k, at, _ in stores]
    key_may = [s.deps(k, at) for s, k, at in lookups] + [s.deps(k, at) for s, k, at, _ in stores]
    # the compiler entry point, in the function or in a helper
    comp_calls = []
    for s in sc.with_helpers():
        for n in s.local_walk():
            if isinstance(n, ast.Call) and isinstance(n.func, ast.Attribute) and n.func.attr == "_compiler" \
                    and s.node_of(n) is not None and s.is_self(n.func.value, s.node_of(n)):
                comp_calls.append((s, n, s.node_of(n)))
    ctx.require(comp_calls, "_compile_w_cache: no self._compiler(...) call")
    # the uncached (key is None) path is allowed to differ; look at every call
    forwarded = set()
    for s, c, at in comp_calls:
        if s.rd.reachable(at):
            for a in list(c.args) + [k.value for k in c.keywords if k.arg]:
                for atom in s.deps(a.value if isinstance(a, ast.Starred) else a, at):
                    if atom.startswith("param:") and atom[6:] in f.params:
                        forwarded.add(atom[6:])
                    elif atom == "<self>":
                        forwarded.add(f.params[0])
    # a key component that is a lossy projection of a forwarded argument (bool(m), m is not None, len(m) > 0 ...)
    # must tell apart every two argument values that the compiler's constructor tells apart: over the abstract
    # values {None, empty, non-empty}, gate(a) != gate(b) implies component(a) != component(b)
    from ._helpers_rob_c1 import inline_locals, bind_call_args
    kwnames: Dict[str, str] = {}
    for s, c, at in comp_calls:
        for k in c.keywords:
            if k.arg:
                d = s.deps(k.value, at)
                if len(d) == 1 and next(iter(d)).startswith("param:") and next(iter(d))[6:] in forwarded:
                    kwnames[next(iter(d))[6:]] = k.arg
    comps: List[ast.expr] = []
    for s, k, at in lookups:
        if s is not sc:
            continue
        for kind, x, n2 in s.origins(k, at) if isinstance(k, ast.Name) else [("expr", k, at)]:
            if kind != "expr":
                continue
            if isinstance(x, ast.Tuple):
                comps.extend(inline_locals(f.node, e) for e in x.elts)
            elif isinstance(x, ast.Call):
                tgt = sc.resolve_callee(x, n2)
                rets = [r for r in returns_of(tgt.node) if r.value is not None] if tgt is not None else []
                if len(rets) == 1 and isinstance(inline_locals(tgt.node, rets[0].value), ast.Tuple):
                    b = bind_call_args(x, [p for p in tgt.params if p not in ("self", "cls")])
                    if b is not None:
                        env = {pn: inline_locals(f.node, v) for pn, v in b.items()}
                        comps.extend(inline_locals(tgt.node, e, env=env) for e in inline_locals(tgt.node, rets[0].value).elts)
    exempt = {"self": "the statement is keyed through its cache key (elem_cache_key)", "kw": "linting flags: per-engine constants"}
    loc = f"{f.module.path}:{getattr(lookups[0][1], 'lineno', f.node.lineno)}"
    for p in sorted(forwarded):
        if p in exempt:
            ctx.ok(f"{f.key}:{p}", "exempt: " + exempt[p], nontrivial=False)
            continue
        missing = [f"`{unparse(k)[:60]}` (line {getattr(k, 'lineno', '?')})" for s, k, at, d in key_must if "param:" + p not in d]
        # `True if p else False`: a conditional over constants carries no data dependency, yet it is a predicate of p
        proj = [_signature(e, p) for e in comps if _only_name(e) == p]
        if missing and proj and all(sg is not None and len(set(map(repr, sg))) > 1 for sg in proj) and len(lookups) == len(stores) == 1:
            missing = []
        ctx.check(not missing, f"{f.key}:{p}",
                  f"argument `{p}` is forwarded to the compiler on a cache miss but is not part of the cache "
                  f"key {missing[:2]}: a compiled form built for one value would be served for another",
                  "in every key the cache is read / written under", loc)
    # bool(schema_translate_map) / tuple(column_keys) forms are fine; the key must also contain the statement key
    ctx.check(all("call:self._generate_cache_key" in d for d in key_may),
              f"{f.key}:statement-key", "the statement's own cache key (self._generate_cache_key()) is not part of the lookup key",
              "statement key present", f.loc)
    # the compiled form is stored under the key that was looked up
    bad = []
    for s, k, at, v in stores:
        if not any(_same_value(s, k, at, s2, k2, at2) for s2, k2, at2 in lookups):
            bad.append(f"`{unparse(k)[:60]}` (line {getattr(k, 'lineno', '?')})")
    ctx.check(not bad, f"{f.key}:same-key", f"compiled_cache is written under a key {bad} that is not the key it was looked "
                                           f"up with", f"{len(lookups)} lookup(s) / {len(stores)} store(s) under one key", f.loc)

    for p in sorted(forwarded):
        if p in exempt or p not in kwnames:
            continue
        mine = [e for e in comps if _only_name(e) == p]
        if not mine:
            continue  # the component could not be isolated (key built elsewhere): covered by the dependency check above
        gates = _compile_time_gates(ctx, kwnames[p])
        key2 = f"{f.key}:{p}:key-refines-compiler-gates"
        sigs = [(_signature(e, p), e) for e in mine]
        if any(sg is None for sg, e in sigs):
            ctx.note(f"{key2}: key component `{unparse([e for sg, e in sigs if sg is None][0])}` is not a predicate of the "
                     f"argument alone over None/empty/non-empty: not decided")
            continue
        bad = []
        for gf, gt, gs in gates:
            for i in range(3):
                for j in range(i + 1, 3):
                    if gs[i] != gs[j] and all(sg[i] == sg[j] for sg, e in sigs):
                        bad.append((gf, gt, _ABS[i], _ABS[j]))
        names = {"NONE": "None", "EMPTY": "an empty value", "NONEMPTY": "a non-empty value"}
        if bad:
            gf, gt, a, b = bad[0]
            ctx.violation(
                key2,
                f"the cache key carries `{' / '.join(unparse(e) for sg, e in sigs)}` for argument `{p}`, which is the same for "
                f"{names[a]} and {names[b]}, but {gf.qualname} (which receives it as `{kwnames[p]}` on a cache miss) branches on "
                f"`{unparse(gt)}`, which tells them apart: a form compiled for one is served from the cache for the other",
                loc, [f"{g.qualname}: `{unparse(t)}` distinguishes {names[x]} from {names[y]}" for g, t, x, y in bad[:4]])
        else:
            ctx.ok(key2, f"`{' / '.join(unparse(e) for sg, e in sigs)}` separates every two values of `{p}` that the "
                         f"{len(gates)} compile-time test(s) on `{kwnames[p]}` in Compiled.__init__ & subclasses separate",
                   nontrivial=bool(gates))


@R.rule("C02-R3", floor=50, template="T-EXHAUST",
        desc="every InternalTraversal symbol used in a traversal list has a cache-key handler and a comparison handler")
def r3(ctx):
    ev = Evaluator(ctx.index, symbolic_classes={"InternalTraversal"})
    used: Dict[str, str] = {}
    for c in ctx.index.all_classes():
        if c.module.relpath.startswith("testing"):
            continue
        for nm in ("_traverse_internals", "_cache_key_traversal"):
            if nm in c.assigns:
                v = ev.eval(c.assigns[nm][-1], c.module, c)
                if isinstance(v, (list, tuple)):
                    for row in v:
                        if isinstance(row, tuple) and len(row) >= 2 and isinstance(row[1], Sym) and row[1].name.startswith("InternalTraversal."):
                            used.setdefault(row[1].short, c.key)
    ctx.require(len(used) >= 25, f"only {len(used)} traversal symbols in use")
    it = ctx.index.cls("sql/visitors.py::InternalTraversal")
    ck = ctx.index.cls("sql/cache_key.py::_CacheKeyTraversal")
    cmpc = ctx.index.cls("sql/traversals.py::TraversalComparatorStrategy")
    for sym, where in sorted(used.items()):
        ctx.require(sym in it.assigns, f"{sym} used in {where} is not defined on InternalTraversal")
        vname = "visit_" + sym[3:] if sym.startswith("dp_") else sym
        has_ck = ctx.index.find_class_attr(ck, vname) is not None
        has_cmp = ctx.index.find_class_attr(cmpc, vname) is not None
        ctx.check(has_ck, f"sql/cache_key.py::_CacheKeyTraversal.{vname}",
                  f"traversal symbol {sym} (used by {where}) has no cache-key handler: the attribute would be missing from keys",
                  "handler present", ck.loc, nontrivial=False)
        ctx.check(has_cmp, f"sql/traversals.py::TraversalComparatorStrategy.{vname}",
                  f"traversal symbol {sym} (used by {where}) has no comparison handler", "handler present", cmpc.loc, nontrivial=False)


VALUE_ATTRS = ("effective_value", "value")
EXTRACTED = "param:extracted_parameters"
ORIG_BINDS = "self.cache_key"


def _map_builders(s):
    """Places where a mapping is built from a positional pairing zip(A, B):
    [(cfg node, zip call, key expr, value expr, comprehension env | None)] for
    `{K: V for a, b in zip(A, B) ...}`, `dict((K, V) for a, b in zip(A, B) ...)` and
    `for a, b in zip(A, B): ... M[K] = V` / `M.setdefault(K, V)`."""
    out = []
    for n in s.local_walk():
        at = s.node_of(n)
        if isinstance(n, (ast.DictComp, ast.GeneratorExp, ast.ListComp)) and at is not None:
            zips = [g_.iter for g_ in n.generators if isinstance(g_.iter, ast.Call) and (call_name(g_.iter) or "") == "zip"]
            if not zips:
                continue
            if isinstance(n, ast.DictComp):
                k, v = n.key, n.value
            elif isinstance(n.elt, ast.Tuple) and len(n.elt.elts) == 2:
                k, v = n.elt.elts
            else:
                continue
            out.append((at, zips[0], k, v, s.comp_env(n, at)))
        elif isinstance(n, ast.For) and isinstance(n.iter, ast.Call) and (call_name(n.iter) or "") == "zip":
            for st in walk_stmts(n.body):
                if isinstance(st, ast.Assign):
                    for t in st.targets:
                        if isinstance(t, ast.Subscript) and s.node_of(t) is not None:
                            out.append((s.node_of(t), n.iter, t.slice, st.value, None))
                elif isinstance(st, ast.Expr) and isinstance(st.value, ast.Call) and isinstance(st.value.func, ast.Attribute) \
                        and st.value.func.attr in ("setdefault", "__setitem__") and len(st.value.args) == 2 \
                        and s.node_of(st.value) is not None:
                    out.append((s.node_of(st.value), n.iter, st.value.args[0], st.value.args[1], None))
    return out


@R.rule("C02-R4", floor=3, template="T-FLOW",
        desc="construct_params reads parameter values from the executing statement's extracted parameters")
def r4(ctx):
    from ._helpers_rob_c2 import Scope
    f = ctx.func(f"{CMP}::SQLCompiler.construct_params")
    ctx.require("extracted_parameters" in f.params, "construct_params: no `extracted_parameters` parameter")
    sc = Scope(ctx, f)
    scopes = sc.with_helpers()
    # every `.value` / `.effective_value` read (in the function, or in a helper it calls with the binds): the object
    # read is looked up in a mapping computed from the executing statement's extracted_parameters
    reads = []
    for s in scopes:
        for n in s.local_walk():
            if isinstance(n, ast.Attribute) and n.attr in VALUE_ATTRS and isinstance(n.ctx, ast.Load):
                at = s.node_of(n)
                if at is None or not s.rd.reachable(at):
                    continue
                d = s.deps(n.value, at)
                if s is sc or EXTRACTED in d or "self.bind_names" in d:
                    reads.append((s, n, at, d))
    ctx.require(len(reads) >= 2, "construct_params: no .effective_value / .value reads found")
    no_lookup = []
    for s, n, at, d in reads:
        found = False
        for kind, x, n2 in s.origins(n.value, at):
            if kind != "expr":
                continue
            for y in ast.walk(x):
                m = None
                if isinstance(y, ast.Call) and isinstance(y.func, ast.Attribute) and y.func.attr in ("get", "__getitem__") and y.args:
                    m = y.func.value
                elif isinstance(y, ast.Subscript):
                    m = y.value
                if m is not None and EXTRACTED in s.deps(m, n2):
                    found = True
        if not found:
            no_lookup.append(f"{unparse(n)} (line {n.lineno})")
    ctx.check(not no_lookup, f"{f.key}:value_param",
              f"the bind whose value is read ({no_lookup}) is not looked up in the mapping built from the executing "
              f"statement's extracted_parameters", "M.get(bindparam, bindparam) with M built from extracted_parameters", f.loc)
    bad = [f"{unparse(n)} (line {n.lineno})" for s, n, at, d in reads if EXTRACTED not in d]
    ctx.check(not bad, f"{f.key}:value-source",
              f"parameter values are read from the cache-populating bind ({bad}) instead of the executing statement's",
              f"{len(reads)} value reads, all on a bind that is resolved through extracted_parameters", f.loc)
    # the mapping pairs the compiled statement's binds (self.cache_key[1]) with the executing statement's
    # extracted_parameters positionally, and maps compiled bind -> executing parameter
    builders = []
    for s in scopes:
        for at, z, k, v, cenv in _map_builders(s):
            argd = [s.deps(a, at) for a in z.args]
            if any(EXTRACTED in d or ORIG_BINDS in d for d in argd):
                builders.append((s, at, z, k, v, cenv, argd))
    ctx.require(builders, "construct_params: no mapping built from zip(<original binds>, extracted_parameters) found "
                          "(dict comprehension / dict(generator) / for-loop with M[K] = V, here or in a same-module helper)")
    bad = []
    for s, at, z, k, v, cenv, argd in builders:
        kd, vd = s.deps(k, at, cenv=cenv), s.deps(v, at, cenv=cenv)
        paired = len(z.args) == 2 and any(ORIG_BINDS in d and EXTRACTED not in d for d in argd) \
            and any(EXTRACTED in d and ORIG_BINDS not in d for d in argd)
        if not paired:
            bad.append(f"`{unparse(z)}` does not pair the compiled statement's binds (self.cache_key[1]) with extracted_parameters")
        elif not (EXTRACTED in vd and ORIG_BINDS not in vd):
            bad.append(f"the mapping's values `{unparse(v)}` are not the executing statement's parameters")
        elif not (ORIG_BINDS in kd and EXTRACTED not in kd):
            bad.append(f"the mapping's keys `{unparse(k)}` are not derived from the compiled statement's binds")
    ctx.check(not bad, f"{f.key}:resolved_extracted",
              "resolved_extracted is not zip(original binds, executing statement's extracted_parameters): " + "; ".join(bad),
              "zip(orig, extracted) -> {compiled bind: executing parameter}", f.loc)


# ---------------------------------------------------------------------- C02-R5: statement-level .params()
# Statement-level parameter values set with ExecutableStatement.params() reach the execution on two paths:
# cached -- HasCacheKey._gen_cache_key collects `_params` rows (dp_params) into CacheKey.params through
# _CacheKeyTraversal.visit_params, in traversal-row order; uncached -- the compiler collects them while
# rendering through SQLCompiler._add_to_params, called by the visit methods.  Transparency needs both paths
# (a) to resolve a name given at several nesting levels in favour of the same level and (b) to collect the
# `_params` of the same statement classes.
PARAMS_COLLECTOR_CACHED = "sql/cache_key.py::_CacheKeyTraversal.visit_params"
PARAMS_COLLECTOR_UNCACHED = f"{CMP}::SQLCompiler._add_to_params"
# rows that may follow the dp_params row although their symbol can carry child elements
R5_ROW_EXCEPTIONS = {
    "_compile_options": "a CacheableOptions class / instance: plain option flags, never a statement carrying params",
}


def _as_merge(v: ast.expr) -> Optional[List[ast.expr]]:
    """Operands of a two-mapping merge in 'the last one wins' order, or None."""
    from ..oracles import load
    sem = load("python_mapping_merge.json")["last_operand_wins"]
    if isinstance(v, ast.BinOp) and isinstance(v.op, ast.BitOr) and sem["binop_or"]:
        return [v.left, v.right]
    if isinstance(v, ast.Call) and isinstance(v.func, ast.Attribute) and v.func.attr in ("union", "merge_with") \
            and len(v.args) == 1 and not v.keywords and sem["method_" + v.func.attr]:
        return [v.func.value, v.args[0]]
    if isinstance(v, ast.Dict) and v.keys and all(k is None for k in v.keys) and len(v.values) == 2 and sem["dict_display_unpack"]:
        return list(v.values)
    # a constructor wrapped around a merge: immutabledict(a | b)
    if isinstance(v, ast.Call) and len(v.args) == 1 and not v.keywords and (call_name(v) or "").rsplit(".", 1)[-1] in ("immutabledict", "dict"):
        return _as_merge(v.args[0])
    return None


def _merge_winner(ctx, f: FuncInfo):
    """In a collector function: the statement `ACC = merge(ACC, NEW)` where ACC is the accumulator that is stored
    back and NEW derives from a parameter.  -> ('acc' | 'new', loc, text of the merge)."""
    from ._helpers_rob_c2 import Scope
    sc = Scope(ctx, f)
    params = set(f.params) - {"self", "cls"}
    found = []
    for st in walk_stmts(f.node.body):
        if not (isinstance(st, ast.Assign) and len(st.targets) == 1 and isinstance(st.targets[0], (ast.Attribute, ast.Subscript))):
            continue
        tgt = unparse(st.targets[0])
        vals = [st.value]
        if isinstance(st.value, ast.Name):
            vals = [v for n, v, s2 in name_stores(f.node) if n == st.value.id and v is not None]
        # a conditional expression `merge(acc, new) if acc_present else new`: each alternative
        vals = [x for v in vals for x in ((v.body, v.orelse) if isinstance(v, ast.IfExp) else (v,))]
        for v in vals:
            ops = _as_merge(v)
            if ops is None:
                continue
            # operands are compared with the stored-to place after resolving plain local aliases
            # (`collected = self._collected_params; ... = new | collected`)
            res = []
            for o in ops:
                r = o
                if isinstance(o, ast.Name) and sc.node_of(o) is not None:
                    og = sc.origins(o, sc.node_of(o))
                    if len(og) == 1 and og[0][0] == "expr":
                        r = og[0][1]
                res.append(r)
            acc = [i for i, o in enumerate(res) if unparse(o) == tgt]
            new = [i for i, o in enumerate(res) if unparse(o) != tgt and (
                {n.id for n in ast.walk(o) if isinstance(n, ast.Name)} & params
                or any(a.startswith("param:") for a in sc.deps(ops[i], sc.node_of(ops[i]))))]
            if len(acc) == 1 and len(new) == 1:
                found.append(("new" if new[0] > acc[0] else "acc", f"{f.module.path}:{v.lineno}", unparse(v)))
    ctx.require(found, f"{f.key}: no `accumulator = merge(accumulator, new)` statement recognised (| / .union() / {{**a, **b}})")
    ctx.require(len({w for w, _, _ in found}) == 1, f"{f.key}: merges with contradictory operand orders: {[t for _, _, t in found]}")
    return found[0]


def _traversal_rows(ctx, ev: Evaluator, c: ClassInfo):
    """Own cache-key traversal rows [(attr, symbol short name)] of class c (its `_cache_key_traversal` if it
    defines one, else its `_traverse_internals`), or None if it defines neither / not evaluable."""
    for nm in ("_cache_key_traversal", "_traverse_internals"):
        if nm in c.assigns:
            node = c.assigns[nm][-1]
            if isinstance(node, ast.Constant) and node.value is None:
                continue
            v = ev.eval(node, c.module, c)
            if not isinstance(v, (list, tuple)):
                return None
            rows = []
            for r in v:
                if isinstance(r, tuple) and len(r) >= 2 and isinstance(r[0], str):
                    rows.append((r[0], r[1].short if isinstance(r[1], Sym) else None))
                else:
                    return None
            return rows
    return None


def _params_disabled(ctx, c: ClassInfo) -> Optional[FuncInfo]:
    """The class's params() if it does nothing but raise (statement-level params can never be set)."""
    f = ctx.index.resolve_method(c, "params")
    if f is None:
        return None
    body = [st for st in f.node.body if not (isinstance(st, ast.Expr) and isinstance(st.value, ast.Constant))]
    if body and all(isinstance(st, ast.Raise) for st in body):
        return f
    return None


def _visit_name(ctx, c: ClassInfo) -> Optional[str]:
    for k in ctx.index.mro(c):
        vn = k.assigns.get("__visit_name__")
        if vn and isinstance(vn[-1], ast.Constant) and isinstance(vn[-1].value, str):
            return vn[-1].value
    return None


@R.rule("C02-R5", floor=60, template="T-SIBLING",
        desc="statement-level .params(): the cached collector (cache-key traversal order + visit_params) and the "
             "uncached collector (visit-method order + SQLCompiler._add_to_params) give the same nesting level "
             "precedence on a name conflict, and collect the `_params` of the same statement classes")
def r5(ctx):
    ev = Evaluator(ctx.index, symbolic_classes={"InternalTraversal", "ExtendedInternalTraversal"})
    fc = ctx.func(PARAMS_COLLECTOR_CACHED)
    fu = ctx.func(PARAMS_COLLECTOR_UNCACHED)
    win_c, loc_c, txt_c = _merge_winner(ctx, fc)
    win_u, loc_u, txt_u = _merge_winner(ctx, fu)

    # ---- cached path: where does the statement's own `_params` row stand relative to rows that hold children?
    gct = ctx.index.cls("sql/traversals.py::_GetChildrenTraversal")
    child_syms = {m[len("visit_"):] for m in gct.methods if m.startswith("visit_")}
    ctx.require(len(child_syms) >= 8, "_GetChildrenTraversal lost its visit_* methods")
    hck = _has_cache_key(ctx)
    row_pos = []
    keyed_classes = []
    for c in sorted(ctx.index.all_classes(), key=lambda k: k.key):
        if c.module.relpath.startswith("testing") or hck not in ctx.index.mro(c):
            continue
        rows = _traversal_rows(ctx, ev, c)
        if not rows:
            continue
        idx = [i for i, (a, sym) in enumerate(rows) if sym == "dp_params"]
        if not idx:
            continue
        ctx.require(len(idx) == 1, f"{c.key}: several dp_params rows")
        dis = _params_disabled(ctx, c)
        if dis is not None:
            ctx.ok(f"{c.key}:_params", f"{dis.qualname}() only raises: statement-level params can never be set on this "
                                       f"class, its `_params` row is always empty", nontrivial=False)
            continue
        keyed_classes.append(c)
        i = idx[0]

        def bearing(row):
            a, sym = row
            return sym is not None and sym[3:] in child_syms and a not in R5_ROW_EXCEPTIONS
        before = [a for a, sym in rows[:i] if bearing((a, sym))]
        after = [a for a, sym in rows[i + 1:] if bearing((a, sym))]
        pos = "last" if not after else ("first" if not before else "middle")
        row_pos.append((c, pos, before, after))
    ctx.require(row_pos, "no statement class with a dp_params row")
    from collections import Counter
    major_c = Counter(p for _, p, _, _ in row_pos if p != "middle").most_common(1)
    major_c = major_c[0][0] if major_c else "middle"
    order_c = {major_c}
    for c, pos, before, after in row_pos:
        ctx.check(pos == major_c, f"{c.key}:_params-row-position",
                  f"the `_params` row of {c.name}'s cache-key traversal stands {pos} among its child-bearing rows "
                  f"(child rows after it: {after}; before it: {before[:4]}) while its sibling statement classes have it "
                  f"{major_c}: {fc.qualname} merges `{txt_c}` in visiting order, so statements nested in those rows get "
                  f"the opposite precedence against {c.name}.params() than they get in every other statement class",
                  f"`_params` row visited {pos} ({len(before)} child-bearing rows before, {len(after)} after), like its siblings",
                  c.loc)
    ctx.require(len(keyed_classes) >= 5, f"only {len(keyed_classes)} statement classes with a dp_params row")

    # ---- uncached path: is _add_to_params called before or after the visit method dispatches into children?
    comp = ctx.index.cls(f"{CMP}::SQLCompiler")
    call_pos = []
    collected_visits: Dict[str, FuncInfo] = {}
    short_u = fu.name
    from ._helpers_rob_c2 import Scope
    # private helpers that do nothing but hand one of their own parameters to the collector
    # (`def _maybe_collect(self, stmt): if self._collect_params: self._add_to_params(stmt)`) are collectors too
    collectors: Dict[str, int] = {short_u: 0}  # method name -> index of the statement argument
    for cc in [ctx.index.cls(k) for k in COMPILERS]:
        for m in cc.methods.values():
            if m.name.startswith("visit_") or m.name == short_u:
                continue
            calls = [c for c in calls_in(m.node) if (call_name(c) or "") == f"self.{short_u}" and c.args]
            if not calls:
                continue
            msc = Scope(ctx, m)
            idx = set()
            for c in calls:
                pa = msc.param_atoms(c.args[0], msc.node_of(c)) if msc.node_of(c) is not None else None
                if pa is not None and len(pa) == 1 and next(iter(pa)).startswith("param:") and next(iter(pa))[6:] in m.params[1:]:
                    idx.add(m.params[1:].index(next(iter(pa))[6:]))
            if len(idx) == 1 and not any((call_name(x) or "").endswith(("._compiler_dispatch", ".process")) for x in calls_in(m.node)):
                collectors[m.name] = idx.pop()
    for cc in [ctx.index.cls(k) for k in COMPILERS]:
        for m in cc.methods.values():
            calls = [c for c in calls_in(m.node) if (call_name(c) or "").startswith("self.") and (call_name(c) or "")[5:] in collectors]
            if not calls or m.name in collectors:
                continue
            ctx.functions_analysed.add(m.key)
            g = ctx.cfg(m)
            msc = Scope(ctx, m)
            elem = m.params[1] if len(m.params) > 1 else None
            for c in calls:
                ai = collectors[(call_name(c) or "")[5:]]
                ctx.require(len(c.args) > ai and isinstance(c.args[ai], ast.Name), f"{m.key}: {short_u}() argument is not a plain name")
                arg = c.args[ai]
                at_c = msc.node_of(c)
                # the statement being visited, possibly through a plain local alias (`stmt = cs`)
                if m.name.startswith("visit_") and elem is not None and at_c is not None \
                        and msc.param_atoms(arg, at_c) == frozenset({"param:" + elem}):
                    collected_visits[m.name[len("visit_"):]] = m
                nodes = g.nodes_containing(c)
                ctx.require(nodes, f"{m.key}: {short_u}() call not found in the CFG")

                def dispatches(n):
                    if n.stmt is None or not isinstance(n.stmt, ast.stmt) or n.kind in ("with_exit", "handler", "join"):
                        return False
                    from ..astutil import own_exprs
                    for part in own_exprs(n.stmt):
                        for cl in calls_in(part):
                            nm = call_name(cl) or ""
                            if cl is c:
                                continue
                            if nm.endswith(("._compiler_dispatch", ".process")) or (nm.startswith("self.") and nm[5:] not in collectors):
                                return True
                    return False
                disp = [n.id for n in g.nodes if dispatches(n)]
                reach_from_disp = g.reachable(disp) if disp else set()
                early = not any(n in reach_from_disp for n in nodes)
                late = bool(disp) and not (g.reachable(nodes) & set(disp) - set(nodes))
                pos = "first" if early else ("last" if late else "middle")
                call_pos.append((m, c, pos, arg.id))
    ctx.require(len(collected_visits) >= 4, f"only {len(collected_visits)} visit methods call {short_u}()")
    major_u = Counter(p for _, _, p, _ in call_pos if p != "middle").most_common(1)
    major_u = major_u[0][0] if major_u else "middle"
    order_u = {major_u}
    for m, c, pos, argname in call_pos:
        ctx.check(pos == major_u, f"{m.key}:{short_u}-position",
                  f"{m.qualname} calls {short_u}({argname}) {'after' if pos != 'first' else 'before'} it dispatches "
                  f"into child elements while its sibling visit methods call it {major_u}: {fu.qualname} merges "
                  f"`{txt_u}` in calling order, so statements nested inside this construct get the opposite "
                  f"precedence than inside every other construct",
                  f"{short_u}() runs {pos}, like its siblings", f"{m.module.path}:{c.lineno}")

    # ---- (a) both paths favour the same nesting level
    def level(win, orders, later_is):
        if len(orders) != 1 or "middle" in orders:
            return "mixed"
        pos = next(iter(orders))
        # cached: own row last => outer visited later;  uncached: call first => outer collected earlier
        outer_is_later = (pos == "last") if later_is == "row" else (pos != "first")
        return "outer" if (win == "new") == outer_is_later else "inner"
    lev_c = level(win_c, order_c, "row")
    lev_u = level(win_u, order_u, "call")
    ctx.check(
        lev_c == lev_u and lev_c != "mixed",
        f"{fu.key}:precedence-agrees-with:{fc.key}",
        f"a bind name given by .params() at two nesting levels resolves to the {lev_u.upper()} statement's value when "
        f"the compiled cache is not used ({fu.qualname}: `{txt_u}`, called {'/'.join(sorted(order_u))} in the visit "
        f"methods) but to the {lev_c.upper()} statement's value when it is used ({fc.qualname}: `{txt_c}`, `_params` row "
        f"visited {'/'.join(sorted(order_c))}): the same statement executes with different parameter values "
        f"depending on the cache",
        f"both paths: {lev_c} statement wins (cached `{txt_c}` / row {'/'.join(sorted(order_c))}; uncached `{txt_u}` / "
        f"call {'/'.join(sorted(order_u))})",
        loc_u)

    # ---- (b) both paths collect the `_params` of the same statement classes
    byvisit = _element_classes(ctx)
    compilers = [ctx.index.cls(k) for k in COMPILERS]
    n_b = 0
    for vn in sorted(byvisit):
        has_visit = any(ctx.index.resolve_method(cc, "visit_" + vn) is not None for cc in compilers)
        for c in sorted(byvisit[vn], key=lambda k: k.key):
            status, keyed, owner = _effective_traversal(ctx, ev, c)
            if status != "keyed" or _params_disabled(ctx, c) is not None or (c.name, "_params") in R1_EXCEPTIONS:
                continue
            cached = "_params" in keyed
            fixed = None
            for k in ctx.index.mro(c):
                m = k.methods.get("_compiler_dispatch")
                if m is not None and not m.type_only and k.module.relpath not in ("sql/visitors.py", "sql/annotation.py"):
                    fixed = m
                    break
            if fixed is not None:
                uncached = any((call_name(x) or "").endswith(f".{short_u}") for x in calls_in(fixed.node))
                how = f"compiles through its own {fixed.qualname}, which never calls {short_u}()"
                loc = fixed.loc
            elif not has_visit:
                continue  # no compiler renders this class by itself (abstract base)
            else:
                uncached = vn in collected_visits
                how = f"no compiler's visit_{vn} calls {short_u}()"
                loc = c.loc
            if not cached and not uncached:
                continue
            n_b += 1
            if cached and not uncached:
                ctx.violation(
                    f"{c.key}:_params-collected-uncached",
                    f"{c.name} has a `_params` row in its effective cache key ({owner.key if owner else '?'}; collected "
                    f"into CacheKey.params when the compiled cache is used) but {how}: values given with "
                    f"{c.name}.params() are lost when the compiled cache is disabled or the statement is not "
                    f"cacheable", loc)
            elif uncached and not cached:
                ctx.violation(
                    f"{c.key}:_params-collected-cached",
                    f"visit_{vn} collects {c.name}._params when the compiled cache is not used, but the class's "
                    f"effective cache-key traversal ({owner.key if owner else '?'}) has no `_params` row: the values "
                    f"are lost (and the key does not vary) when the cache is used", c.loc)
            else:
                ctx.ok(f"{c.key}:_params-collected", f"dp_params row in the key and {short_u}() in "
                       f"{'its _compiler_dispatch' if fixed is not None else 'visit_' + vn}", nontrivial=False)
    ctx.require(n_b >= 6, f"only {n_b} statement classes compared between the two collectors")


# ---------------------------------------------------------------------- C02-R6: forced inline rendering
# A statement compiler can render a bound value inline in two ways.  `literal_execute` leaves a post-compile
# token in Compiled.string that is filled at every execution from the parameters of the statement being
# executed; `literal_binds` writes the value of the statement being COMPILED into the string.  Bound values
# are extracted from the cache key, so two statements that differ only in such a value share the compiled
# form: a visit method of a statement compiler may therefore switch `literal_binds` on only when the whole
# compilation already is a literal_binds compilation (the flag it was called with), or from state of the visited
# element (which C02-R1 requires to be keyed), or for an element it constructs itself.
INLINE_FLAGS = ("literal_binds", "literal_execute")
# {(function key): reason}
R6_EXCEPTIONS: Dict[str, str] = {}


def _flag_sites(fnode):
    """[(flag, value expr, anchor node, rendered operand | None)] places where a render flag is given a value:
    call keyword `flag=V`, `X["flag"] = V`, `{..., "flag": V}`, `X.setdefault("flag", V)`."""
    out = []
    for n in walk_local(fnode, into_nested=True):
        if isinstance(n, ast.Call):
            for k in n.keywords:
                if k.arg in INLINE_FLAGS:
                    operand = None
                    if isinstance(n.func, ast.Attribute):
                        if n.func.attr == "_compiler_dispatch":
                            operand = n.func.value
                        elif n.args:
                            operand = n.args[0]
                    out.append((k.arg, k.value, n, operand, n))
            if isinstance(n.func, ast.Attribute) and n.func.attr == "setdefault" and len(n.args) == 2 \
                    and isinstance(n.args[0], ast.Constant) and n.args[0].value in INLINE_FLAGS:
                out.append((n.args[0].value, n.args[1], n, None, None))
        elif isinstance(n, ast.Assign):
            for t in n.targets:
                if isinstance(t, ast.Subscript) and isinstance(t.slice, ast.Constant) and t.slice.value in INLINE_FLAGS:
                    out.append((t.slice.value, n.value, n, None, None))
        elif isinstance(n, ast.Dict):
            for k, v in zip(n.keys, n.values):
                if isinstance(k, ast.Constant) and k.value in INLINE_FLAGS:
                    out.append((k.value, v, n, None, None))
    return out


def _is_constructor_call(ctx, mod, call: ast.Call) -> bool:
    """a call that builds a new element (class constructor / element factory function), not a rendering call"""
    nm = call_name(call) or ""
    if not nm or "()" in nm:
        return False
    r = ctx.index.resolve(mod, nm)
    if isinstance(r, ClassInfo):
        return True
    return isinstance(r, FuncInfo) and r.cls is None and r.module.relpath in (
        "sql/_elements_constructors.py", "sql/elements.py", "sql/expression.py", "sql/_selectable_constructors.py")


def _incoming_flag(e: ast.expr, fnode, flag: str) -> bool:
    """does `e` read the flag this method was itself called with: its own `flag` parameter, or the flag looked
    up in its own **kw (`kw.get(flag)`, `kw[flag]`, `kw.pop(flag, ..)`)"""
    a = fnode.args
    named = {x.arg for x in a.posonlyargs + a.args + a.kwonlyargs}
    kwname = a.kwarg.arg if a.kwarg is not None else None
    if isinstance(e, ast.Name):
        return e.id == flag and e.id in named
    if isinstance(e, ast.Call) and isinstance(e.func, ast.Attribute) and e.func.attr in ("get", "pop") and e.args \
            and isinstance(e.args[0], ast.Constant) and e.args[0].value == flag:
        return isinstance(e.func.value, ast.Name) and e.func.value.id == kwname
    if isinstance(e, ast.Subscript) and isinstance(e.slice, ast.Constant) and e.slice.value == flag:
        return isinstance(e.value, ast.Name) and e.value.id == kwname
    return False


def _implies_incoming(e: ast.expr, fnode, flag: str) -> bool:
    """can `e` be truthy only if the method's own incoming flag is truthy"""
    if isinstance(e, ast.Constant):
        return not e.value  # False / None / 0: the flag is not switched on at all
    if _incoming_flag(e, fnode, flag):
        return True
    if isinstance(e, ast.BoolOp):
        if isinstance(e.op, ast.And):
            return any(_implies_incoming(v, fnode, flag) for v in e.values)
        return all(_implies_incoming(v, fnode, flag) for v in e.values)
    if isinstance(e, ast.IfExp):
        return _implies_incoming(e.body, fnode, flag) and _implies_incoming(e.orelse, fnode, flag)
    if isinstance(e, ast.Call) and (call_name(e) or "") == "bool" and len(e.args) == 1:
        return _implies_incoming(e.args[0], fnode, flag)
    return False


def _element_state(e: ast.expr, fnode) -> bool:
    """`e` is a pure attribute read off the visited element (the method's first parameter after self)"""
    a = fnode.args
    pos = [x.arg for x in a.posonlyargs + a.args]
    if len(pos) < 2:
        return False
    x = e
    if not isinstance(x, ast.Attribute):
        return False
    while isinstance(x, ast.Attribute):
        x = x.value
    return isinstance(x, ast.Name) and x.id == pos[1]


@R.rule("C02-R6", floor=12, template="T-SIBLING",
        desc="every place where a statement compiler (SQLCompiler and its dialect subclasses) forces inline "
             "rendering of a sub-expression does so with literal_execute (post-compile token, filled per execution), "
             "or switches literal_binds on only as a function of the literal_binds flag it was itself called with / "
             "of keyed element state / for an element it constructs itself")
def r6(ctx):
    from ._helpers_rob_c1 import inline_locals
    from ._helpers_rob_c2 import conj_atoms
    base = ctx.index.cls(f"{CMP}::SQLCompiler")
    vb = ctx.index.resolve_method(base, "visit_bindparam")
    ctx.require(vb is not None and {"literal_binds", "literal_execute"} <= set(vb.params),
                "SQLCompiler.visit_bindparam no longer takes literal_binds / literal_execute (render flags renamed?)")
    fam = [base] + [c for c in ctx.index.subclasses(base) if not c.module.relpath.startswith("testing")]
    ctx.require(len(fam) >= 7, f"only {len(fam)} statement compiler classes")
    n_exec = 0
    for c in sorted(fam, key=lambda k: k.key):
        for f in sorted(c.methods.values(), key=lambda m: m.key):
            if f.type_only or f.is_overload:
                continue
            sites = [s for s in _flag_sites(f.node) if not (s[4] is not None and _is_constructor_call(ctx, f.module, s[4]))]
            if not sites:
                continue
            ctx.functions_analysed.add(f.key)
            g = None
            per_flag: Dict[str, List[Tuple[bool, str, int]]] = {}
            for flag, v, anchor, operand, call in sites:
                val = inline_locals(f.node, v)
                ln = getattr(anchor, "lineno", f.node.lineno)
                if isinstance(val, ast.Constant) and not val.value:
                    continue  # switched off
                if flag == "literal_execute":
                    per_flag.setdefault(flag, []).append((True, "post-compile token, filled from the executing statement's parameters", ln))
                    continue
                if _implies_incoming(val, f.node, flag):
                    per_flag.setdefault(flag, []).append((True, f"`{unparse(v)}` can be true only if the caller's own literal_binds is", ln))
                    continue
                if _element_state(val, f.node):
                    per_flag.setdefault(flag, []).append((True, f"`{unparse(v)}` is state of the visited element (keyed: C02-R1)", ln))
                    continue
                if operand is not None:
                    op_v = inline_locals(f.node, operand)
                    if isinstance(op_v, ast.Call) and _is_constructor_call(ctx, f.module, op_v):
                        per_flag.setdefault(flag, []).append((True, f"renders `{unparse(operand)[:40]}`, an element built by the compiler itself", ln))
                        continue
                # a dominating branch outcome that demands the incoming flag
                if g is None:
                    g = ctx.cfg(f)
                nodes = g.nodes_for(anchor) if isinstance(anchor, ast.stmt) else g.nodes_containing(anchor)
                guarded = bool(nodes) and all(
                    any(p2 and _incoming_flag(inline_locals(f.node, a), f.node, flag)
                        for t, pol in g.edge_guards(nid) for a, p2 in conj_atoms(t, pol))
                    for nid in nodes)
                if guarded:
                    per_flag.setdefault(flag, []).append((True, "under a branch taken only when the caller's own literal_binds is set", ln))
                    continue
                per_flag.setdefault(flag, []).append((False, f"`literal_binds` is set to `{unparse(v)}`", ln))
            for flag, results in sorted(per_flag.items()):
                key = f"{f.key}:inline-render[{flag}]"
                if flag == "literal_execute":
                    n_exec += 1
                if f.key in R6_EXCEPTIONS:
                    ctx.ok(key, "exception: " + R6_EXCEPTIONS[f.key], nontrivial=False)
                    continue
                bad = [(d, ln) for ok, d, ln in results if not ok]
                if bad:
                    ctx.violation(
                        key,
                        f"{f.qualname} switches literal_binds on for a sub-expression regardless of how the statement is "
                        f"being compiled ({bad[0][0]}, line {bad[0][1]}): the value of the statement that populates the "
                        f"compiled cache is written into Compiled.string, while bound values are extracted from the cache "
                        f"key -- a later statement that differs only in that value gets a cache hit and executes the first "
                        f"statement's literal.  Its siblings force inline rendering with literal_execute (a post-compile "
                        f"token filled from the executing statement's parameters)",
                        f"{f.module.path}:{bad[0][1]}", [f"line {ln}: {d}" for d, ln in bad])
                else:
                    ctx.ok(key, "; ".join(sorted({d for ok, d, ln in results})))
    ctx.require(n_exec >= 8, f"only {n_exec} methods force inline rendering with literal_execute (sibling family shrank)")


# ---------------------------------------------------------------------- self-test battery
SEL = "sql/selectable.py"
R.mutant("select-for-update-unkeyed", SEL, sub('        ("_for_update_arg", InternalTraversal.dp_clauseelement),\n', "", count=2), "C02-R1")
R.mutant("select-distinct-unkeyed", SEL, sub('            ("_distinct", InternalTraversal.dp_boolean),\n', ""), "C02-R1")
R.mutant("compile-w-cache-drop-executemany", "sql/elements.py", sub("                for_executemany,\n            )\n            compiled_sql = compiled_cache.get(key)", "            )\n            compiled_sql = compiled_cache.get(key)"), "C02-R2")
R.mutant("cachekey-handler-removed", "sql/cache_key.py", sub("    def visit_dml_values(", "    def visit_dml_values_removed("), "C02-R3")
R.mutant("construct-params-reads-cached-bind", CMP, sub("\n                    pd[escaped_name] = value_param.effective_value\n", "\n                    pd[escaped_name] = bindparam.effective_value\n", count=1), "C02-R4")
R.mutant("construct-params-reads-cached-bind-value", CMP, sub("\n                        pd[escaped_name] = value_param.value\n", "\n                        pd[escaped_name] = bindparam.value\n", count=1), "C02-R4")
R.mutant("benign-traversal-extra-row", SEL, sub('            ("_distinct", InternalTraversal.dp_boolean),\n', '            ("_distinct", InternalTraversal.dp_boolean),\n            ("_verif_extra", InternalTraversal.dp_boolean),\n'), None)

# ---- strengthening round (seeds C02/1, C02/2)
DML = "sql/dml.py"
# seed C02/1: a compiler-read flag dropped from Insert's traversal (caught by R1 before the round)
R.mutant("seed1-insert-from-select-defaults-unkeyed", DML, sub(
    '            (\n                "include_insert_from_select_defaults",\n                InternalTraversal.dp_boolean,\n            ),\n', ""), "C02-R1")
R.mutant("benign-insert-traversal-rows-reordered", DML, sub(
    '            ("_select_names", InternalTraversal.dp_string_list),\n            (\n                "include_insert_from_select_defaults",\n                InternalTraversal.dp_boolean,\n            ),\n',
    '            (\n                "include_insert_from_select_defaults",\n                InternalTraversal.dp_boolean,\n            ),\n            ("_select_names", InternalTraversal.dp_string_list),\n'), None)
# seed C02/2: operand order of the dict union in the uncached .params() collector
R.mutant("seed2-add-to-params-inner-wins", CMP, sub(
    "            self._collected_params = item._params | self._collected_params\n",
    "            self._collected_params = self._collected_params.union(\n                item._params\n            )\n"), "C02-R5")
R.mutant("cachekey-visit-params-inner-wins", "sql/cache_key.py", sub(
    "                to_set = anon_map[CacheConst.PARAMS] | obj\n", "                to_set = obj | anon_map[CacheConst.PARAMS]\n"), "C02-R5")
R.mutant("select-params-row-before-ctes", SEL, sub(
    "        + HasCTE._has_ctes_traverse_internals\n        + HasPrefixes._has_prefixes_traverse_internals\n        + HasSuffixes._has_suffixes_traverse_internals\n"
    "        + HasHints._has_hints_traverse_internals\n        + SupportsCloneAnnotations._clone_annotations_traverse_internals\n"
    "        + ExecutableStatement._executable_traverse_internals\n",
    "        + ExecutableStatement._executable_traverse_internals\n        + HasCTE._has_ctes_traverse_internals\n        + HasPrefixes._has_prefixes_traverse_internals\n"
    "        + HasSuffixes._has_suffixes_traverse_internals\n        + HasHints._has_hints_traverse_internals\n"
    "        + SupportsCloneAnnotations._clone_annotations_traverse_internals\n"), "C02-R5")
R.mutant("textual-select-params-not-collected-uncached", CMP, sub(
    "        if self._collect_params:\n            self._add_to_params(taf)\n", ""), "C02-R5")
R.mutant("compound-select-collects-after-children", CMP, sub(
    "        if self._collect_params:\n            self._add_to_params(cs)\n        toplevel = not self.stack\n\n        compile_state = cs._compile_state_factory(cs, self, **kwargs)\n",
    "        toplevel = not self.stack\n\n        compile_state = cs._compile_state_factory(cs, self, **kwargs)\n"
    "        prefetched = [self.process(s_, **kwargs) for s_ in ()]\n        if self._collect_params:\n            self._add_to_params(cs)\n"), "C02-R5")
R.mutant("benign-add-to-params-union-spelling", CMP, sub(
    "            self._collected_params = item._params | self._collected_params\n",
    "            merged = util.immutabledict(item._params).union(\n                self._collected_params\n            )\n            self._collected_params = merged\n"), None)
R.mutant("benign-compound-select-local-before-collect", CMP, sub(
    "        if self._collect_params:\n            self._add_to_params(cs)\n        toplevel = not self.stack\n",
    "        toplevel = not self.stack\n        if self._collect_params:\n            self._add_to_params(cs)\n"), None)
R.mutant("benign-visit-params-renamed-local", "sql/cache_key.py", sub(
    "                to_set = anon_map[CacheConst.PARAMS] | obj\n            else:\n                to_set = obj\n            anon_map[CacheConst.PARAMS] = to_set\n",
    "                merged_params = anon_map[CacheConst.PARAMS] | obj\n            else:\n                merged_params = obj\n            anon_map[CacheConst.PARAMS] = merged_params\n"), None)
# (the benign mutant that applied the FromStatement repair was removed: the repair is part of the tree now, see
# `fromstatement-stops-collecting-params` below for its inverse)

# ---- robustification round (rob-C2): C02-R2 / C02-R4 read the functions through reaching definitions and
# same-module helpers instead of local names; breaking mutants for the aspects that had none, and the benign
# refactoring families (renamed locals, inverted branches, aliases, extracted helpers, comprehension <-> loop)
ELT = "sql/elements.py"
_CWC_STORE = "                compiled_cache[key] = compiled_sql\n"
R.mutant("r2-store-under-other-key", ELT, sub(_CWC_STORE, "                compiled_cache[(dialect, cache_key)] = compiled_sql\n"), "C02-R2")
R.mutant("r2-key-rebuilt-before-store", ELT, sub(
    _CWC_STORE, "                key = (dialect, cache_key, bool(schema_translate_map))\n" + _CWC_STORE), "C02-R2")
R.mutant("r2-key-without-statement-key", ELT, sub(
    "                dialect,\n                cache_key,\n                tuple(column_keys),\n",
    "                dialect,\n                tuple(column_keys),\n"), "C02-R2")
R.mutant("r2-key-drops-schema-translate-map", ELT, sub(
    "                tuple(column_keys),\n                bool(schema_translate_map),\n", "                tuple(column_keys),\n"), "C02-R2")
R.mutant("r2-key-column-keys-constant-local", ELT, sub(
    "            key = (\n                dialect,\n                cache_key,\n                tuple(column_keys),\n",
    "            ck = ()\n            key = (\n                dialect,\n                cache_key,\n                ck,\n"), "C02-R2")
_CWC_GUARD_OLD = ("        if compiled_cache is not None and dialect._supports_statement_cache:\n"
                  "            elem_cache_key = self._generate_cache_key()\n        else:\n            elem_cache_key = None\n")
_CWC_GUARD_NEW = ("        if compiled_cache is None or not dialect._supports_statement_cache:\n"
                  "            elem_cache_key = None\n        else:\n            elem_cache_key = self._generate_cache_key()\n")
_CWC_MISS_OLD = ("            if compiled_sql is None:\n                cache_hit = dialect.CACHE_MISS\n")
_CWC_MISS_NEW = ("            if compiled_sql is not None:\n                cache_hit = dialect.CACHE_HIT\n"
                 "            else:\n                cache_hit = dialect.CACHE_MISS\n")
R.mutant("benign-r2-renamed-key-inverted-branches", ELT, chain(
    sub(_CWC_GUARD_OLD, _CWC_GUARD_NEW),
    sub("            key = (\n                dialect,\n", "            lookup_key = (\n                dialect,\n"),
    sub("            compiled_sql = compiled_cache.get(key)\n", "            compiled_sql = compiled_cache.get(lookup_key)\n"),
    sub(_CWC_MISS_OLD, _CWC_MISS_NEW),
    sub(_CWC_STORE + "            else:\n                cache_hit = dialect.CACHE_HIT\n", "                compiled_cache[lookup_key] = compiled_sql\n"),
), None)
R.mutant("benign-r2-cache-alias-and-hoisted-key-parts", ELT, chain(
    sub("            key = (\n                dialect,\n                cache_key,\n                tuple(column_keys),\n                bool(schema_translate_map),\n",
        "            cache = compiled_cache\n            ck = tuple(column_keys)\n            has_stm = bool(schema_translate_map)\n"
        "            key = (\n                dialect,\n                cache_key,\n                ck,\n                has_stm,\n"),
    sub("            compiled_sql = compiled_cache.get(key)\n", "            compiled_sql = cache.get(key)\n"),
    sub(_CWC_STORE, "                cache[key] = compiled_sql\n"),
), None)
R.mutant("benign-r2-key-built-by-helper", ELT, chain(
    sub("            key = (\n                dialect,\n                cache_key,\n                tuple(column_keys),\n                bool(schema_translate_map),\n                for_executemany,\n            )\n",
        "            key = self._compiled_cache_lookup_key(\n                dialect, cache_key, column_keys, schema_translate_map, for_executemany\n            )\n"),
    sub("    def _compile_w_cache(\n",
        "    def _compiled_cache_lookup_key(\n        self, dialect, cache_key, column_keys, schema_translate_map, for_executemany\n    ):\n"
        "        return (\n            dialect,\n            cache_key,\n            tuple(column_keys),\n            bool(schema_translate_map),\n            for_executemany,\n        )\n\n"
        "    def _compile_w_cache(\n"),
), None)
R.mutant("benign-r2-inline-keys-try-except-lookup", ELT, chain(
    sub("            compiled_sql = compiled_cache.get(key)\n\n            if compiled_sql is None:\n",
        "            try:\n                compiled_sql = compiled_cache[key]\n            except KeyError:\n                compiled_sql = None\n\n            if compiled_sql is None:\n"),
), None)
R.mutant("benign-r2-lookup-and-store-in-helper", ELT, chain(
    sub("            compiled_sql = compiled_cache.get(key)\n\n            if compiled_sql is None:\n                cache_hit = dialect.CACHE_MISS\n"
        "                compiled_sql = self._compiler(\n                    dialect,\n                    cache_key=elem_cache_key,\n                    column_keys=column_keys,\n"
        "                    for_executemany=for_executemany,\n                    schema_translate_map=schema_translate_map,\n                    **kw,\n                )\n"
        "                # ensure that params of the current statement are not\n                # left in the cache\n"
        "                assert not compiled_sql._collect_params  # type: ignore[attr-defined] # noqa: E501\n"
        + _CWC_STORE + "            else:\n                cache_hit = dialect.CACHE_HIT\n",
        "            compiled_sql, cache_hit = self._lookup_or_compile(\n                compiled_cache, key, dialect, elem_cache_key, column_keys,\n"
        "                for_executemany, schema_translate_map, kw,\n            )\n"),
    sub("    def _compile_w_cache(\n",
        "    def _lookup_or_compile(\n        self, cache, cache_lookup_key, dialect, elem_cache_key, column_keys,\n        for_executemany, schema_translate_map, kw,\n    ):\n"
        "        found = cache.get(cache_lookup_key)\n        if found is not None:\n            return found, dialect.CACHE_HIT\n"
        "        found = self._compiler(\n            dialect,\n            cache_key=elem_cache_key,\n            column_keys=column_keys,\n"
        "            for_executemany=for_executemany,\n            schema_translate_map=schema_translate_map,\n            **kw,\n        )\n"
        "        assert not found._collect_params\n        cache[cache_lookup_key] = found\n        return found, dialect.CACHE_MISS\n\n"
        "    def _compile_w_cache(\n"),
), None)

_CP_BLOCK_OLD = (
    "            if self.cache_key is None:\n                raise exc.CompileError(\n"
    "                    \"This compiled object has no original cache key; \"\n"
    "                    \"can't pass extracted_parameters to construct_params\"\n                )\n"
    "            else:\n                orig_extracted = self.cache_key[1]\n\n"
    "            ckbm_tuple = self._cache_key_bind_match\n            assert ckbm_tuple is not None\n            ckbm, _ = ckbm_tuple\n"
    "            resolved_extracted = {\n                bind: extracted\n"
    "                for b, extracted in zip(orig_extracted, extracted_parameters)\n                for bind in ckbm[b]\n            }\n"
    "        else:\n            resolved_extracted = None\n")
R.mutant("r4-map-values-are-the-compiled-binds", CMP, sub(
    "                bind: extracted\n                for b, extracted in zip(orig_extracted, extracted_parameters)\n",
    "                bind: b\n                for b, extracted in zip(orig_extracted, extracted_parameters)\n"), "C02-R4")
R.mutant("r4-zip-compiled-binds-with-themselves", CMP, sub(
    "                for b, extracted in zip(orig_extracted, extracted_parameters)\n",
    "                for b, extracted in zip(orig_extracted, orig_extracted)\n"), "C02-R4")
R.mutant("r4-zip-operands-swapped", CMP, sub(
    "                for b, extracted in zip(orig_extracted, extracted_parameters)\n",
    "                for b, extracted in zip(extracted_parameters, orig_extracted)\n"), "C02-R4")
R.mutant("r4-value-param-not-resolved-in-params-branch", CMP, sub(
    "                    if resolved_extracted:\n                        value_param = resolved_extracted.get(\n                            bindparam, bindparam\n                        )\n"
    "                    else:\n                        value_param = bindparam\n",
    "                    value_param = bindparam\n"), "C02-R4")
R.mutant("benign-r4-matching-block-in-helper", CMP, chain(
    sub("        if extracted_parameters:\n            # related the bound parameters collected in the original cache key\n",
        "        resolved_extracted = self._resolve_extracted_parameters(\n            extracted_parameters\n        )\n        if False:\n"
        "            # related the bound parameters collected in the original cache key\n"),
    sub(_CP_BLOCK_OLD, "            pass\n"),
    sub("    @util.memoized_instancemethod\n    def _get_set_input_sizes_lookup(self):\n",
        "    def _resolve_extracted_parameters(self, extracted_parameters):\n        if not extracted_parameters:\n            return None\n"
        "        if self.cache_key is None:\n            raise exc.CompileError(\"no original cache key\")\n"
        "        orig_extracted = self.cache_key[1]\n        ckbm_tuple = self._cache_key_bind_match\n        assert ckbm_tuple is not None\n"
        "        ckbm, _ = ckbm_tuple\n        return {\n            bind: extracted\n"
        "            for b, extracted in zip(orig_extracted, extracted_parameters)\n            for bind in ckbm[b]\n        }\n\n"
        "    @util.memoized_instancemethod\n    def _get_set_input_sizes_lookup(self):\n"),
), None)
R.mutant("benign-r4-map-built-by-loop", CMP, sub(
    "            resolved_extracted = {\n                bind: extracted\n"
    "                for b, extracted in zip(orig_extracted, extracted_parameters)\n                for bind in ckbm[b]\n            }\n",
    "            incoming_by_bind = {}\n            for orig_bind, incoming in zip(orig_extracted, extracted_parameters):\n"
    "                for compiled_bind in ckbm[orig_bind]:\n                    incoming_by_bind[compiled_bind] = incoming\n"
    "            resolved_extracted = incoming_by_bind\n"), None)
R.mutant("benign-r4-value-param-renamed-ternary", CMP, chain(
    sub("                    if resolved_extracted:\n                        value_param = resolved_extracted.get(\n                            bindparam, bindparam\n                        )\n"
        "                    else:\n                        value_param = bindparam\n\n"
        "                    if bindparam.callable:\n                        pd[escaped_name] = value_param.effective_value\n"
        "                    else:\n                        pd[escaped_name] = value_param.value\n",
        "                    source = (\n                        resolved_extracted.get(bindparam, bindparam)\n                        if resolved_extracted\n                        else bindparam\n                    )\n"
        "                    pd[escaped_name] = (\n                        source.effective_value\n                        if bindparam.callable\n                        else source.value\n                    )\n"),
), None)
R.mutant("benign-r4-value-read-in-helper", CMP, chain(
    sub("                if resolved_extracted:\n                    value_param = resolved_extracted.get(bindparam, bindparam)\n"
        "                else:\n                    value_param = bindparam\n\n"
        "                if bindparam.callable:\n                    pd[escaped_name] = value_param.effective_value\n"
        "                else:\n                    pd[escaped_name] = value_param.value\n",
        "                pd[escaped_name] = self._current_value_of(\n                    bindparam, resolved_extracted\n                )\n"),
    sub("    @util.memoized_instancemethod\n    def _get_set_input_sizes_lookup(self):\n",
        "    def _current_value_of(self, compiled_bind, incoming_by_bind):\n"
        "        src = compiled_bind\n        if incoming_by_bind:\n            src = incoming_by_bind.get(compiled_bind, compiled_bind)\n"
        "        if compiled_bind.callable:\n            return src.effective_value\n        return src.value\n\n"
        "    @util.memoized_instancemethod\n    def _get_set_input_sizes_lookup(self):\n"),
), None)
R.mutant("r4-value-read-in-helper-ignores-incoming", CMP, chain(
    sub("                if resolved_extracted:\n                    value_param = resolved_extracted.get(bindparam, bindparam)\n"
        "                else:\n                    value_param = bindparam\n\n"
        "                if bindparam.callable:\n                    pd[escaped_name] = value_param.effective_value\n"
        "                else:\n                    pd[escaped_name] = value_param.value\n",
        "                pd[escaped_name] = self._current_value_of(\n                    bindparam, resolved_extracted\n                )\n"),
    sub("    @util.memoized_instancemethod\n    def _get_set_input_sizes_lookup(self):\n",
        "    def _current_value_of(self, compiled_bind, incoming_by_bind):\n"
        "        src = compiled_bind\n"
        "        if compiled_bind.callable:\n            return src.effective_value\n        return src.value\n\n"
        "    @util.memoized_instancemethod\n    def _get_set_input_sizes_lookup(self):\n"),
), "C02-R4")

# C02-R5: the collectors are recognised through local aliases, early returns and a private "collect if enabled" helper
_ATP_OLD = "        if item._params:\n            self._collected_params = item._params | self._collected_params\n"
R.mutant("benign-r5-add-to-params-early-return", CMP, sub(
    _ATP_OLD, "        if not item._params:\n            return\n        self._collected_params = item._params | self._collected_params\n"), None)
R.mutant("benign-r5-add-to-params-local-aliases", CMP, sub(
    _ATP_OLD, "        outer = item._params\n        if outer:\n            collected = self._collected_params\n"
              "            self._collected_params = outer | collected\n"), None)
R.mutant("r5-add-to-params-local-aliases-inner-wins", CMP, sub(
    _ATP_OLD, "        outer = item._params\n        if outer:\n            collected = self._collected_params\n"
              "            self._collected_params = collected | outer\n"), "C02-R5")
R.mutant("benign-r5-visit-params-early-return-split-store", "sql/cache_key.py", sub(
    "        if obj:\n            if CacheConst.PARAMS in anon_map:\n                to_set = anon_map[CacheConst.PARAMS] | obj\n"
    "            else:\n                to_set = obj\n            anon_map[CacheConst.PARAMS] = to_set\n        return ()\n",
    "        if not obj:\n            return ()\n        if CacheConst.PARAMS not in anon_map:\n            anon_map[CacheConst.PARAMS] = obj\n"
    "        else:\n            anon_map[CacheConst.PARAMS] = anon_map[CacheConst.PARAMS] | obj\n        return ()\n"), None)
R.mutant("benign-r5-visited-statement-through-alias", CMP, sub(
    "        if self._collect_params:\n            self._add_to_params(cs)\n        toplevel = not self.stack\n",
    "        compound = cs\n        if self._collect_params:\n            self._add_to_params(compound)\n        toplevel = not self.stack\n"), None)


def _collect_via_helper(helper_body):
    import re

    def edit(src):
        out, n = re.subn(r"( +)if self\._collect_params:\n +self\._add_to_params\((\w+)\)\n",
                         lambda m: f"{m.group(1)}self._maybe_collect({m.group(2)})\n", src)
        if n < 5:
            from ..report import MutantNotApplicable
            raise MutantNotApplicable(f"only {n} `if self._collect_params: self._add_to_params(x)` sites")
        return sub("    def _add_to_params(self, item: ExecutableStatement) -> None:\n",
                   "    def _maybe_collect(self, stmt):\n" + helper_body + "\n    def _add_to_params(self, item: ExecutableStatement) -> None:\n")(out)
    return edit


R.mutant("benign-r5-visits-collect-through-private-helper", CMP, _collect_via_helper(
    "        if self._collect_params:\n            self._add_to_params(stmt)\n"), None)
# the FromStatement repair is part of the tree now (the benign mutant above no longer applies): undoing it must fire
R.mutant("fromstatement-stops-collecting-params", "orm/context.py", sub(
    "        if compiler._collect_params:\n            compiler._add_to_params(self)\n\n"
    "        compile_state = self._compile_state_factory(self, compiler, **kw)\n",
    "        compile_state = self._compile_state_factory(self, compiler, **kw)\n"), "C02-R5")


# ---- round-2 strengthening (str2-b): seeds C02/3 (key component `schema_translate_map is not None` while the compiler
# gates on truthiness: R2 now compares the key component's partition of {None, empty, non-empty} with the
# constructor's tests) and C02/4 (aggregate_strings delimiter rendered with literal_binds=True: new rule R6)
_KEY_STM = "                bool(schema_translate_map),\n"
R.mutant("seed3-key-component-map-is-not-none", ELT, sub(_KEY_STM, "                schema_translate_map is not None,\n"), "C02-R2")
R.mutant("key-component-map-is-not-none-through-local", ELT, chain(
    sub(_KEY_STM, "                has_translate_map,\n"),
    sub("            key = (\n                dialect,\n", "            has_translate_map = not (schema_translate_map is None)\n            key = (\n                dialect,\n")), "C02-R2")
_COMPILED_GATE = "        if schema_translate_map:\n            self.schema_translate_map = schema_translate_map\n"
R.mutant("compiled-init-gates-on-not-none-key-on-truthiness", CMP, sub(
    _COMPILED_GATE, "        if schema_translate_map is not None:\n            self.schema_translate_map = schema_translate_map\n"), "C02-R2")
R.mutant("benign-key-component-ternary-and-double-negation", ELT, chain(
    sub(_KEY_STM, "                has_translate_map,\n"),
    sub("            key = (\n                dialect,\n",
        "            has_translate_map = True if schema_translate_map else False\n            key = (\n                dialect,\n")), None)
R.mutant("benign-key-component-not-none-and-non-empty", ELT, sub(
    _KEY_STM, "                schema_translate_map is not None and len(schema_translate_map) > 0,\n"), None)
R.mutant("benign-compiled-init-gate-spelled-out", CMP, sub(
    _COMPILED_GATE, "        has_map = schema_translate_map is not None and len(schema_translate_map) != 0\n"
                    "        if has_map:\n            self.schema_translate_map = schema_translate_map\n"), None)
R.mutant("benign-key-component-is-the-map-itself", ELT, sub(
    _KEY_STM, "                tuple(sorted(schema_translate_map.items(), key=repr)) if schema_translate_map else (),\n"), None)

_AGG_KW = "        literal_exec = dict(kw)\n        literal_exec[\"literal_execute\"] = True\n"
R.mutant("seed4-aggregate-strings-delimiter-literal-binds", CMP, sub(
    _AGG_KW, "        literal_exec = dict(kw)\n        literal_exec[\"literal_binds\"] = True\n"), "C02-R6")
R.mutant("mssql-frame-clause-literal-binds", "dialects/mssql/base.py", sub(
    "        kw[\"literal_execute\"] = True\n        return super().visit_frame_clause(frameclause, **kw)",
    "        kw[\"literal_binds\"] = True\n        return super().visit_frame_clause(frameclause, **kw)"), "C02-R6")
R.mutant("mysql-aggregate-strings-literal-binds-through-helper", "dialects/mysql/base.py", chain(
    sub(_AGG_KW, "        literal_exec = self._inline_kw(kw)\n"),
    sub("    def visit_sysdate_func(self, fn: sysdate, **kw: Any) -> str:\n",
        "    def _inline_kw(self, kw):\n        return {**kw, \"literal_binds\": True}\n\n"
        "    def visit_sysdate_func(self, fn: sysdate, **kw: Any) -> str:\n")), "C02-R6")
R.mutant("sqlite-on-conflict-target-literal-binds-keyword", "dialects/sqlite/base.py", sub(
    "include_table=False, use_schema=False, literal_execute=True\n",
    "include_table=False, use_schema=False, literal_binds=True\n"), "C02-R6")
R.mutant("mssql-top-literal-binds-unless-caller-asked-otherwise", "dialects/mssql/base.py", sub(
    "            kw[\"literal_execute\"] = True\n            s += \"TOP %s \" % self.process(",
    "            kw[\"literal_binds\"] = not kw.get(\"literal_execute\", False)\n            s += \"TOP %s \" % self.process("), "C02-R6")
R.mutant("benign-aggregate-strings-kw-dict-display", CMP, sub(
    _AGG_KW, "        literal_exec = {**kw, \"literal_execute\": True}\n"), None)
R.mutant("benign-aggregate-strings-forwards-callers-literal-binds", CMP, sub(
    _AGG_KW, _AGG_KW + "        literal_exec[\"literal_binds\"] = bool(kw.get(\"literal_binds\", False))\n"), None)
R.mutant("benign-aggregate-strings-literal-binds-only-under-callers-flag", CMP, sub(
    _AGG_KW, "        literal_exec = dict(kw)\n        caller_inline = kw.get(\"literal_binds\")\n"
             "        if caller_inline:\n            literal_exec[\"literal_binds\"] = True\n"
             "        else:\n            literal_exec[\"literal_execute\"] = True\n"), None)
R.mutant("benign-mysql-aggregate-strings-kw-through-helper", "dialects/mysql/base.py", chain(
    sub(_AGG_KW, "        literal_exec = self._inline_kw(kw)\n"),
    sub("    def visit_sysdate_func(self, fn: sysdate, **kw: Any) -> str:\n",
        "    def _inline_kw(self, kw):\n        inline = dict(kw)\n        inline.update(literal_execute=True)\n        return inline\n\n"
        "    def visit_sysdate_func(self, fn: sysdate, **kw: Any) -> str:\n")), None)
R.mutant("benign-compiler-renders-its-own-literal-inline", CMP, sub(
    "    def visit_extract(self, extract, **kwargs):\n        field = self.extract_map.get(extract.field, extract.field)\n",
    "    def visit_extract(self, extract, **kwargs):\n        field = self.extract_map.get(extract.field, extract.field)\n"
    "        _unit = self.process(elements.literal_column(\"1\"), literal_binds=True)\n"), None)
# the repair of this round's finding must be silent (and is the sibling idiom)
R.mutant("benign-fix-oracle-json-path-literal-execute", "dialects/oracle/base.py", sub(
    "        literal_kw = kw.copy()\n        literal_kw[\"literal_binds\"] = True\n",
    "        literal_kw = kw.copy()\n        literal_kw[\"literal_execute\"] = True\n"), None)
