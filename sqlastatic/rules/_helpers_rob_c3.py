"""Helpers of sub-agent rob-C3 (robustification of C04 / C05 against behaviour-preserving refactorings).

1. KeySpace2 -- str-c's bind-name key-space interpreter (`_helpers_str_c.KeySpace`, shared with C12 and therefore
   left untouched) extended, by subclassing, with the *facts* that the purely syntactic C04-R3 used to match as text:

   * a name that is NOT a key of a translation map (original -> escaped, or its inverse) is the same string in
     both spaces: the outcome `k not in M` of a membership test makes `k` escape-neutral.  This makes
     `M[k] if k in M else k`, `if k in M: x = M[k] else: x = k` and `M.get(k, k)` the same thing;
   * (text_callbacks=True) the groups of a regular-expression match over rendered statement text are ESCAPED
     names; the substitution callback (local function or lambda) is evaluated at the substitution, so that what
     it appends to a closure list is seen by the statements that follow;
   * `itertools.chain(a, b)` iterates over the elements of its arguments.

   Every application of a translation map is recorded (`translations`), and every keyed lookup made with a name read
   from the statement text (`text_lookups`).

2. Small semantic utilities: substitution of single-assignment locals (aliases, boolean locals) into a
   condition, dominating branch outcomes as atoms after that substitution, "derives from" closure of local
   names, a tolerant concrete runner on top of rules-a's Mini.

Nothing here imports or runs SQLAlchemy.
"""

from __future__ import annotations

import ast
import copy
from typing import Any, Dict, Iterable, List, Optional, Sequence, Set, Tuple

from ..astutil import call_name, calls_in, dotted, name_stores, test_atoms, unparse, walk_local
from . import _helpers_str_c as KS
from ._helpers_rules_a import Mini, Unsupported

RAW, ESC, BOTH, UNK, MIX, BOT = KS.RAW, KS.ESC, KS.BOTH, KS.UNK, KS.MIX, KS.BOT


# ------------------------------------------------------------------------------------------- values
class MatchV(KS.V):
    """A regular-expression match object over rendered statement text."""
    kind = "match"

    def __repr__(self):
        return "match"


class TranslateReV(KS.V):
    """The compiled regular expression of the escape table (`<compiler>._bind_translate_re`), also through a local."""
    kind = "translate_re"

    def __repr__(self):
        return "translate_re"


class TextNameV(KS.NameV):
    """A bind name read from the rendered statement text (escaped by construction)."""

    def __init__(self):
        super().__init__(ESC)

    def __repr__(self):
        return "name:esc(text)"


class Translation:
    def __init__(self, key_space, val_space, arg_space, how, node):
        self.key_space, self.val_space, self.arg_space, self.how = key_space, val_space, arg_space, how
        self.lineno = getattr(node, "lineno", 0)
        self.nid = id(node)

    def mismatch(self):
        return self.key_space in KS.DEFINITE and self.arg_space in KS.DEFINITE and self.key_space != self.arg_space

    def __repr__(self):
        return f"{self.how}: map {self.key_space}->{self.val_space} applied to a {self.arg_space} name @{self.lineno}"


def _is_translation_map(v) -> bool:
    return isinstance(v, KS.DictV) and isinstance(v.key, KS.NameV) and isinstance(v.val, KS.NameV) \
        and v.key.space in KS.DEFINITE and v.val.space in KS.DEFINITE and v.key.space != v.val.space


TEXT_ATTRS = ("string", "single_values_expr")


class KeySpace2(KS.KeySpace):
    def __init__(self, fn, param_vals=None, refine_truthy=None, text_callbacks=False, **kw):
        super().__init__(fn, param_vals, refine_truthy, **kw)
        self.text_callbacks = text_callbacks
        self.translations: List[Translation] = []
        self.text_lookups: List[KS.Obs] = []
        self.text_subs: List[Tuple[ast.Call, str]] = []      # (substitution call, text argument)
        self._keep: List[Any] = []

    # ---------------------------------------------------------------- emptiness of the escape map, however spelled
    @staticmethod
    def _emptiness(test):
        """`len(X)`, `len(X) > 0`, `len(X) != 0`, `len(X) >= 1` -> (X, False);  `len(X) == 0`, `len(X) < 1` -> (X, True)."""
        def is_len(e):
            return isinstance(e, ast.Call) and isinstance(e.func, ast.Name) and e.func.id == "len" and len(e.args) == 1 and not e.keywords
        if is_len(test):
            return test.args[0], False
        if isinstance(test, ast.Compare) and len(test.ops) == 1 and is_len(test.left) and isinstance(test.comparators[0], ast.Constant):
            op, c = test.ops[0], test.comparators[0].value
            if (isinstance(op, (ast.Gt, ast.NotEq)) and c == 0) or (isinstance(op, ast.GtE) and c == 1):
                return test.left.args[0], False
            if (isinstance(op, ast.Eq) and c == 0) or (isinstance(op, ast.Lt) and c == 1):
                return test.left.args[0], True
        return None

    def _is_escmap_test(self, test, env):
        if super()._is_escmap_test(test, env):
            return True
        if isinstance(test, ast.Compare) and len(test.ops) == 1 and isinstance(test.ops[0], ast.IsNot) \
                and isinstance(test.comparators[0], ast.Constant) and test.comparators[0].value is None:
            test = test.left
        if isinstance(test, ast.Call) and isinstance(test.func, ast.Name) and test.func.id == "bool" and len(test.args) == 1:
            test = test.args[0]
        if isinstance(test, (ast.Name, ast.Attribute)):
            v = self.ev(test, env, quiet=True)
            return isinstance(v, KS.DictV) and getattr(v, "whole_escmap", False)
        return False

    # ---------------------------------------------------------------- refinement by membership in a translation map
    def _refine(self, test, pol, env):
        em = self._emptiness(test)
        if em is not None:
            return self._refine(em[0], (not pol) if em[1] else pol, env)
        if isinstance(test, ast.Call) and isinstance(test.func, ast.Attribute) and test.func.attr in ("search", "match") \
                and len(test.args) == 1 and isinstance(test.args[0], ast.Name) and not pol \
                and isinstance(test.func.value, ast.Name) and isinstance(env.get(test.func.value.id), TranslateReV):
            # no escape character found in the name (the regex is reached through a local alias)
            old = env.get(test.args[0].id, KS.U)
            if isinstance(old, KS.NameV):
                env = dict(env)
                env[test.args[0].id] = KS.NameV(BOTH if old.space in (RAW, ESC, BOTH) else old.space)
            return env
        if isinstance(test, ast.Compare) and len(test.ops) == 1 and isinstance(test.ops[0], (ast.In, ast.NotIn)) \
                and isinstance(test.left, ast.Name):
            absent = isinstance(test.ops[0], ast.NotIn) == bool(pol)
            if absent:
                m = self.ev(test.comparators[0], env, quiet=True)
                cur = env.get(test.left.id)
                if (_is_translation_map(m) or (isinstance(m, KS.DictV) and m.escmap)) and isinstance(cur, KS.NameV) \
                        and isinstance(m.key, KS.NameV) and cur.space in (m.key.space, BOTH):
                    env = dict(env)
                    env[test.left.id] = KS.NameV(BOTH)
                    return env
        return super()._refine(test, pol, env)

    # ---------------------------------------------------------------- expressions
    def _ev(self, e, env, quiet):
        if isinstance(e, ast.Attribute) and e.attr == self.translate_re:
            return TranslateReV()
        if isinstance(e, ast.IfExp):
            idiom = self._conditional_translation(e)
            if idiom is not None:
                m_node, k_node = idiom
                if not isinstance(k_node, ast.Name):
                    # `M[<expr>] if <expr> in M else <expr>`: the translation idiom M.get(<expr>, <expr>)
                    synth = ast.Call(func=ast.Attribute(value=m_node, attr="get", ctx=ast.Load()), args=[k_node, k_node], keywords=[])
                    ast.copy_location(synth, e)
                    ast.copy_location(synth.func, e)
                    self._keep.append(synth)
                    return self._call(synth, env, quiet)
        if isinstance(e, ast.DictComp) and len(e.generators) == 1 and not e.generators[0].ifs:
            # a dictionary built from ALL items of the escape map (its inverse, a copy) is empty exactly when the
            # escape map is: testing it for emptiness says the same thing about the world
            it = e.generators[0].iter
            if isinstance(it, ast.Call) and isinstance(it.func, ast.Attribute) and it.func.attr == "items" and not it.args:
                src = self.ev(it.func.value, env, quiet=True)
                if isinstance(src, KS.DictV) and (src.escmap or getattr(src, "whole_escmap", False)):
                    out = super()._ev(e, env, quiet)
                    if isinstance(out, KS.DictV):
                        out.whole_escmap = True
                    return out
        return super()._ev(e, env, quiet)

    @staticmethod
    def _conditional_translation(e: ast.IfExp):
        t = e.test
        if not (isinstance(t, ast.Compare) and len(t.ops) == 1 and isinstance(t.ops[0], (ast.In, ast.NotIn))):
            return None
        hit, miss = (e.body, e.orelse) if isinstance(t.ops[0], ast.In) else (e.orelse, e.body)
        if isinstance(hit, ast.Subscript) and unparse(hit.value) == unparse(t.comparators[0]) \
                and unparse(hit.slice) == unparse(t.left) == unparse(miss):
            return t.comparators[0], t.left
        return None

    def _index(self, recv_node, recv, idx, how, node, env, store=False, stored=None, member=False, idx_node=None):
        if isinstance(idx, TextNameV) and not store:
            self.text_lookups.append(KS.Obs(unparse(recv_node), KS.space_of(KS.key_of(recv)), idx.space, how, node))
        if _is_translation_map(recv) and not store and not member and isinstance(idx, KS.NameV):
            self.translations.append(Translation(recv.key.space, recv.val.space, idx.space, unparse(node)[:60], node))
        return super()._index(recv_node, recv, idx, how, node, env, store=store, stored=stored, member=member, idx_node=idx_node)

    def _percent(self, e, env, quiet):
        if not quiet and isinstance(e.left, ast.Attribute) and e.left.attr in TEXT_ATTRS:
            right = self.ev(e.right, env, quiet=True)
            if isinstance(right, KS.DictV):
                # <statement text> % <dict>: the text's (escaped) names are looked up in the dictionary
                self.text_lookups.append(KS.Obs(unparse(e.right), KS.space_of(right.key), ESC, "% (text formatted by)", e))
        return super()._percent(e, env, quiet)

    def _call(self, c, env, quiet):
        fn = c.func
        if isinstance(fn, ast.Attribute):
            meth = fn.attr
            if meth == "get" and len(c.args) == 2 and not c.keywords and unparse(c.args[0]) == unparse(c.args[1]) and not quiet:
                recv = self.ev(fn.value, env, quiet=True)
                if _is_translation_map(recv):
                    arg = self.ev(c.args[0], env, quiet=True)
                    if isinstance(arg, KS.NameV):
                        self.translations.append(Translation(recv.key.space, recv.val.space, arg.space, unparse(c)[:60], c))
            if meth == "sub" and isinstance(fn.value, ast.Name) and isinstance(env.get(fn.value.id), TranslateReV):
                for a in c.args:
                    self.ev(a, env, quiet)
                return KS.NameV(ESC)
            if dotted(fn) == "itertools.chain":
                out: KS.V = KS.NameV(BOT)
                for a in c.args:
                    v = self.ev(a, env, quiet)
                    out = KS.join(out, KS.elem_of(v)) if isinstance(v, (KS.CollV, KS.DictV, KS.TupleV)) else KS.U
                return KS.CollV(out)
            if self.text_callbacks:
                if meth == "group" and isinstance(self.ev(fn.value, env, quiet=True), MatchV):
                    a0 = c.args[0] if c.args else None
                    if isinstance(a0, ast.Constant) and isinstance(a0.value, int) and a0.value >= 1 and len(c.args) == 1:
                        return TextNameV()
                    return KS.U
                cb = text = None
                if dotted(fn) == "re.sub" and len(c.args) >= 3:
                    cb, text = c.args[1], c.args[2]
                elif meth == "sub" and len(c.args) >= 2 and not (dotted(fn.value) or "").endswith(self.translate_re) \
                        and not isinstance(self.ev(fn.value, env, quiet=True), TranslateReV):
                    cb, text = c.args[0], c.args[1]
                if cb is not None and self._is_callback(cb, env):
                    if not quiet:
                        self.text_subs.append((c, unparse(text)))
                        for a in c.args:
                            if a is not cb:
                                self.ev(a, env, quiet)
                        self._run_callback(cb, env)
                    return KS.U
        return super()._call(c, env, quiet)

    @staticmethod
    def _is_callback(cb, env) -> bool:
        return isinstance(cb, ast.Lambda) or (isinstance(cb, ast.Name) and isinstance(env.get(cb.id), KS.FuncV))

    def _run_callback(self, cb, env):
        if isinstance(cb, ast.Lambda):
            env2 = dict(env)
            params = cb.args.posonlyargs + cb.args.args
            for i, a_ in enumerate(params):
                env2[a_.arg] = MatchV() if i == 0 else KS.U
            self.ev(cb.body, env2)
            return
        nm = env[cb.id].name
        self._inline(list(self.nested.get(nm, [])), [MatchV()], {}, env, nested=nm)


# ------------------------------------------------------------------------------------ alias substitution
def single_bindings(fn: ast.AST, kinds=(ast.Attribute, ast.Compare, ast.BoolOp, ast.UnaryOp, ast.Name, ast.Call)) -> Dict[str, ast.expr]:
    """Local names bound exactly once in `fn` (nested scopes excluded) by a plain `name = <expr>`; parameters and
    loop / with / except / walrus targets are never included."""
    seen: Dict[str, List] = {}
    for n, v, st in name_stores(fn, into_nested=False):
        seen.setdefault(n, []).append((v, st))
    params = set()
    if hasattr(fn, "args"):
        a = fn.args
        params = {x.arg for x in a.posonlyargs + a.args + a.kwonlyargs}
        if a.vararg:
            params.add(a.vararg.arg)
        if a.kwarg:
            params.add(a.kwarg.arg)
    out = {}
    for n, vs in seen.items():
        if len(vs) != 1 or n in params:
            continue
        v, st = vs[0]
        if v is None or not isinstance(st, (ast.Assign, ast.AnnAssign)) or not isinstance(v, kinds):
            continue
        if isinstance(st, ast.Assign) and not (len(st.targets) >= 1 and all(isinstance(t, ast.Name) for t in st.targets)):
            continue
        out[n] = v
    return out


class _Subst(ast.NodeTransformer):
    def __init__(self, subst, depth=4):
        self.subst, self.depth = subst, depth

    def visit_Name(self, node):
        if isinstance(node.ctx, ast.Load) and node.id in self.subst and self.depth > 0:
            rep = copy.deepcopy(self.subst[node.id])
            return _Subst({k: v for k, v in self.subst.items() if k != node.id}, self.depth - 1).visit(rep)
        return node


def substitute(expr: ast.expr, subst: Dict[str, ast.expr]) -> ast.expr:
    """`expr` with single-assignment locals replaced by what they were bound to (fresh copy)."""
    if not subst:
        return expr
    return ast.fix_missing_locations(_Subst(subst).visit(copy.deepcopy(expr)))


def pure_alias_bindings(fn: ast.AST) -> Dict[str, ast.expr]:
    """Single-assignment locals that merely name an attribute chain / another name / a condition over such
    (`pcp = self.post_compile_params`, `skip = a in X or a in Y`): safe to substitute into a guard."""
    sb = single_bindings(fn, kinds=(ast.Attribute, ast.Compare, ast.BoolOp, ast.UnaryOp, ast.Name))

    def pure(v):
        return not any(isinstance(n, (ast.Call, ast.Await, ast.Yield, ast.NamedExpr, ast.Lambda)) for n in ast.walk(v))
    return {k: v for k, v in sb.items() if pure(v)}


def dominating_atoms(g, node_id: int, subst: Optional[Dict[str, ast.expr]] = None) -> List[Tuple[str, bool]]:
    """Atoms (text, polarity) of the branch outcomes that dominate a CFG node, after alias substitution."""
    out = []
    for t, pol in g.edge_guards(node_id):
        out.extend(test_atoms(substitute(t, subst or {}), pol))
    return out


def derived_names(fn: ast.AST, seeds: Iterable[str], include_nested=True) -> Set[str]:
    """Local names whose value (transitively) derives from one of `seeds`: plain / augmented assignment, loop and
    comprehension iteration, `x.append/extend/add/update/insert(<derived>)`.  Flow-insensitive."""
    derived = set(seeds)

    def mentions(e):
        return any(isinstance(n, ast.Name) and n.id in derived for n in ast.walk(e))

    def targets(t):
        return [n.id for n in ast.walk(t) if isinstance(n, ast.Name)]

    changed = True
    while changed:
        changed = False
        for n in (ast.walk(fn) if include_nested else walk_local(fn)):
            new = []
            if isinstance(n, ast.Assign) and mentions(n.value):
                for t in n.targets:
                    new += targets(t) if isinstance(t, (ast.Name, ast.Tuple, ast.List)) else []
            elif isinstance(n, (ast.AnnAssign, ast.AugAssign)) and n.value is not None and mentions(n.value) and isinstance(n.target, ast.Name):
                new.append(n.target.id)
            elif isinstance(n, (ast.For, ast.AsyncFor)) and mentions(n.iter):
                new += targets(n.target)
            elif isinstance(n, ast.comprehension) and mentions(n.iter):
                new += targets(n.target)
            elif isinstance(n, ast.Call) and isinstance(n.func, ast.Attribute) and isinstance(n.func.value, ast.Name) \
                    and n.func.attr in ("append", "extend", "add", "update", "insert") and any(mentions(a) for a in n.args):
                new.append(n.func.value.id)
            elif isinstance(n, ast.NamedExpr) and mentions(n.value):
                new += targets(n.target)
            for x in new:
                if x not in derived:
                    derived.add(x)
                    changed = True
    return derived


# ------------------------------------------------------------------------------------ tolerant concrete runner
class _AssertFailed(Exception):
    pass


class TolerantMini(Mini):
    """Mini that (a) keeps attribute stores `self.x = v` in env under the key 'self.x' and reads them back,
    (b) raises _AssertFailed for an assert whose test evaluates to false, (c) offers run_tolerant(): statements it
    cannot evaluate are skipped and the names they bind become unknown."""

    def __init__(self, attr_hook=None, call_hook=None, name_hook=None, what="extracted code"):
        self._user_attr_hook = attr_hook
        self._name_hook = name_hook          # free name -> value | NotImplemented (module-level literal constants)
        super().__init__(call_hook=call_hook, attr_hook=self._attr, what=what)

    def ev(self, n, env):
        if isinstance(n, ast.Name) and n.id not in env and n.id not in ("True", "False", "None") and self._name_hook is not None:
            r = self._name_hook(n.id)
            if r is not NotImplemented:
                return r
        if isinstance(n, ast.Dict) and all(k is not None for k in n.keys):
            return {self.ev(k, env): self.ev(v, env) for k, v in zip(n.keys, n.values)}
        if isinstance(n, ast.Call) and isinstance(n.func, ast.Attribute) and n.func.attr == "get" and not n.keywords \
                and len(n.args) in (1, 2):
            recv = self.ev(n.func.value, env)
            if isinstance(recv, dict):
                args = [self.ev(a, env) for a in n.args]
                return recv.get(*args)
        return super().ev(n, env)

    def _attr(self, node, env, mini):
        d = dotted(node)
        if d is not None and d in env:
            return env[d]
        if self._user_attr_hook is not None:
            return self._user_attr_hook(node, env, mini)
        return NotImplemented

    def _assign(self, target, value, env, st):
        if isinstance(target, ast.Attribute) and dotted(target):
            env[dotted(target)] = value
            return
        super()._assign(target, value, env, st)

    def _stmt(self, st, env):
        if isinstance(st, ast.Assert):
            try:
                ok = self.ev(st.test, env)
            except Unsupported:
                return
            if not ok:
                raise _AssertFailed(unparse(st.test))
            return
        if isinstance(st, (ast.FunctionDef, ast.AsyncFunctionDef, ast.ClassDef, ast.Import, ast.ImportFrom)):
            return
        if isinstance(st, ast.Expr):
            return          # bare calls (logging, list.append of a collector, ...) do not bind the tracked scalars
        super()._stmt(st, env)

    @staticmethod
    def _bound_by(st) -> Set[str]:
        out = set()
        for n in ast.walk(st):
            if isinstance(n, (ast.Name, ast.Attribute)) and isinstance(getattr(n, "ctx", None), ast.Store):
                d = dotted(n)
                if d:
                    out.add(d)
        return out

    def run_tolerant(self, stmts: Sequence[ast.stmt], env: Dict[str, Any]) -> str:
        """Returns 'ok' or 'assert' (an assertion is false for this input: the input is not handled)."""
        for st in stmts:
            trial = dict(env)
            try:
                if isinstance(st, ast.If):
                    # decide the test strictly, run the chosen arm tolerantly
                    try:
                        t = self.ev(st.test, trial)
                    except Unsupported:
                        for nm in self._bound_by(st):
                            env.pop(nm, None)
                        continue
                    r = self.run_tolerant(st.body if t else st.orelse, env)
                    if r != "ok":
                        return r
                    continue
                self._stmt(st, trial)
                env.clear()
                env.update(trial)
            except _AssertFailed:
                return "assert"
            except Unsupported:
                for nm in self._bound_by(st):
                    env.pop(nm, None)
            except (_ReturnT, _RaiseT):
                return "ok"
        return "ok"


# Mini signals return / raise with private exception classes; catch them generically
from ._helpers_rules_a import _Raise as _RaiseT, _Return as _ReturnT  # noqa: E402
