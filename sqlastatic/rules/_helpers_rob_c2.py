"""Helpers of the rob-C2 robustification round (used by c02.py / c03.py only).

Name independent, flow sensitive reading of one function:

* `ReachingDefs`   classic reaching definitions over the statement CFG (optionally on a CFG restricted by an
                   `edge_ok` predicate: "the paths on which SKIP is non-empty").
* `Scope`          one function + its CFG + reaching definitions.  `Scope.deps(expr)` = the set of *atoms* an
                   expression is computed from: `param:<name>` (a parameter of the function, or -- inside a
                   followed helper -- the atoms of the argument the caller passed), `self.<attr>` (an attribute
                   read off the receiver), `call:<dotted callee>` (result of a call that was not followed),
                   `global:<name>`.  Locals are resolved through their reaching definitions, tuple unpacking and
                   `for a, b in zip(X, Y)` / `.items()` / `enumerate()` are tracked positionally, comprehension
                   variables likewise, containers filled with `d[k] = v` / `.append(v)` / `.update(v)` carry the
                   atoms of what was put in.  Calls of helpers defined in the same module (`self._helper(...)`,
                   module functions, static methods) are followed (depth 2): the atoms of their `return`
                   expressions, with the helper's parameters replaced by the atoms of the caller's arguments.
                   `must=True`: a local bound on several paths / a conditional expression / a helper with several
                   returns yields only the atoms common to all non-constant alternatives.
* `Scope.origins`  the defining (non-Name) expressions a Name may hold at a program point.
* `truth`          three-valued evaluation of a condition under an assumption about one sub-expression.
* `conj_atoms`     (expr, polarity) conjuncts of a condition (`not`, `and`, `or`, `not in`, `is not`, `!=`).
"""

from __future__ import annotations

import ast
from typing import Callable, Dict, FrozenSet, Iterable, List, Optional, Sequence, Set, Tuple

from ..astutil import ScopeNode, call_name, dotted, own_exprs, unparse
from ..index import ClassInfo, FuncInfo

# builtins whose result is "the argument, repackaged": they add no atom of their own
TRANSPARENT_CALLS = {
    "tuple", "list", "set", "frozenset", "sorted", "dict", "bool", "len", "iter", "reversed", "cast",
    "str", "int", "isinstance", "id", "type", "zip", "enumerate", "map", "filter", "any", "all",
}
# container methods that put their arguments into the receiver
_FILL_METHODS = {"append", "extend", "add", "update", "setdefault", "insert", "__setitem__", "appendleft"}

EMPTY: FrozenSet[str] = frozenset()
SELF: FrozenSet[str] = frozenset({"<self>"})


def _flatten_with_path(t, path=()):
    """[(target leaf, index path)] of an assignment / for target."""
    if isinstance(t, (ast.Tuple, ast.List)):
        out = []
        for i, e in enumerate(t.elts):
            out.extend(_flatten_with_path(e, path + (i,)))
        return out
    if isinstance(t, ast.Starred):
        return _flatten_with_path(t.value, path + (None,))
    return [(t, path)]


class Def:
    __slots__ = ("id", "name", "node", "kind", "value", "path", "stmt")

    def __init__(self, id, name, node, kind, value=None, path=(), stmt=None):
        self.id, self.name, self.node, self.kind, self.value, self.path, self.stmt = id, name, node, kind, value, path, stmt

    def __repr__(self):
        return f"<Def {self.name}@N{self.node} {self.kind} {unparse(self.value)[:40] if self.value is not None else ''}>"


class ReachingDefs:
    """name -> definitions that may reach the *entry* of each CFG node."""

    def __init__(self, g, fn_node, edge_ok=None):
        self.g = g
        self.defs: List[Def] = []
        self.gen: Dict[int, List[Def]] = {}
        self.kill: Dict[int, Set[str]] = {}
        self._collect(fn_node)
        self.IN: Dict[int, Dict[str, FrozenSet[int]]] = {}
        self._run(edge_ok)

    def _new(self, name, node, kind, value=None, path=(), stmt=None) -> Def:
        d = Def(len(self.defs), name, node, kind, value, path, stmt)
        self.defs.append(d)
        self.gen.setdefault(node, []).append(d)
        return d

    def _collect(self, fn):
        g = self.g
        a = fn.args
        params = [x.arg for x in a.posonlyargs + a.args] + ([a.vararg.arg] if a.vararg else []) + \
            [x.arg for x in a.kwonlyargs] + ([a.kwarg.arg] if a.kwarg else [])
        for p in params:
            self._new(p, g.entry, "param")
        for n in g.nodes:
            st = n.stmt
            if st is None:
                continue
            if n.kind == "stmt" and isinstance(st, ast.stmt):
                if isinstance(st, ast.Assign):
                    for t in st.targets:
                        for leaf, path in _flatten_with_path(t):
                            if isinstance(leaf, ast.Name):
                                self._new(leaf.id, n.id, "assign", st.value, path, st)
                elif isinstance(st, ast.AnnAssign) and st.value is not None and isinstance(st.target, ast.Name):
                    self._new(st.target.id, n.id, "assign", st.value, (), st)
                elif isinstance(st, ast.AugAssign) and isinstance(st.target, ast.Name):
                    self._new(st.target.id, n.id, "aug", st.value, (), st)
                elif isinstance(st, ast.Delete):
                    for t in st.targets:
                        if isinstance(t, ast.Name):
                            self.kill.setdefault(n.id, set()).add(t.id)
                elif isinstance(st, (ast.FunctionDef, ast.AsyncFunctionDef, ast.ClassDef)):
                    self._new(st.name, n.id, "scope", None, (), st)
                elif isinstance(st, (ast.Import, ast.ImportFrom)):
                    for al in st.names:
                        self._new((al.asname or al.name).split(".")[0], n.id, "import", None, (), st)
            elif n.kind == "for":
                for leaf, path in _flatten_with_path(st.target):
                    if isinstance(leaf, ast.Name):
                        self._new(leaf.id, n.id, "for", st.iter, path, st)
            elif n.kind == "with_enter":
                for it in st.items:
                    if it.optional_vars is not None:
                        for leaf, path in _flatten_with_path(it.optional_vars):
                            if isinstance(leaf, ast.Name):
                                self._new(leaf.id, n.id, "with", it.context_expr, path, st)
            elif n.kind == "handler":
                if getattr(st, "name", None):
                    self._new(st.name, n.id, "handler", None, (), st)
            if isinstance(st, ast.stmt) and n.kind in ("stmt", "test", "for", "with_enter", "match"):
                for part in own_exprs(st):
                    for x in ast.walk(part):
                        if isinstance(x, ast.NamedExpr) and isinstance(x.target, ast.Name):
                            self._new(x.target.id, n.id, "assign", x.value, (), st)

    def _out(self, n, env):
        gen = self.gen.get(n)
        kill = self.kill.get(n)
        if not gen and not kill:
            return env
        out = dict(env)
        for k in kill or ():
            out.pop(k, None)
        if gen:
            byname: Dict[str, Set[int]] = {}
            for d in gen:
                if d.kind == "aug":
                    byname.setdefault(d.name, set(out.get(d.name, ()))).add(d.id)
                else:
                    byname.setdefault(d.name, set()).add(d.id)
            for k, v in byname.items():
                out[k] = frozenset(v)
        return out

    def _run(self, edge_ok):
        g = self.g
        self.IN[g.entry] = {}
        work = [g.entry]
        while work:
            n = work.pop()
            pre = self.IN.get(n, {})
            post = self._out(n, pre)
            for b, lab in g.succ[n]:
                if edge_ok is not None and not edge_ok(n, b, lab):
                    continue
                src = pre if lab == "exc" else post
                if n == g.entry:
                    src = post
                cur = self.IN.get(b)
                if cur is None:
                    self.IN[b] = dict(src)
                    work.append(b)
                    continue
                changed = False
                for k, v in src.items():
                    if k not in cur:
                        cur[k] = v
                        changed = True
                    elif not v <= cur[k]:
                        cur[k] = cur[k] | v
                        changed = True
                if changed:
                    work.append(b)

    def reachable(self, node: int) -> bool:
        return node in self.IN

    def at(self, node: int, name: str) -> List[Def]:
        """Definitions of `name` that may reach the entry of CFG node `node`."""
        return [self.defs[i] for i in sorted(self.IN.get(node, {}).get(name, ()))]


def fn_params(fn) -> List[str]:
    a = fn.args
    return [x.arg for x in a.posonlyargs + a.args] + ([a.vararg.arg] if a.vararg else []) + \
        [x.arg for x in a.kwonlyargs] + ([a.kwarg.arg] if a.kwarg else [])


def _is_constant_expr(e) -> bool:
    """No name occurs in it: a literal (None, (), {}, 0, "x", -1 ...)."""
    return e is not None and not any(isinstance(n, (ast.Name, ast.Attribute, ast.Call)) for n in ast.walk(e))


class Scope:
    def __init__(self, ctx, f, module=None, cls: Optional[ClassInfo] = None, env: Optional[Dict[str, FrozenSet[str]]] = None,
                 depth: int = 0, edge_ok=None, chain: Tuple[str, ...] = ()):
        """f: FuncInfo, or a raw FunctionDef (then pass module / cls)."""
        self.ctx = ctx
        if isinstance(f, FuncInfo):
            self.info: Optional[FuncInfo] = f
            self.fn = f.node
            self.module = f.module
            self.cls = f.cls
            ctx.functions_analysed.add(f.key)
            static = any(d.split(".")[-1] == "staticmethod" for d in f.decorators)
        else:
            self.info = None
            self.fn = f
            self.module = module
            self.cls = cls
            static = False
        self.g = ctx.cfg(f)
        self.rd = ReachingDefs(self.g, self.fn, edge_ok)
        self.params = fn_params(self.fn)
        self.selfname = self.params[0] if (self.cls is not None and self.params and not static) else None
        self.env = dict(env or {})
        if self.selfname is not None:
            self.env.setdefault(self.selfname, SELF)
        self.depth = depth
        self.chain = chain
        self._node_of: Dict[int, int] = {}
        for n in self.g.nodes:
            st = n.stmt
            if st is None or n.kind in ("with_exit", "join"):
                continue
            parts = own_exprs(st) if isinstance(st, ast.stmt) else []
            for part in parts:
                for x in ast.walk(part):
                    self._node_of.setdefault(id(x), n.id)
        self._memo: Dict = {}
        self._stack: Set = set()
        self._sub: Dict[int, Optional["Scope"]] = {}
        self._fills: Optional[Dict[str, List[Tuple[ast.AST, int]]]] = None

    # ------------------------------------------------------------------ lookup helpers
    @property
    def name(self) -> str:
        return self.info.key if self.info is not None else getattr(self.fn, "name", "<fn>")

    def node_of(self, expr) -> Optional[int]:
        return self._node_of.get(id(expr))

    def local_walk(self) -> Iterable[ast.AST]:
        """All AST nodes of the function body, not descending into nested def/class (lambdas and comprehensions
        are descended)."""
        stack = list(self.fn.body)
        while stack:
            n = stack.pop()
            yield n
            if isinstance(n, (ast.FunctionDef, ast.AsyncFunctionDef, ast.ClassDef)):
                continue
            stack.extend(ast.iter_child_nodes(n))

    def param_atoms(self, e, at) -> Optional[FrozenSet[str]]:
        """If `e` is a Name that (through plain local aliases) can only hold parameters of the function: the atoms
        of those parameters; else None.  Identity of an object, unlike `deps`, ignores what was put into it."""
        if not isinstance(e, ast.Name) or at is None:
            return None
        out = EMPTY
        orig = self.origins(e, at)
        if not orig:
            return None
        for kind, d, _ in orig:
            if kind != "def" or d.kind != "param":
                return None
            out = out | self._def_deps(d, False)
        return out

    def is_self(self, e, at) -> bool:
        """`e` is a Name that holds the receiver object (`self`, or a plain alias of it) at `at`."""
        return self.param_atoms(e, at) == SELF

    # ------------------------------------------------------------------ container fills (weak updates)
    def fills(self, name: str) -> List[Tuple[ast.AST, int]]:
        """[(expression put into the container held by local `name`, cfg node)] for `name[k] = v`,
        `name.append(v)`, `name.update(v)`, `name.setdefault(k, v)` anywhere in the function."""
        if self._fills is None:
            out: Dict[str, List[Tuple[ast.AST, int]]] = {}
            for n in self.g.nodes:
                st = n.stmt
                if st is None or not isinstance(st, ast.stmt) or n.kind not in ("stmt", "test", "for", "with_enter"):
                    continue
                if n.kind == "stmt" and isinstance(st, (ast.Assign, ast.AugAssign)):
                    tg = st.targets if isinstance(st, ast.Assign) else [st.target]
                    for t in tg:
                        for leaf, _ in _flatten_with_path(t):
                            if isinstance(leaf, ast.Subscript) and isinstance(leaf.value, ast.Name):
                                out.setdefault(leaf.value.id, []).append((st.value, n.id))
                                out[leaf.value.id].append((leaf.slice, n.id))
                for part in own_exprs(st):
                    for c in ast.walk(part):
                        if isinstance(c, ast.Call) and isinstance(c.func, ast.Attribute) and c.func.attr in _FILL_METHODS \
                                and isinstance(c.func.value, ast.Name):
                            for a in list(c.args) + [k.value for k in c.keywords]:
                                out.setdefault(c.func.value.id, []).append((a, n.id))
            self._fills = out
        return self._fills.get(name, [])

    # ------------------------------------------------------------------ helper following
    def resolve_callee(self, call: ast.Call, at) -> Optional[FuncInfo]:
        """The FuncInfo a call statically resolves to when it is a helper worth following: `self.m(...)` /
        `cls.m(...)` through the MRO, a module level function, `Class.static(...)`; defined in the module of the
        function under analysis (helpers extracted by a refactoring live next to their caller)."""
        fn = call.func
        tgt = None
        ix = self.ctx.index
        if isinstance(fn, ast.Attribute) and isinstance(fn.value, ast.Name) and self.cls is not None and \
                (self.is_self(fn.value, at) or fn.value.id == "cls"):
            tgt = ix.resolve_method(self.cls, fn.attr)
        elif isinstance(fn, (ast.Name, ast.Attribute)):
            nm = dotted(fn)
            if nm and "()" not in nm:
                if isinstance(fn, ast.Name) and self.rd.at(at, fn.id):
                    return None  # a local (callable parameter, nested function)
                try:
                    r = ix.resolve(self.module, nm)
                except Exception:
                    r = None
                if isinstance(r, FuncInfo):
                    tgt = r
        if tgt is None or tgt.type_only or tgt.node is self.fn:
            return None
        if tgt.module is not self.module:
            return None
        if isinstance(tgt.node, ast.AsyncFunctionDef):
            return None
        return tgt

    def sub_scope(self, call: ast.Call, at=None) -> Optional["Scope"]:
        """Scope of the helper called by `call`, its parameters bound to the atoms of the arguments."""
        k = id(call)
        if k in self._sub:
            return self._sub[k]
        self._sub[k] = None
        if at is None:
            at = self.node_of(call)
        if self.depth >= 2 or at is None:
            return None
        tgt = self.resolve_callee(call, at)
        if tgt is None or tgt.key in self.chain:
            return None
        params = fn_params(tgt.node)
        bound = isinstance(call.func, ast.Attribute) and isinstance(call.func.value, ast.Name) and tgt.cls is not None \
            and (self.is_self(call.func.value, at) or call.func.value.id == "cls") \
            and not any(d.split(".")[-1] == "staticmethod" for d in tgt.decorators)
        env: Dict[str, FrozenSet[str]] = {}
        pos = params[1:] if bound and params else params
        if bound and params:
            env[params[0]] = self.deps(call.func.value, at)
        a = tgt.node.args
        npos = len(a.posonlyargs) + len(a.args) - (1 if bound and params else 0)
        for i, arg in enumerate(call.args):
            if isinstance(arg, ast.Starred):
                d = self.deps(arg.value, at)
                for p in pos[i:]:
                    env[p] = env.get(p, EMPTY) | d
                break
            if i < npos:
                env[pos[i]] = self._arg_atoms(arg, at)
            elif a.vararg:
                env[a.vararg.arg] = env.get(a.vararg.arg, EMPTY) | self.deps(arg, at)
        for kw in call.keywords:
            d = self._arg_atoms(kw.value, at)
            if kw.arg is None:
                for p in pos:
                    env.setdefault(p, d)
                if a.kwarg:
                    env[a.kwarg.arg] = env.get(a.kwarg.arg, EMPTY) | d
            elif kw.arg in pos:
                env[kw.arg] = d
            elif a.kwarg:
                env[a.kwarg.arg] = env.get(a.kwarg.arg, EMPTY) | d
        # parameters left to their defaults: constants
        for p in pos:
            env.setdefault(p, EMPTY)
        sc = Scope(self.ctx, tgt, env=env, depth=self.depth + 1, chain=self.chain + (self.name,))
        self._sub[k] = sc
        return sc

    def _arg_atoms(self, arg, at) -> FrozenSet[str]:
        """Atoms of an argument handed to a followed helper: a parameter passed through keeps its identity."""
        pa = self.param_atoms(arg, at)
        return pa if pa is not None else self.deps(arg, at)

    def helper_scopes(self) -> List[Tuple[ast.Call, "Scope"]]:
        """(call, scope of the callee) for every followed helper call in this function, recursively."""
        out = []
        for n in self.local_walk():
            if isinstance(n, ast.Call):
                at = self.node_of(n)
                if at is None:
                    continue
                sc = self.sub_scope(n, at)
                if sc is not None:
                    out.append((n, sc))
                    out.extend(sc.helper_scopes())
        return out

    def with_helpers(self) -> List["Scope"]:
        seen, out = set(), [self]
        for _, sc in self.helper_scopes():
            if id(sc) not in seen:
                seen.add(id(sc))
                out.append(sc)
        return out

    def return_deps(self, must=False) -> FrozenSet[str]:
        from ..astutil import returns_of
        alts = []
        for r in returns_of(self.fn):
            if r.value is None or _is_constant_expr(r.value):
                continue
            at = self.node_of(r.value)
            if at is None or not self.rd.reachable(at):
                continue
            alts.append(self.deps(r.value, at, must))
        return _combine(alts, must)

    # ------------------------------------------------------------------ comprehension environments
    def comp_env(self, comp, at, must=False, cenv=None) -> Dict[str, FrozenSet[str]]:
        """Atoms of the variables bound by the generators of a comprehension."""
        env = dict(cenv or {})
        for gen in comp.generators:
            for leaf, path in _flatten_with_path(gen.target):
                if isinstance(leaf, ast.Name):
                    env[leaf.id] = self.elem_deps(gen.iter, path, at, must, env)
        return env

    def elem_deps(self, it, path, at, must=False, cenv=None) -> FrozenSet[str]:
        """Atoms of the element of iterable `it` at tuple position `path`."""
        if isinstance(it, ast.Call):
            nm = call_name(it) or ""
            if nm == "zip" and path and path[0] is not None and path[0] < len(it.args) \
                    and not any(isinstance(a, ast.Starred) for a in it.args):
                return self.elem_deps(it.args[path[0]], path[1:], at, must, cenv)
            if nm == "enumerate" and path and it.args:
                if path[0] == 0:
                    return EMPTY
                return self.elem_deps(it.args[0], path[1:], at, must, cenv)
            if nm in ("list", "tuple", "iter", "reversed", "sorted") and len(it.args) == 1:
                return self.elem_deps(it.args[0], path, at, must, cenv)
            if isinstance(it.func, ast.Attribute) and it.func.attr in ("items", "keys", "values", "copy") and not it.args:
                return self.deps(it.func.value, at, must, cenv)
        if isinstance(it, ast.Name) and not (cenv and it.id in cenv) and path:
            # a local holding zip(...) / a literal tuple: look one definition through
            ds = self.rd.at(at, it.id)
            if len(ds) == 1 and ds[0].kind == "assign" and not ds[0].path and isinstance(ds[0].value, ast.Call) \
                    and (call_name(ds[0].value) or "") in ("zip", "enumerate"):
                return self.elem_deps(ds[0].value, path, ds[0].node, must, None)
        return self.deps(it, at, must, cenv)

    # ------------------------------------------------------------------ the dependency function
    def deps(self, e, at=None, must=False, cenv=None) -> FrozenSet[str]:
        if e is None:
            return EMPTY
        if at is None:
            at = self.node_of(e)
        key = (id(e), at, must, tuple(sorted((k, v) for k, v in cenv.items())) if cenv else None)
        if key in self._memo:
            return self._memo[key]
        if key in self._stack:
            return EMPTY
        self._stack.add(key)
        try:
            r = self._deps(e, at, must, cenv)
        finally:
            self._stack.discard(key)
        self._memo[key] = r
        return r

    def _deps(self, e, at, must, cenv) -> FrozenSet[str]:
        D = lambda x, c=cenv: self.deps(x, at, must, c)  # noqa: E731
        if isinstance(e, ast.Constant):
            return EMPTY
        if isinstance(e, ast.Name):
            if cenv and e.id in cenv:
                return cenv[e.id]
            ds = self.rd.at(at, e.id) if at is not None else []
            if not ds:
                return frozenset({"global:" + e.id})
            alts = []
            for d in ds:
                if must and d.kind == "assign" and not d.path and _is_constant_expr(d.value):
                    continue
                alts.append(self._def_deps(d, must))
            out = _combine(alts, must)
            if not must:
                for v, n2 in self.fills(e.id):
                    out = out | self.deps(v, n2, False, None)
            return out
        if isinstance(e, ast.Attribute):
            if not (cenv and isinstance(e.value, ast.Name) and e.value.id in cenv) and self.is_self(e.value, at):
                return frozenset({"self." + e.attr})
            return D(e.value)
        if isinstance(e, ast.Call):
            return self._call_deps(e, at, must, cenv)
        if isinstance(e, ast.IfExp):
            alts = [D(x) for x in (e.body, e.orelse) if not (must and _is_constant_expr(x))]
            out = _combine(alts, must)
            return out if must else out | D(e.test)
        if isinstance(e, (ast.ListComp, ast.SetComp, ast.GeneratorExp, ast.DictComp)):
            env = self.comp_env(e, at, must, cenv)
            parts = [e.key, e.value] if isinstance(e, ast.DictComp) else [e.elt]
            out = EMPTY
            for p in parts:
                out = out | self.deps(p, at, must, env)
            if not must:
                for gen in e.generators:
                    for c in gen.ifs:
                        out = out | self.deps(c, at, must, env)
            return out
        if isinstance(e, ast.NamedExpr):
            return D(e.value)
        if isinstance(e, ast.Lambda):
            shadow = dict(cenv or {})
            for p in fn_params(e):
                shadow[p] = EMPTY
            return self.deps(e.body, at, must, shadow)
        if isinstance(e, ast.Starred):
            return D(e.value)
        out = EMPTY
        for ch in ast.iter_child_nodes(e):
            if isinstance(ch, (ast.expr, ast.keyword, ast.comprehension)):
                if isinstance(ch, ast.keyword):
                    out = out | D(ch.value)
                elif isinstance(ch, ast.expr):
                    out = out | D(ch)
        return out

    def _call_deps(self, e: ast.Call, at, must, cenv) -> FrozenSet[str]:
        nm = call_name(e) or ""
        args = EMPTY
        for a in e.args:
            args = args | self.deps(a.value if isinstance(a, ast.Starred) else a, at, must, cenv)
        for k in e.keywords:
            args = args | self.deps(k.value, at, must, cenv)
        if nm in TRANSPARENT_CALLS or (nm.startswith(("util.", "typing.", "collections.")) and nm.rsplit(".", 1)[-1] in TRANSPARENT_CALLS):
            return args
        sc = self.sub_scope(e, at) if not cenv else None
        if sc is not None:
            r = sc.return_deps(must)
            return r | frozenset({"call:" + self._callee_label(e, at)})
        recv = EMPTY
        if isinstance(e.func, ast.Attribute):
            recv = self.deps(e.func.value, at, must, cenv)
            if self.is_self(e.func.value, at):
                return args | frozenset({"call:" + self._callee_label(e, at)})
            # a method of a local / attribute value: x.get(k, d), x.copy(), x.union(y) ... -> receiver and arguments
            return recv | args | frozenset({"call:." + e.func.attr})
        if isinstance(e.func, ast.Name):
            if cenv and e.func.id in cenv:
                return args | cenv[e.func.id]
            ds = self.rd.at(at, e.func.id) if at is not None else []
            if ds:
                return args | self.deps(e.func, at, must, cenv) | frozenset({"call:<local>"})
            return args | frozenset({"call:" + e.func.id})
        return args | self.deps(e.func, at, must, cenv)

    def _callee_label(self, e: ast.Call, at) -> str:
        fn = e.func
        if isinstance(fn, ast.Attribute) and isinstance(fn.value, ast.Name) and self.is_self(fn.value, at):
            return "self." + fn.attr
        return call_name(e) or "<?>"

    def _def_deps(self, d: Def, must) -> FrozenSet[str]:
        if d.kind == "param":
            if d.name in self.env:
                return self.env[d.name]
            return frozenset({"param:" + d.name})
        if d.kind == "assign":
            v = d.value
            path = d.path
            while path and isinstance(v, (ast.Tuple, ast.List)) and path[0] is not None and path[0] < len(v.elts) \
                    and not any(isinstance(x, ast.Starred) for x in v.elts):
                v, path = v.elts[path[0]], path[1:]
            if path and isinstance(v, ast.Call) and (call_name(v) or "") in ("zip",):
                return self.deps(v, d.node, must)
            return self.deps(v, d.node, must)
        if d.kind == "for":
            return self.elem_deps(d.value, d.path, d.node, must)
        if d.kind == "with":
            return self.deps(d.value, d.node, must)
        if d.kind == "aug":
            prev = EMPTY
            for p in self.rd.at(d.node, d.name):
                if p.id != d.id:
                    prev = prev | self._def_deps(p, must)
            return prev | self.deps(d.value, d.node, must)
        return frozenset({"local:" + d.name})

    # ------------------------------------------------------------------ origins
    def origins(self, e, at=None, rd: Optional[ReachingDefs] = None, _seen=None) -> List[Tuple[str, object, int]]:
        """Defining expressions of `e` at CFG node `at`: Names are followed through plain (un-indexed)
        assignments.  -> [('expr', ast expr, cfg node of the definition) | ('def', Def, node)]."""
        rd = rd or self.rd
        if at is None:
            at = self.node_of(e)
        if not isinstance(e, ast.Name):
            return [("expr", e, at)]
        _seen = _seen if _seen is not None else set()
        out = []
        for d in rd.at(at, e.id):
            if d.id in _seen:
                continue
            _seen.add(d.id)
            if d.kind == "assign" and not d.path:
                if isinstance(d.value, ast.Name):
                    out.extend(self.origins(d.value, d.node, rd, _seen))
                else:
                    out.append(("expr", d.value, d.node))
            else:
                out.append(("def", d, d.node))
        if not out and not rd.at(at, e.id):
            out.append(("expr", e, at))
        return out

    def alias_names(self, e, at, rd: Optional[ReachingDefs] = None) -> Set[str]:
        """Names on the plain-assignment chains that lead to Name `e` at `at` (including itself)."""
        rd = rd or self.rd
        out: Set[str] = set()
        work = [(e, at)]
        seen = set()
        while work:
            x, n = work.pop()
            if not isinstance(x, ast.Name):
                continue
            out.add(x.id)
            for d in rd.at(n, x.id):
                if d.id in seen:
                    continue
                seen.add(d.id)
                if d.kind == "assign" and not d.path and isinstance(d.value, ast.Name):
                    work.append((d.value, d.node))
        return out


def _combine(alts: Sequence[FrozenSet[str]], must: bool) -> FrozenSet[str]:
    if not alts:
        return EMPTY
    out = alts[0]
    for a in alts[1:]:
        out = (out & a) if must else (out | a)
    return out


# ---------------------------------------------------------------------- conditions
def conj_atoms(test: ast.expr, polarity: bool = True) -> List[Tuple[ast.expr, bool]]:
    """Conjuncts (expr, polarity) implied by `test` having truth value `polarity`.  Comparison operators
    `not in` / `is not` / `!=` are returned as their positive form with flipped polarity."""
    if isinstance(test, ast.UnaryOp) and isinstance(test.op, ast.Not):
        return conj_atoms(test.operand, not polarity)
    if isinstance(test, ast.BoolOp):
        if (isinstance(test.op, ast.And) and polarity) or (isinstance(test.op, ast.Or) and not polarity):
            out = []
            for v in test.values:
                out.extend(conj_atoms(v, polarity))
            return out
        return [(test, polarity)]
    if isinstance(test, ast.Compare) and len(test.ops) == 1:
        flip = {ast.IsNot: ast.Is, ast.NotEq: ast.Eq, ast.NotIn: ast.In}
        for neg, pos in flip.items():
            if isinstance(test.ops[0], neg):
                t2 = ast.Compare(left=test.left, ops=[pos()], comparators=test.comparators)
                ast.copy_location(t2, test)
                return [(t2, not polarity)]
    return [(test, polarity)]


def truth(test: ast.expr, subject: Callable[[ast.expr], bool], assume: bool) -> Optional[bool]:
    """Three-valued value of `test` given that every sub-expression for which subject(e) holds is a container /
    value with truthiness `assume` (non-empty when True).  None = not determined."""
    if subject(test):
        return assume
    if isinstance(test, ast.UnaryOp) and isinstance(test.op, ast.Not):
        v = truth(test.operand, subject, assume)
        return None if v is None else not v
    if isinstance(test, ast.BoolOp):
        vals = [truth(v, subject, assume) for v in test.values]
        if isinstance(test.op, ast.And):
            if any(v is False for v in vals):
                return False
            return True if all(v is True for v in vals) else None
        if any(v is True for v in vals):
            return True
        return False if all(v is False for v in vals) else None
    if isinstance(test, ast.Call) and (call_name(test) or "") == "bool" and len(test.args) == 1:
        return truth(test.args[0], subject, assume)
    if isinstance(test, ast.Compare) and len(test.ops) == 1:
        l, op, r = test.left, test.ops[0], test.comparators[0]

        def is_len(x):
            return isinstance(x, ast.Call) and (call_name(x) or "") == "len" and len(x.args) == 1 and subject(x.args[0])

        def const(x):
            return x.value if isinstance(x, ast.Constant) and isinstance(x.value, int) and not isinstance(x.value, bool) else None
        if is_len(l) and const(r) is not None:
            c = const(r)
            nonempty = None
            if isinstance(op, (ast.Gt, ast.NotEq)) and c == 0 or isinstance(op, ast.GtE) and c == 1:
                nonempty = True
            elif isinstance(op, ast.Eq) and c == 0 or isinstance(op, ast.Lt) and c == 1 or isinstance(op, ast.LtE) and c == 0:
                nonempty = False
            if nonempty is not None:
                return assume if nonempty else (not assume)
    return None
