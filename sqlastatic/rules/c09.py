"""C09 -- Column types round-trip values, processing applied exactly once (processor composition, thin)."""

from __future__ import annotations

import ast
import itertools

from ..astutil import attr_stores, call_name, calls_in, dotted, name_stores, unparse, walk_local
from ..index import FuncInfo
from ..report import Registry, chain, sub
from ._helpers_rob_h2 import Abs, Closure, Opq, PathInterp, Unsupported

R = Registry(
    "C09",
    title="Column types round-trip values and apply processing exactly once",
    decides=(
        "TypeDecorator.bind_processor / literal_processor compose impl(user(value)) and result_processor composes "
        "user(impl(value)): each of the two stages appears at most once in every generated processor, in that order, "
        "with the impl processor of the same kind and the user hook of the same kind (literal may fall back to "
        "process_bind_param); without a user hook the impl processor is returned unchanged; every TypeEngine subclass "
        "that defines a bind_processor resolves to a non-default result_processor (listed write-only types excepted); "
        "engine/processors.py re-exports exactly the public names of _processors_cy.py, every `processors.<name>` used "
        "in the package exists, and every shared processor passes None through unchanged; every processor taken from a "
        "component type (TypeDecorator impl, ARRAY item type, out-parameter type, the cached impl) is taken from its "
        "dialect-level form (.dialect_impl(dialect) / the _dialect_info memo), and TypeDecorator._gen_dialect_impl installs "
        "load_dialect_impl(dialect).dialect_impl(dialect) -- the recursive adaptation, not a colspecs lookup -- on the "
        "dialect-level copy; in every generated bind/result/literal processor of a TypeEngine subclass no falsy value "
        "(b'', '', 0, False, timedelta(0)) is mapped to None by a truthiness / emptiness test; regex match groups that are "
        "converted to numbers in a shared or type processor carry a default for groups that did not participate in the match, "
        "the same one in every extraction of a processor."
    ),
    not_decided=(
        "value equality per type and backend; that processors are applied exactly once across labels, subqueries, "
        "CTEs, unions, RETURNING and ORM loading (depends on result-map construction at run time)."
    ),
)

TA = "sql/type_api.py"
TD = f"{TA}::TypeDecorator"
PROC = "engine/processors.py"
PCY = "engine/_processors_cy.py"

KINDS = {
    # hooks: in order of precedence (literal rendering falls back to process_bind_param)
    "bind_processor": {"impl": "bind_processor", "user": {"process_bind_param"}, "hooks": ["process_bind_param"], "order": "impl(user)"},
    "literal_processor": {"impl": "literal_processor", "user": {"process_literal_param", "process_bind_param"},
                          "hooks": ["process_literal_param", "process_bind_param"], "order": "impl(user)"},
    "result_processor": {"impl": "result_processor", "user": {"process_result_value"}, "hooks": ["process_result_value"], "order": "user(impl)"},
}

# classes that define bind_processor but deliberately keep the default (absent) result processing
R2_EXCEPTIONS = {
    "sql/sqltypes.py::JSON.JSONElementType": "write-only: JSON index/path elements are only ever bound into an expression, never selected back",
}


# ---------------------------------------------------------------------- R1: path-wise composition of the generated processors
class _Self(Abs):
    pass


class _Hook(Abs):
    """bound user hook `self.process_*`"""

    def __init__(self, name):
        self.name = name


class _Flag(Abs):
    """boolean: is user hook <hook> overridden (`self._has_*`, `util.method_is_overridden(self, TypeDecorator.process_*)`)"""

    def __init__(self, hook):
        self.hook = hook
        self.truth_var = "overridden:" + hook


class _ImplRecv(Abs):
    """`self.impl_instance` / `self.impl`"""


class _ImplMeth(Abs):
    def __init__(self, kind):
        self.kind = kind


class _ImplProc(Abs):
    """what `self.impl_instance.<kind>(...)` returned: a callable or None (one path variable per kind)"""

    def __init__(self, kind):
        self.kind = kind
        self.truth_var = "impl:" + kind
        self.none_var = ("impl:" + kind, False)


class _Val(Abs):
    """the value handed to a generated processor after `stages` were applied to it"""

    def __init__(self, stages=()):
        self.stages = tuple(stages)
        tag = ">".join(self.stages) or "raw"
        self.truth_var = "truthy:value@" + tag
        self.none_var = ("none:value@" + tag, True)

    def __repr__(self):
        return "<value" + "".join(f" -> {s}" for s in self.stages) + ">"


def _flag_hook(ctx, cls, attr):
    """user hook whose overriding the memoized property `self.<attr>` reports (read from the property's body:
    `util.method_is_overridden(self, TypeDecorator.process_X)`); None when it is not such a property."""
    f = ctx.index.resolve_method(cls, attr)
    if f is None:
        return None
    hooks = set()
    for c in calls_in(f.node):
        if (call_name(c) or "").rsplit(".", 1)[-1] == "method_is_overridden":
            for a in c.args:
                if isinstance(a, ast.Attribute) and a.attr.startswith("process_"):
                    hooks.add(a.attr)
    if len(hooks) == 1:
        ctx.functions_analysed.add(f.key)
        return next(iter(hooks))
    return None


def _r1_interp(ctx, cls, f):
    def attr(n, base, env, ix):
        if isinstance(base, _Self):
            if n.attr.startswith("process_"):
                return _Hook(n.attr)
            if n.attr in ("impl_instance", "impl"):
                return _ImplRecv()
            h = _flag_hook(ctx, cls, n.attr) if n.attr.startswith("_") else None
            if h is not None:
                return _Flag(h)
            return NotImplemented
        if isinstance(base, _ImplRecv) and n.attr.endswith("_processor"):
            return _ImplMeth(n.attr)
        return NotImplemented

    def call(n, fval, args, kwargs, env, ix):
        if isinstance(fval, _ImplMeth):
            return _ImplProc(fval.kind)
        if isinstance(fval, _Hook):
            if args and isinstance(args[0], _Val):
                return _Val(args[0].stages + ("user:" + fval.name,))
            return Opq(unparse(n))
        if isinstance(fval, _ImplProc):
            if not ix.decide(fval.truth_var):
                ix.events.append(("calls-none", fval.kind))
            if args and isinstance(args[0], _Val):
                return _Val(args[0].stages + ("impl:" + fval.kind,))
            return Opq(unparse(n))
        if isinstance(fval, Opq) and fval.text.rsplit(".", 1)[-1] == "method_is_overridden" and len(args) >= 2 \
                and isinstance(args[1], Opq) and args[1].text.rsplit(".", 1)[-1].startswith("process_"):
            return _Flag(args[1].text.rsplit(".", 1)[-1])
        return NotImplemented

    def resolver(n, fval):
        fn = n.func
        if isinstance(fn, ast.Attribute) and isinstance(fn.value, ast.Name) and fn.value.id == "self":
            tgt = ctx.index.resolve_method(cls, fn.attr)
            if tgt is not None and isinstance(tgt.node, ast.FunctionDef) and not tgt.type_only:
                ctx.functions_analysed.add(tgt.key)
                deco = set(tgt.decorators)
                return (tgt.node, {} if "staticmethod" in deco else {tgt.params[0]: _Self()} if tgt.params else {})
        if isinstance(fn, ast.Name):
            tgt = f.module.functions.get(fn.id)
            if tgt is not None and isinstance(tgt.node, ast.FunctionDef):
                ctx.functions_analysed.add(tgt.key)
                return (tgt.node, {})
        return None

    return PathInterp(attr=attr, call=call, resolver=resolver, what=f.key)


def _fmt_stages(stages):
    e = "value"
    for s in stages:
        e = f"{s}({e})"
    return e


@R.rule("C09-R1", floor=11, template="T-FLOW",
        desc="TypeDecorator processor composition, decided per path (user hook overridden or not x impl processor present or "
             "not): bind/literal = impl(user(value)), result = user(impl(value)); each stage exactly once, kinds match; with a "
             "user hook but no impl processor the user hook alone; without a user hook the impl processor is returned as is")
def r1(ctx):
    cls = ctx.index.cls(TD)
    for meth, spec in KINDS.items():
        f = cls.methods.get(meth)
        if f is None:
            ctx.violation(f"{TD}.{meth}", f"TypeDecorator.{meth} is not defined: user hooks would never run", cls.loc)
            continue
        ctx.functions_analysed.add(f.key)
        hooks = spec["hooks"]
        ivar = "impl:" + spec["impl"]
        env = {p: Opq(p) for p in f.params}
        ctx.require(f.params and f.params[0] == "self", f"{f.key}: not an instance method")
        env["self"] = _Self()
        try:
            paths = _r1_interp(ctx, cls, f).run_function(f.node, env)
        except Unsupported as e:
            ctx.require(False, f"{f.key}: {e}")
        relevant = ["overridden:" + h for h in hooks] + [ivar]
        cases: dict = {}
        for assume, kind, value, events in paths:
            free = [v for v in relevant if v not in assume]
            for bits in itertools.product((True, False), repeat=len(free)):
                full = dict(assume)
                full.update(zip(free, bits))
                active = next((h for h in hooks if full["overridden:" + h]), None)
                has_impl = full[ivar]
                if active is None:
                    label = "no-user-hook"
                else:
                    label = (active if len(hooks) > 1 else "user-hook") + ("+impl" if has_impl else "-only")
                rec = cases.setdefault(label, {"problems": [], "unknown": [], "ok": [], "n": 0})
                if kind == "raise":
                    continue
                rec["n"] += 1
                _r1_judge(ctx, f, spec, active, has_impl, hooks, full, value, rec)
        for label, rec in sorted(cases.items()):
            key = f"{f.key}:{label}"
            ctx.require(not rec["unknown"], f"{key}: {rec['unknown'][:2]} (not understood)")
            ctx.require(rec["n"] > 0, f"{key}: every path raises")
            ctx.check(not rec["problems"], key, f"TypeDecorator.{meth} [{label}]: " + "; ".join(sorted(set(rec["problems"]))),
                      " | ".join(sorted(set(rec["ok"]))), f.loc)


def _r1_judge(ctx, f, spec, active, has_impl, hooks, full, value, rec):
    kind = spec["impl"]
    if active is None:
        # no user processing -> the impl's processor of the same kind, unchanged
        if isinstance(value, _ImplProc):
            if value.kind != kind:
                rec["problems"].append(f"without a user hook the impl's {value.kind} is returned, not its {kind}")
            else:
                rec["ok"].append(f"returns impl {kind} as is")
        elif value is None and not has_impl:
            rec["ok"].append("returns None (the impl has no processor)")
        elif isinstance(value, Closure):
            rec["problems"].append(f"without a user hook a generated wrapper is returned instead of self.impl_instance.{kind}(...) unchanged")
        elif value is None:
            rec["problems"].append(f"without a user hook None is returned although the impl has a {kind}: the impl's conversion is lost")
        else:
            rec["unknown"].append(f"without a user hook `{value!r}` is returned")
        return
    fallback = active != hooks[0]
    want = ("user:" + active, "impl:" + kind) if spec["order"] == "impl(user)" else ("impl:" + kind, "user:" + active)
    if not has_impl:
        want = ("user:" + active,)
    if not isinstance(value, Closure):
        if value is None and fallback and not has_impl:
            rec["ok"].append(f"{active} fallback without an impl {kind}: None")
        elif isinstance(value, _ImplProc) or value is None:
            rec["problems"].append(f"{active} is overridden but {'None' if value is None else 'the bare impl ' + value.kind} is returned: the user hook never runs")
        else:
            rec["unknown"].append(f"with {active} overridden `{value!r}` is returned")
        return
    if fallback and not has_impl:
        rec["problems"].append(f"{active} fallback generates a processor although the impl has no {kind}")
        return
    sub = _r1_interp(ctx, ctx.index.cls(TD), f)
    try:
        inner = sub.explore(lambda ix: ix.call_closure(value, [_Val()]), initial=full)
    except Unsupported as e:
        rec["unknown"].append(str(e))
        return
    for assume2, k2, v2, ev2 in inner:
        if k2 == "raise":
            rec["problems"].append("the generated processor raises on a path")
            continue
        if any(e[0] == "calls-none" for e in ev2):
            rec["problems"].append(f"the generated processor calls the impl processor although the impl has no {kind} (None is called)")
            continue
        if not isinstance(v2, _Val):
            if v2 is None or isinstance(v2, (str, int, bool)):
                rec["problems"].append(f"the generated processor returns the constant {v2!r} on a path instead of the processed value")
            else:
                rec["unknown"].append(f"the generated processor returns `{v2!r}`")
            continue
        got = v2.stages
        if got == want:
            rec["ok"].append(_fmt_stages(got))
            continue
        probs = []
        users = [s for s in got if s.startswith("user:")]
        impls = [s for s in got if s.startswith("impl:")]
        if len(users) != 1:
            probs.append(f"user hook applied {len(users)} times")
        if len(impls) > 1:
            probs.append(f"impl processor applied {len(impls)} times")
        if has_impl and not impls:
            probs.append("impl stage omitted although an impl processor exists")
        for s in impls:
            if s != "impl:" + kind:
                probs.append(f"wraps the impl's {s[5:]}, not its {kind}")
        for s in users:
            if s[5:] not in spec["user"]:
                probs.append(f"calls {s[5:]}, not {'/'.join(sorted(spec['user']))}")
            elif s != "user:" + active:
                probs.append(f"calls {s[5:]} although {active} is the overridden hook")
        if len(users) == 1 and len(impls) == 1 and not probs:
            probs.append(f"order is {_fmt_stages(got)}, documented {_fmt_stages(want)}")
        rec["problems"].append(f"generated processor computes {_fmt_stages(got)}: " + "; ".join(probs or [f"documented {_fmt_stages(want)}"]))


def _returns_only_none(f: FuncInfo) -> bool:
    rets = [r for r in walk_local(f.node) if isinstance(r, ast.Return)]
    return all(r.value is None or (isinstance(r.value, ast.Constant) and r.value.value is None) for r in rets)


@R.rule("C09-R2", floor=43, template="T-SIBLING/T-TABLE",
        desc="a type that defines bind_processor resolves (MRO) to a non-default result_processor unless listed as "
             "write-only; processors.py re-exports exactly the public names of _processors_cy.py; every "
             "processors.<name> used in the package exists; shared processors pass None through")
def r2(ctx):
    ix = ctx.index
    te = ix.cls(f"{TA}::TypeEngine")
    base_result = te.methods.get("result_processor")
    ctx.require(base_result is not None, "TypeEngine.result_processor not found")
    seen_exc = set()
    for c in sorted(ix.all_classes(), key=lambda c: c.key):
        if c is te or te not in ix.mro(c) or c.key == TD:
            continue
        b = c.methods.get("bind_processor")
        if b is None or b.type_only or _returns_only_none(b):
            continue
        ctx.functions_analysed.add(b.key)
        rr = ix.resolve_method(c, "result_processor")
        key = c.key
        if key in R2_EXCEPTIONS:
            seen_exc.add(key)
            ctx.check(rr is base_result, key, "listed as write-only but now has a result_processor: remove it from R2_EXCEPTIONS",
                      "exempt: " + R2_EXCEPTIONS[key], c.loc, nontrivial=False)
            continue
        ok = rr is not None and rr is not base_result
        ctx.check(ok, key,
                  f"{c.qualname} transforms bound values (bind_processor) but selects them back with the default (absent) "
                  f"result_processor: values do not round-trip",
                  f"result_processor from {rr.cls.qualname if rr is not None and rr.cls else '?'}", c.loc)
    for k in R2_EXCEPTIONS:
        ctx.require(k in seen_exc, f"exception entry {k} no longer matches a class that defines bind_processor")
    # re-exports
    pm_ = ix.module(PROC)
    cy = ix.module(PCY)
    public = {n for n in list(cy.functions) + list(cy.classes) if not n.startswith("_")}
    reexp = {local for local, imp in pm_.imports.items() if imp[0] == "symbol" and imp[1].endswith("._processors_cy")}
    wrong = {local: imp[2] for local, imp in pm_.imports.items()
             if imp[0] == "symbol" and imp[1].endswith("._processors_cy") and imp[2] not in public}
    ctx.check(reexp == public and not wrong, f"{PROC}:re-exports",
              f"engine/processors.py re-exports {sorted(reexp)} but _processors_cy.py defines {sorted(public)} "
              f"(missing {sorted(public - reexp)}, unknown {sorted(reexp - public) or wrong})",
              f"{len(public)} names re-exported", pm_.path)
    # every processors.<name> reference resolves
    refs, bad = 0, []
    defined = set(pm_.functions) | set(pm_.classes) | set(pm_.assigns) | set(pm_.imports)
    for m in ix.all_modules():
        imp = m.imports.get("processors")
        if not imp:
            continue
        target = imp[1] + ("." + imp[2] if imp[0] == "symbol" else "")
        if not target.endswith("engine.processors"):
            continue
        for node in ast.walk(m.tree):
            if isinstance(node, ast.Attribute) and isinstance(node.value, ast.Name) and node.value.id == "processors":
                refs += 1
                if node.attr not in defined:
                    bad.append(f"{m.relpath}:{node.lineno} processors.{node.attr}")
    ctx.check(not bad and refs > 0, f"{PROC}:references",
              f"references to names engine/processors.py does not define: {bad}", f"{refs} references resolve", pm_.path)
    # None passes through every shared processor
    funcs = [f for n, f in sorted(cy.functions.items()) if not n.startswith("_")]
    for cname, c in sorted(cy.classes.items()):
        if not cname.startswith("_") and "__call__" in c.methods:
            funcs.append(c.methods["__call__"])
    for f in funcs:
        ctx.functions_analysed.add(f.key)
        p = [x for x in f.params if x != "self"]
        ctx.require(p, f"{f.key} takes no value")
        # executed with the value bound to None: every path must return None (no conversion result, no raise);
        # decided on the paths, not on the shape of the guard (`if v is None: return None`, `if v is not None: ...`
        # followed by `return None`, a conditional expression, an else branch ... are the same thing)
        env = {x: Opq(x) for x in f.params}
        env[p[0]] = None
        try:
            paths = PathInterp(what=f.key).run_function(f.node, env)
        except Unsupported as e:
            ctx.require(False, f"{f.key}: {e}")
        bad = []
        for assume, kind, val, events in paths:
            if kind == "raise":
                bad.append("raises")
            elif val is not None:
                bad.append(f"returns {val!r}")
        ctx.check(not bad, f"{f.key}:none-passthrough",
                  f"{f.qualname} does not return None for a None input before converting (NULL would raise or be converted): "
                  f"with `{p[0]}` = None it {', '.join(sorted(set(bad)))}",
                  f"`{p[0]}` = None -> None on {len(paths)} path(s)", f.loc)


# ---------------------------------------------------------------------- R3: component processors come from dialect-level types
# (construct key) -> reason.  Confirmed by reading.
R3_EXCEPTIONS = {
    "sql/sqltypes.py::JSON.bind_processor:_str_impl.bind_processor":
        "`_str_impl` is a private generic String() helper: the serialised JSON text is handed to the driver as str; the "
        "generic String defines no bind/result conversion (both return None), so there is nothing a dialect copy would add "
        "that JSON relies on",
    "sql/sqltypes.py::JSON.result_processor:_str_impl.result_processor": "same helper as JSON.bind_processor",
    "dialects/oracle/cx_oracle.py::_OracleJson.result_processor:_str_impl.result_processor": "same helper as JSON.bind_processor",
}
ADAPT = "dialect_impl"


def _bindings(fn_node, name):
    return [v for n, v, st in name_stores(fn_node, into_nested=True) if n == name]


def _terminal_values(e, fn_node, depth=0):
    """the non-Name expressions a value may come from: locals through all their bindings, both arms of a conditional
    expression, the operands of `a or b`."""
    if depth > 5:
        return [e]
    if isinstance(e, ast.Name):
        vs = _bindings(fn_node, e.id)
        if not vs or any(v is None for v in vs):
            return [e]
        out = []
        for v in vs:
            out.extend(_terminal_values(v, fn_node, depth + 1))
        return out
    if isinstance(e, ast.IfExp):
        return _terminal_values(e.body, fn_node, depth + 1) + _terminal_values(e.orelse, fn_node, depth + 1)
    if isinstance(e, ast.BoolOp) and isinstance(e.op, ast.Or):
        out = []
        for v in e.values:
            out.extend(_terminal_values(v, fn_node, depth + 1))
        return out
    return [e]


def _follower(ix, f):
    """follow(call) -> (callee FunctionDef, [returned expressions]) for `self.helper(...)` / a same-module function."""
    def follow(call):
        fn = call.func
        tgt = None
        if isinstance(fn, ast.Attribute) and isinstance(fn.value, ast.Name) and fn.value.id == "self" and f.cls is not None:
            tgt = ix.resolve_method(f.cls, fn.attr)
        elif isinstance(fn, ast.Name):
            tgt = f.module.functions.get(fn.id)
        if tgt is None or tgt.type_only or not isinstance(tgt.node, ast.FunctionDef):
            return None
        rets = [r.value for r in walk_local(tgt.node) if isinstance(r, ast.Return) and r.value is not None]
        return (tgt.node, rets) if rets else None
    return follow


def _adapted(e, fn_node, depth=0, follow=None):
    """How a type expression was obtained: 'dialect-level' (`T.dialect_impl(d)`, `T._dialect_info(d)["impl"]`),
    'decorator-impl' (`self.impl_instance` / `self.impl`), else 'raw:<text>'.  Locals are resolved through all their
    bindings, `obj.attr` through the stores into `obj.attr` made in the same function, `self.helper(...)` / a same-module
    function through its return expressions (`follow`)."""
    if isinstance(e, ast.Call) and isinstance(e.func, ast.Attribute) and e.func.attr == ADAPT:
        return "dialect-level"
    if isinstance(e, ast.Subscript) and isinstance(e.slice, ast.Constant) and e.slice.value == "impl":
        base = e.value
        if isinstance(base, ast.Name) and depth < 4:
            vs = _bindings(fn_node, base.id)
            if vs and all(isinstance(v, ast.Call) and isinstance(v.func, ast.Attribute) and v.func.attr == "_dialect_info" for v in vs):
                return "dialect-level"
        if isinstance(base, ast.Call) and isinstance(base.func, ast.Attribute) and base.func.attr == "_dialect_info":
            return "dialect-level"
    d = dotted(e) or ""
    if d in ("self.impl_instance", "self.impl"):
        return "decorator-impl"
    if isinstance(e, ast.Name) and depth < 4:
        vs = _bindings(fn_node, e.id)
        kinds = {_adapted(v, fn_node, depth + 1, follow) if v is not None else "raw:?" for v in vs}
        if len(kinds) == 1:
            return next(iter(kinds))
        if kinds:
            return "raw:" + "/".join(sorted(kinds))
    if isinstance(e, ast.Attribute) and isinstance(e.value, ast.Name) and e.value.id != "self" and depth < 4:
        # `tt.impl_instance` read back after `tt.impl_instance = <x>` in the same function
        vs = [st.value for t, node, st in attr_stores(fn_node) if t == d and isinstance(st, ast.Assign)]
        kinds = {_adapted(v, fn_node, depth + 1, follow) for v in vs}
        if len(kinds) == 1:
            return next(iter(kinds))
    if isinstance(e, ast.Call) and follow is not None and depth < 3:
        tgt = follow(e)
        if tgt is not None:
            callee, rets = tgt
            kinds = {_adapted(v, callee, depth + 1, follow) for v in rets}
            if len(kinds) == 1:
                return next(iter(kinds))
    return "raw:" + unparse(e)[:60]


@R.rule("C09-R3", floor=20, template="T-FLOW/T-SIBLING",
        desc="a processor taken from a component type (impl of a TypeDecorator, item type, out-parameter type, the cached "
             "impl) is taken from the component's dialect-level form: `T.dialect_impl(dialect)` / the _dialect_info memo; "
             "`self.impl_instance` qualifies because TypeDecorator._gen_dialect_impl installs "
             "`load_dialect_impl(dialect).dialect_impl(dialect)` on the dialect-level copy")
def r3(ctx):
    ix = ctx.index
    td = ix.cls(TD)
    te = ix.cls(f"{TA}::TypeEngine")
    sites = []
    for m in ix.all_modules():
        if m.relpath.startswith("testing/") or "_processor(" not in m.source:
            continue
        for f in ix.all_functions(m):
            if f.parent_func is not None:
                continue
            for c in calls_in(f.node, into_nested=True):
                if not (isinstance(c.func, ast.Attribute) and c.func.attr in KINDS):
                    continue
                recv = c.func.value
                d = dotted(recv) or ""
                if d == "self" or d.startswith("super()") or (c.args and dotted(c.args[0]) == "self"):
                    continue  # the type's own / inherited processor, not a component's
                sites.append((f, c, recv))
    ctx.require(sites, "no component processor call found")
    uses_decorator_impl = []
    # one instance per (function, receiver.kind): a function that asks the same component for the same kind of
    # processor at several places (one per branch) or at one place (hoisted above the branches) is the same
    # obligation -- the floor counts obligations, not call expressions
    groups = {}
    for f, c, recv in sites:
        base = f"{f.key}:{(dotted(recv) or unparse(recv))[:40].rsplit('.', 1)[-1]}.{c.func.attr}"
        groups.setdefault(base, []).append((f, c, recv))
    counts = groups
    for key, members in groups.items():
        f = members[0][0]
        ctx.functions_analysed.add(f.key)
        loc = f"{f.module.path}:{members[0][1].lineno}"
        hows = [(_adapted(recv, f.node, follow=_follower(ix, f)), c, recv) for f_, c, recv in members]
        if key in R3_EXCEPTIONS:
            ctx.check(all(h.startswith("raw:") for h, _c, _r in hows), key, "listed as exempt but is now dialect-level: remove it from R3_EXCEPTIONS",
                      "exempt: " + R3_EXCEPTIONS[key], loc, nontrivial=False)
            continue
        if all(h == "decorator-impl" for h, _c, _r in hows):
            ok = f.cls is not None and (f.cls is td or td in ix.mro(f.cls))
            ctx.check(ok, key, f"`{unparse(members[0][2])}` is used as a component type outside a TypeDecorator",
                      "self.impl_instance of a TypeDecorator (dialect-level on the dialect copy, see _gen_dialect_impl instance)", loc)
            uses_decorator_impl.append(key)
            continue
        bad = [(h, c, recv) for h, c, recv in hows if h not in ("dialect-level", "decorator-impl")
               or (h == "decorator-impl" and not (f.cls is not None and (f.cls is td or td in ix.mro(f.cls))))]
        how, c, recv = bad[0] if bad else hows[0]
        ctx.check(not bad, key,
                  f"`{unparse(c)[:80]}`: the processor of a component type is taken from `{unparse(recv)[:60]}` which was not adapted "
                  f"with .{ADAPT}(dialect) ({how}): the dialect's own implementation of that type (its bind/result conversion, "
                  f"variants, a nested TypeDecorator's hooks) is skipped and values do not round-trip",
                  f"`{unparse(recv)[:60]}` is {how} ({len(members)} site(s))", f"{f.module.path}:{c.lineno}")
    for k in R3_EXCEPTIONS:
        ctx.require(any(k == kk.split("#")[0] for kk in list(counts)), f"R3 exception entry {k} no longer matches a site")

    # premise 1: every _gen_dialect_impl of the TypeDecorator family installs a dialect-level impl on the copy it returns
    gens = [c.methods["_gen_dialect_impl"] for c in [td] + ix.subclasses(td) if "_gen_dialect_impl" in c.methods]
    ctx.require(gens, "TypeDecorator._gen_dialect_impl not found")
    for g in gens:
        ctx.functions_analysed.add(g.key)
        stores = [(t, st) for t, node, st in attr_stores(g.node) if t.endswith(".impl_instance") or t.endswith(".impl")]
        key = f"{g.key}:installs-dialect-level-impl"
        if not stores:
            ctx.check(g is not gens[0], key, "the dialect-level copy never receives an adapted impl", "no copy made here", g.loc)
            continue
        bad = []
        for t, st in stores:
            v = st.value if isinstance(st, ast.Assign) else None
            how = _adapted(v, g.node) if v is not None else "raw:?"
            src_ok = False
            if how == "dialect-level":
                # ... of the per-dialect impl chosen by load_dialect_impl (or the plain impl)
                def through(e, n=0):
                    # locals bound once and `obj.attr` read back after a store in this function
                    while e is not None and n < 6:
                        n += 1
                        if isinstance(e, ast.Name):
                            vs = _bindings(g.node, e.id)
                        elif isinstance(e, ast.Attribute) and isinstance(e.value, ast.Name) and e.value.id != "self":
                            vs = [st2.value for t2, _n2, st2 in attr_stores(g.node) if t2 == dotted(e) and isinstance(st2, ast.Assign)]
                        else:
                            break
                        e = vs[0] if len(vs) == 1 else None
                    return e
                e = through(v)
                inner = through(e.func.value) if isinstance(e, ast.Call) and isinstance(e.func, ast.Attribute) else None
                src_ok = (isinstance(inner, ast.Call) and dotted(inner.func) == "self.load_dialect_impl") or \
                         dotted(inner) in ("self.impl_instance", "self.impl")
            if not (how == "dialect-level" and src_ok):
                bad.append(f"{t} = {unparse(v)[:70] if v is not None else '?'} ({how})")
        ctx.check(not bad, key,
                  f"the dialect-level copy of a TypeDecorator gets an impl that did not go through "
                  f"`self.load_dialect_impl(dialect).{ADAPT}(dialect)`: {sorted(set(bad))} -- a shallow colspecs lookup "
                  f"(dialect.type_descriptor / adapt_type) does not recurse into a nested TypeDecorator or a variant, so "
                  f"`self.impl_instance.<kind>_processor(dialect)` ({len(uses_decorator_impl)} sites) calls the GENERIC "
                  f"type's processor and the inner level's dialect conversion is skipped",
                  f"{len(stores)} store(s) of load_dialect_impl(dialect).{ADAPT}(dialect)", g.loc)
    # premise 2: the memo that dialect_impl() / the cached processors read is filled from _gen_dialect_impl
    di = ctx.func(f"{TA}::TypeEngine._dialect_info")
    ctx.functions_analysed.add(di.key)
    impl_vals = []
    for n in ast.walk(di.node):
        if isinstance(n, ast.Dict):
            for k, v in zip(n.keys, n.values):
                if isinstance(k, ast.Constant) and k.value == "impl":
                    impl_vals.append(v)
        elif isinstance(n, ast.Call) and isinstance(n.func, ast.Name) and n.func.id == "dict":
            impl_vals.extend(k.value for k in n.keywords if k.arg == "impl")
        elif isinstance(n, ast.Assign):
            for t in n.targets:
                if isinstance(t, ast.Subscript) and isinstance(t.slice, ast.Constant) and t.slice.value == "impl":
                    impl_vals.append(n.value)
    okm = False
    if len(impl_vals) == 1:
        vs = _terminal_values(impl_vals[0], di.node)
        fns = [dotted(v.func) if isinstance(v, ast.Call) else None for v in vs]
        okm = "self._gen_dialect_impl" in fns and set(fns) <= {"self._gen_dialect_impl", "self.adapt"}
    ctx.check(okm, f"{di.key}:impl-from-gen-dialect-impl",
              "the per-dialect memo's 'impl' is not produced by self._gen_dialect_impl(dialect) (variants / TypeDecorator "
              "adaptation would be bypassed for every cached processor)",
              "memo['impl'] = self._gen_dialect_impl(dialect) (or an adapt() copy of self)", di.loc)


# ---------------------------------------------------------------------- R4: only None is special in a generated processor
def _value_test(t, p):
    """Is test expression `t` a test of the bare truthiness / emptiness of parameter `p`?
    -> True (true when the value is truthy), False (true when falsy), None (not such a test)."""
    if isinstance(t, ast.Name) and t.id == p:
        return True
    if isinstance(t, ast.Call) and isinstance(t.func, ast.Name) and t.func.id in ("bool", "len") and len(t.args) == 1:
        return _value_test(t.args[0], p)
    if isinstance(t, ast.UnaryOp) and isinstance(t.op, ast.Not):
        r = _value_test(t.operand, p)
        return None if r is None else not r
    if isinstance(t, ast.Compare) and len(t.ops) == 1 and isinstance(t.left, ast.Call) and isinstance(t.left.func, ast.Name) \
            and t.left.func.id == "len" and len(t.left.args) == 1 and isinstance(t.left.args[0], ast.Name) and t.left.args[0].id == p \
            and isinstance(t.comparators[0], ast.Constant) and t.comparators[0].value in (0, 1):
        k, op = t.comparators[0].value, t.ops[0]
        if (k == 0 and isinstance(op, (ast.Gt, ast.NotEq))) or (k == 1 and isinstance(op, ast.GtE)):
            return True
        if (k == 0 and isinstance(op, (ast.Eq, ast.LtE))) or (k == 1 and isinstance(op, ast.Lt)):
            return False
    return None


def _is_param(e, p):
    return isinstance(e, ast.Name) and e.id == p


def _is_none(e):
    return e is None or (isinstance(e, ast.Constant) and e.value is None)


def _falsy_to_none(fn, p, pm):
    """Tests in processor `fn` on the bare truthiness / emptiness of its value parameter `p` whose FALSY side
    produces None: [description].  (`p and f(p)`, `True if p else False`, `if p: p = f(p)` ... `return p` keep a
    falsy value or convert it to something that is not NULL and are not reported.)"""
    out = []
    for x in ast.walk(fn):
        if isinstance(x, ast.IfExp):
            pol = _value_test(x.test, p)
            if pol is None:
                continue
            falsy = x.orelse if pol else x.body
            if _is_none(falsy):
                out.append(f"`{unparse(x)[:70]}` is None for every falsy value")
        elif isinstance(x, ast.If):
            pol = _value_test(x.test, p)
            if pol is None:
                continue
            block = x.orelse if pol else x.body
            at_end = False
            if not block:
                # falls through to what follows the `if`
                parent = pm.get(x)
                following = None
                for field in ("body", "orelse", "finalbody"):
                    seq = getattr(parent, field, None)
                    if isinstance(seq, list) and any(y is x for y in seq):
                        following = seq[[i for i, y in enumerate(seq) if y is x][0] + 1:]
                block = (following or [])[:1]
                at_end = not block and parent is fn
            none_assigned = bool(block) and isinstance(block[0], (ast.Assign, ast.AnnAssign)) and block[0].value is not None \
                and _is_none(block[0].value)
            if at_end or none_assigned or (block and isinstance(block[0], ast.Return) and _is_none(block[0].value)):
                out.append(f"`if {unparse(x.test)}:` sends every falsy value to "
                           f"`{unparse(block[0])[:40] if block else 'the implicit return None'}`")
        elif isinstance(x, ast.BoolOp) and isinstance(x.op, ast.Or):
            if any(_value_test(v, p) is True for v in x.values[:-1]) and _is_none(x.values[-1]):
                out.append(f"`{unparse(x)[:70]}` is None for every falsy value")
    return out


@R.rule("C09-R4", floor=70, template="T-GUARD",
        desc="in every generated bind / result / literal processor of a TypeEngine subclass only None maps to None: no "
             "branch selected by the bare truthiness or emptiness of the processed value yields None (b'', '', 0, 0.0, "
             "False, timedelta(0), [] and {} are members of the types' domains, NULL is not their image)")
def r4(ctx):
    ix = ctx.index
    te = ix.cls(f"{TA}::TypeEngine")
    for c in sorted(ix.all_classes(), key=lambda c: c.key):
        if c.module.relpath.startswith("testing/") or not (c is te or te in ix.mro(c)):
            continue
        for kind in KINDS:
            f = c.methods.get(kind)
            if f is None or f.type_only:
                continue
            # the generated processors: closures of the method itself and of the same-class / same-module helpers it
            # calls (a factory extracted into `self._compose(...)` still generates this method's processors)
            owners = [f] + _helpers_called(ix, c, f)
            procs = []
            for o in owners:
                procs.extend((o, n) for n in sorted((n for n in ast.walk(o.node) if isinstance(n, (ast.FunctionDef, ast.Lambda))
                                                     and n is not o.node and n.args.args), key=lambda n: (n.lineno, n.col_offset)))
            if not procs:
                continue
            ctx.functions_analysed.add(f.key)
            bad = []
            for o, fn in procs:
                pm = o.module.parents()
                p = fn.args.args[0].arg
                for b in _falsy_to_none(fn, p, pm):
                    bad.append(f"{getattr(fn, 'name', 'lambda')}@{o.qualname} line {fn.lineno} (`{p}`): {b}")
            # one instance per method: how many closures a method spreads its processor over is not an obligation
            ctx.check(not bad, f"{f.key}:generated-processors",
                      f"{c.qualname}.{kind}: a generated processor turns every FALSY value into None (SQL NULL): "
                      f"{'; '.join(bad)} -- empty bytes / '' / 0 / 0.0 / False / timedelta(0) / [] / {{}} are legitimate "
                      f"values of the type and would be stored or returned as NULL (only `value is None` may map to None)",
                      f"{len(procs)} generated processor(s): no falsy value is mapped to None", f.loc)


def _helpers_called(ix, cls, f):
    out, seen = [], {f.key}
    for c in calls_in(f.node, into_nested=True):
        tgt = None
        fn = c.func
        if isinstance(fn, ast.Attribute) and isinstance(fn.value, ast.Name) and fn.value.id in ("self", "cls"):
            tgt = ix.resolve_method(cls, fn.attr)
            if tgt is not None and tgt.name in KINDS:
                tgt = None  # another processor factory: has its own instance
        elif isinstance(fn, ast.Name):
            tgt = f.module.functions.get(fn.id)
        if tgt is not None and tgt.key not in seen and tgt.module is f.module and not tgt.type_only:
            seen.add(tgt.key)
            out.append(tgt)
    return out


# ---------------------------------------------------------------------- R5: regex groups converted to numbers carry a default
# A date/time string is taken apart with a regular expression (possibly the user's: sqlite DATETIME(regexp=...)) and the
# groups are converted with int().  A group that did not participate in the match (`(?:\.(\d+))?` without a fraction) is
# None unless the extraction names a default: `m.groups(0)` / `m.groupdict(0)` / `int(x or 0)`.  Every extraction whose
# elements reach a numeric conversion must supply one, and the extractions of one processor must supply the same one.
GROUP_METHODS = ("groups", "groupdict")
NUMERIC_CTORS = {"int", "float", "Decimal", "decimal.Decimal"}
_COLL_WRAPPERS = {"list", "tuple", "iter", "reversed", "sorted"}
_COMPS = (ast.ListComp, ast.GeneratorExp, ast.SetComp, ast.DictComp)


def _const_default(e):
    """the constant a missing value is replaced by, or None: `0`, `"0"` (not None itself)"""
    if isinstance(e, ast.Constant) and e.value is not None:
        return e
    return None


def _group_flow(owner, resolve=None):
    """[(site call, explicit default expr or None, [unguarded numeric sinks], {guard defaults}, reaches numeric?)] for the
    match-group extractions in `owner` (nested closures included).  Name-independent: the extraction is followed through
    locals, list()/iter()/.values()/.items() wrappers, comprehension and loop variables, subscripts, zip() and helper
    functions (`resolve(call)` -> FunctionDef) to the int()/float()/Decimal() calls and map(int, ...) it feeds."""
    sites = [c for c in ast.walk(owner) if isinstance(c, ast.Call) and isinstance(c.func, ast.Attribute)
             and c.func.attr in GROUP_METHODS]
    if not sites:
        return []
    unguarded, guards, reaches = _numeric_sinks(owner, {id(c): i for i, c in enumerate(sites)}, {}, resolve, 0)
    out = []
    for i, c in enumerate(sites):
        d = c.args[0] if c.args else next((k.value for k in c.keywords if k.arg == "default"), None)
        if d is not None and isinstance(d, ast.Constant) and d.value is None:
            d = None
        out.append((c, d, unguarded.get(i, []), guards.get(i, set()), i in reaches))
    return out


def _numeric_sinks(owner, idx, seed_env, resolve, depth):
    """(unguarded {site: [numeric conversion calls]}, guards {site: {default texts}}, sites that reach a numeric conversion).
    `idx`: id(call node) -> site number for extraction calls inside `owner`; `seed_env`: names that hold (elements of) a
    site's groups on entry (a helper's parameters)."""
    env = dict(seed_env)

    def cls(e):
        if e is None:
            return frozenset()
        if id(e) in idx:
            return frozenset({(idx[id(e)], "coll")})
        if isinstance(e, ast.Name):
            return env.get(e.id, frozenset())
        if isinstance(e, ast.Starred):
            return cls(e.value)
        if isinstance(e, ast.Call):
            if isinstance(e.func, ast.Name) and e.func.id in _COLL_WRAPPERS | {"zip", "enumerate"} and e.args:
                out = frozenset()
                for a in e.args:
                    out |= cls(a)
                return out
            if isinstance(e.func, ast.Attribute) and e.func.attr in ("values", "items", "copy"):
                return cls(e.func.value)
            return frozenset()
        if isinstance(e, ast.Subscript):
            return frozenset((i, "elem") for i, k in cls(e.value))
        if isinstance(e, ast.BoolOp) and isinstance(e.op, ast.Or):
            if _const_default(e.values[-1]) is not None:
                return frozenset()
            out = frozenset()
            for v in e.values:
                out |= cls(v)
            return out
        if isinstance(e, ast.IfExp):
            arms = [a for a in (e.body, e.orelse) if _const_default(a) is None]
            if len(arms) == 1 and cls(e.test):
                return frozenset()   # `x if x is not None else 0`-style guard on the element
            return cls(e.body) | cls(e.orelse)
        return frozenset()

    def bind(target, kinds):
        ch = False
        for n in ast.walk(target):
            if isinstance(n, ast.Name) and not kinds <= env.get(n.id, frozenset()):
                env[n.id] = env.get(n.id, frozenset()) | kinds
                ch = True
        return ch

    changed = True
    while changed:
        changed = False
        for n in ast.walk(owner):
            if isinstance(n, ast.Assign):
                k = cls(n.value)
                if k:
                    for t in n.targets:
                        changed |= bind(t, k)
            elif isinstance(n, (ast.AnnAssign, ast.NamedExpr)) and n.value is not None:
                k = cls(n.value)
                if k:
                    changed |= bind(n.target, k)
            elif isinstance(n, _COMPS):
                for g in n.generators:
                    k = frozenset((i, "elem") for i, kd in cls(g.iter))
                    if k:
                        changed |= bind(g.target, k)
            elif isinstance(n, ast.For):
                k = frozenset((i, "elem") for i, kd in cls(n.iter))
                if k:
                    changed |= bind(n.target, k)
    unguarded, guards, reaches = {}, {}, set()
    for c in ast.walk(owner):
        if not isinstance(c, ast.Call):
            continue
        nm = dotted(c.func) or ""
        if nm in NUMERIC_CTORS and c.args:
            a = c.args[0]
            for i, kd in cls(a):
                if kd == "elem":
                    unguarded.setdefault(i, []).append(c)
                    reaches.add(i)
            if isinstance(a, ast.BoolOp) and isinstance(a.op, ast.Or) and _const_default(a.values[-1]) is not None:
                for v in a.values[:-1]:
                    for i, kd in cls(v):
                        guards.setdefault(i, set()).add(unparse(a.values[-1]))
                        reaches.add(i)
        elif nm == "map" and len(c.args) >= 2 and (dotted(c.args[0]) or "") in NUMERIC_CTORS:
            for a in c.args[1:]:
                for i, kd in cls(a):
                    unguarded.setdefault(i, []).append(c)
                    reaches.add(i)
        elif resolve is not None and depth < 2 and id(c) not in idx:
            helper = resolve(c)
            if helper is None or helper is owner:
                continue
            params = [a.arg for a in helper.args.posonlyargs + helper.args.args if a.arg not in ("self", "cls")]
            seeds = {}
            for j, a in enumerate(c.args):
                k = cls(a)
                if k and j < len(params) and not isinstance(a, ast.Starred):
                    seeds[params[j]] = k
            for kw in c.keywords:
                k = cls(kw.value)
                if k and kw.arg:
                    seeds[kw.arg] = k
            if seeds:
                u2, g2, r2 = _numeric_sinks(helper, {}, seeds, resolve, depth + 1)
                for i, lst in u2.items():
                    unguarded.setdefault(i, []).extend(lst)
                for i, st in g2.items():
                    guards.setdefault(i, set()).update(st)
                reaches |= r2
    return unguarded, guards, reaches


@R.rule("C09-R5", floor=5, template="T-FLOW/T-SIBLING",
        desc="in the shared processors (engine/processors.py, _processors_cy.py) and in every bind/result/literal processor of a "
             "TypeEngine subclass, regex match groups that reach int()/float()/Decimal() (directly, through map(), a "
             "comprehension, .values()/.items()) are extracted with a default for groups that did not participate "
             "(`groups(0)`, `groupdict(0)`, `int(x or 0)`), and the extractions of one processor supply the same default")
def r5(ctx):
    ix = ctx.index
    te = ix.cls(f"{TA}::TypeEngine")
    owners = []
    for rel in (PROC, PCY):
        m = ix.module(rel)
        owners.extend(f for n, f in sorted(m.functions.items()) if isinstance(f.node, ast.FunctionDef) and not f.type_only)
        for cname, c in sorted(m.classes.items()):
            owners.extend(f for n, f in sorted(c.methods.items()) if not f.type_only)
    for c in sorted(ix.all_classes(), key=lambda c: c.key):
        if c.module.relpath.startswith("testing/") or not (c is te or te in ix.mro(c)):
            continue
        for kind in KINDS:
            f = c.methods.get(kind)
            if f is None or f.type_only:
                continue
            owners.extend([f] + _helpers_called(ix, c, f))
    seen = set()
    for f in owners:
        if f.key in seen or not any(isinstance(n, ast.Attribute) and n.attr in GROUP_METHODS for n in ast.walk(f.node)):
            continue
        seen.add(f.key)
        def resolve(call, f=f):
            fn = call.func
            tgt = None
            if isinstance(fn, ast.Name):
                tgt = f.module.functions.get(fn.id)
            elif isinstance(fn, ast.Attribute) and isinstance(fn.value, ast.Name) and fn.value.id in ("self", "cls") and f.cls is not None:
                tgt = ix.resolve_method(f.cls, fn.attr)
            if tgt is None or tgt.type_only or not isinstance(tgt.node, ast.FunctionDef):
                return None
            ctx.functions_analysed.add(tgt.key)
            return tgt.node

        flow = [x for x in _group_flow(f.node, resolve) if x[4]]
        if not flow:
            continue
        ctx.functions_analysed.add(f.key)
        effective = {}
        count = {}
        for call, dflt, sinks, guards, _r in flow:
            meth = call.func.attr
            count[meth] = count.get(meth, 0) + 1
            key = f"{f.key}:{meth}{'#%d' % count[meth] if count[meth] > 1 else ''}:default-for-unmatched-groups"
            ok = dflt is not None or not sinks
            eff = unparse(dflt) if dflt is not None else ("/".join(sorted(guards)) if guards and not sinks else "None")
            effective[key] = eff
            ctx.check(ok, key,
                      f"`{unparse(call)}` names no default, so a group that did not participate in the match (an optional part of "
                      f"the pattern: `(?:\\.(\\d+))?` with no fraction in the stored text) is None, and it reaches "
                      f"`{unparse(sinks[0])[:60] if sinks else ''}` unguarded: TypeError instead of the stored value (a time "
                      f"without microseconds cannot be selected back)",
                      f"unmatched groups become {eff} before the numeric conversion", f"{f.module.path}:{call.lineno}")
        if len(flow) > 1:
            vals = sorted(set(effective.values()))
            ctx.check(len(vals) == 1, f"{f.key}:group-defaults-agree",
                      f"the group extractions of this processor replace an unmatched group by different things: {effective} -- the "
                      f"named-group and the positional form of the same pattern would produce different values",
                      f"all {len(flow)} extractions default to {vals[0]}", f.loc)


# ---------------------------------------------------------------------- self-test battery
R.mutant("bind-impl-inside-user", TA,
         sub("                def process(value: Optional[_T]) -> Any:\n                    return fixed_impl_processor(\n                        fixed_process_param(value, dialect)\n                    )",
             "                def process(value: Optional[_T]) -> Any:\n                    return fixed_process_param(\n                        fixed_impl_processor(value), dialect\n                    )"), "C09-R1")
R.mutant("result-user-inside-impl", TA,
         sub("                    return fixed_process_value(\n                        fixed_impl_processor(value), dialect\n                    )",
             "                    return fixed_impl_processor(\n                        fixed_process_value(value, dialect)\n                    )"), "C09-R1")
R.mutant("bind-user-applied-twice", TA,
         sub("                def process(value: Optional[_T]) -> Any:\n                    return fixed_process_param(value, dialect)\n",
             "                def process(value: Optional[_T]) -> Any:\n                    return fixed_process_param(\n                        fixed_process_param(value, dialect), dialect\n                    )\n"), "C09-R1")
R.mutant("result-wraps-bind-impl", TA,
         sub("            impl_processor = self.impl_instance.result_processor(\n                dialect, coltype\n            )", "            impl_processor = self.impl_instance.bind_processor(dialect)"), "C09-R1")
R.mutant("bind-uses-result-hook", TA,
         sub("        if self._has_bind_processor:\n            process_param = self.process_bind_param\n            impl_processor = self.impl_instance.bind_processor(dialect)",
             "        if self._has_bind_processor:\n            process_param = self.process_result_value\n            impl_processor = self.impl_instance.bind_processor(dialect)"), "C09-R1")
R.mutant("result-no-hook-returns-bind", TA,
         sub("        else:\n            return self.impl_instance.result_processor(dialect, coltype)", "        else:\n            return self.impl_instance.bind_processor(dialect)"), "C09-R1")
R.mutant("literal-skips-impl", TA,
         sub("                def process(value: Any) -> str:\n                    return fixed_impl_processor(\n                        fixed_process_bind_param(value, dialect)\n                    )",
             "                def process(value: Any) -> str:\n                    return fixed_process_bind_param(value, dialect)"), "C09-R1")
R.mutant("uuid-result-processor-removed", "dialects/mssql/base.py",
         sub("class MSUUid(sqltypes.Uuid):", "class MSUUid(sqltypes.TypeEngine):"), "C09-R2")
R.mutant("benign-class-attr-added", "sql/sqltypes.py",
         sub("class Interval(Emulated, _AbstractInterval, TypeDecorator[dt.timedelta]):", "class Interval(Emulated, _AbstractInterval, TypeDecorator[dt.timedelta]):\n    _c09_marker = 1"), None)
R.mutant("processors-reexport-dropped", PROC,
         sub("from ._processors_cy import to_str as to_str  # noqa: F401\n", ""), "C09-R2")
R.mutant("processors-unknown-name-used", "sql/sqltypes.py",
         sub("processors.int_to_boolean", "processors.int_to_bool"), "C09-R2")
R.mutant("to-float-converts-none", PCY,
         sub("def to_float(value: Any) -> Optional[float]:\n    if value is None:\n        return None\n    return float(value)",
             "def to_float(value: Any) -> Optional[float]:\n    return float(value)"), "C09-R2")
R.mutant("str-to-date-none-to-min", PCY,
         sub("def str_to_date(value: Optional[str]) -> Optional[date_cls]:\n    if value is None:\n        return None\n",
             "def str_to_date(value: Optional[str]) -> Optional[date_cls]:\n    if value is None:\n        return date_cls.min\n"), "C09-R2")
# benign
R.mutant("benign-rename-fixed-locals", TA,
         sub("                fixed_process_value = process_value\n                fixed_impl_processor = impl_processor\n\n                def process(value: Any) -> Optional[_T]:\n                    return fixed_process_value(\n                        fixed_impl_processor(value), dialect\n                    )",
             "                user_stage = process_value\n                impl_stage = impl_processor\n\n                def process(value: Any) -> Optional[_T]:\n                    return user_stage(impl_stage(value), dialect)"), None)
R.mutant("benign-processor-else", PCY,
         sub("def to_str(value: Any) -> Optional[str]:\n    if value is None:\n        return None\n    return str(value)",
             "def to_str(value: Any) -> Optional[str]:\n    if value is None:\n        return None\n    else:\n        return str(value)"), None)
# --- R3 / R4 (strengthening round, seeds C09/1 and C09/2)
_GEN = "        typedesc = self.load_dialect_impl(dialect).dialect_impl(dialect)\n"
# seeded C09/1: shallow colspecs lookup instead of the recursive dialect_impl()
R.mutant("gen-dialect-impl-shallow-type-descriptor", TA,
         sub(_GEN, "        typedesc = dialect.type_descriptor(self.load_dialect_impl(dialect))\n"), "C09-R3")
R.mutant("gen-dialect-impl-installs-generic-impl", TA, sub(_GEN, "        typedesc = self.load_dialect_impl(dialect)\n"), "C09-R3")
R.mutant("pg-array-item-processor-from-generic-type", "dialects/postgresql/array.py",
         sub("        item_proc = self.item_type.dialect_impl(dialect).bind_processor(\n", "        item_proc = self.item_type.bind_processor(\n"), "C09-R3")
R.mutant("out-param-processor-from-generic-type", "engine/default.py",
         sub("            impl_type = type_.dialect_impl(self.dialect)\n", "            impl_type = type_\n"), "C09-R3")
R.mutant("dialect-info-skips-gen-dialect-impl", TA,
         sub("            impl = self._gen_dialect_impl(dialect)\n            if impl is self:", "            impl = dialect.type_descriptor(self)\n            if impl is self:"), "C09-R3")
R.mutant("benign-gen-dialect-impl-via-local", TA,
         sub(_GEN, "        loaded = self.load_dialect_impl(dialect)\n        typedesc = loaded.dialect_impl(dialect)\n"), None)
R.mutant("benign-array-item-impl-local", "sql/sqltypes.py",
         sub("        item_proc = self.item_type.dialect_impl(dialect).literal_processor(\n            dialect\n        )",
             "        item_impl = self.item_type.dialect_impl(dialect)\n        item_proc = item_impl.literal_processor(dialect)"), None)
_BIN = "            if value is not None:\n                return DBAPIBinary(value)\n            else:\n                return None\n"
# seeded C09/2: None guard widened to a falsiness guard
R.mutant("binary-bind-empty-to-null", "sql/sqltypes.py", sub(_BIN, "            return DBAPIBinary(value) if value else None\n"), "C09-R4")
R.mutant("binary-bind-not-value-returns-none", "sql/sqltypes.py",
         sub(_BIN, "            if not value:\n                return None\n            return DBAPIBinary(value)\n"), "C09-R4")
R.mutant("interval-bind-zero-to-null", "sql/sqltypes.py",
         sub("                if value is not None:\n                    dt_value = epoch + value\n                else:\n                    dt_value = None\n                return fixed_impl_processor(dt_value)",
             "                if value:\n                    dt_value = epoch + value\n                else:\n                    dt_value = None\n                return fixed_impl_processor(dt_value)"), "C09-R4")
R.mutant("pickle-result-empty-to-null", "sql/sqltypes.py",
         sub("                value = fixed_impl_processor(value)\n                if value is None:\n                    return None\n                return loads(value)",
             "                value = fixed_impl_processor(value)\n                if not value:\n                    return None\n                return loads(value)"), "C09-R4")
R.mutant("pickle-result-or-none", "sql/sqltypes.py",
         sub("            def process(value):\n                if value is None:\n                    return None\n                return loads(value)\n",
             "            def process(value):\n                return (value or None) and loads(value)\n"), "C09-R4")
R.mutant("benign-binary-bind-ternary-is-not-none", "sql/sqltypes.py",
         sub(_BIN, "            return DBAPIBinary(value) if value is not None else None\n"), None)
R.mutant("benign-binary-result-falsy-passed-through", "sql/sqltypes.py",
         sub("            if value is not None:\n                value = bytes(value)\n            return value", "            if value:\n                value = bytes(value)\n            return value"), None)


# ---- rob-H2: shape variants of the TypeDecorator factories, the shared processors, the memo (benign must stay silent)
R.mutant('benign-bind-bool-local-early-return', 'sql/type_api.py',
         sub('        if self._has_bind_processor:\n            process_param = self.process_bind_param\n            impl_processor = self.impl_instance.bind_processor(dialect)\n            if impl_processor:\n                fixed_impl_processor = impl_processor\n                fixed_process_param = process_param\n\n                def process(value: Optional[_T]) -> Any:\n                    return fixed_impl_processor(\n                        fixed_process_param(value, dialect)\n                    )\n\n            else:\n                fixed_process_param = process_param\n\n                def process(value: Optional[_T]) -> Any:\n                    return fixed_process_param(value, dialect)\n\n            return process\n        else:\n            return self.impl_instance.bind_processor(dialect)\n',
             '        wraps = self._has_bind_processor\n        impl_processor = self.impl_instance.bind_processor(dialect)\n        if not wraps:\n            return impl_processor\n        process_param = self.process_bind_param\n        if impl_processor is None:\n\n            def process(value: Optional[_T]) -> Any:\n                return process_param(value, dialect)\n\n            return process\n\n        def process(value: Optional[_T]) -> Any:\n            converted = process_param(value, dialect)\n            return impl_processor(converted)\n\n        return process\n'), None)
R.mutant('benign-bind-lambdas', 'sql/type_api.py',
         sub('        if self._has_bind_processor:\n            process_param = self.process_bind_param\n            impl_processor = self.impl_instance.bind_processor(dialect)\n            if impl_processor:\n                fixed_impl_processor = impl_processor\n                fixed_process_param = process_param\n\n                def process(value: Optional[_T]) -> Any:\n                    return fixed_impl_processor(\n                        fixed_process_param(value, dialect)\n                    )\n\n            else:\n                fixed_process_param = process_param\n\n                def process(value: Optional[_T]) -> Any:\n                    return fixed_process_param(value, dialect)\n\n            return process\n        else:\n            return self.impl_instance.bind_processor(dialect)\n',
             '        if not self._has_bind_processor:\n            return self.impl_instance.bind_processor(dialect)\n        user = self.process_bind_param\n        inner = self.impl_instance.bind_processor(dialect)\n        return (\n            (lambda value: inner(user(value, dialect)))\n            if inner\n            else (lambda value: user(value, dialect))\n        )\n'), None)
R.mutant('benign-bind-extracted-helper', 'sql/type_api.py',
         sub('        if self._has_bind_processor:\n            process_param = self.process_bind_param\n            impl_processor = self.impl_instance.bind_processor(dialect)\n            if impl_processor:\n                fixed_impl_processor = impl_processor\n                fixed_process_param = process_param\n\n                def process(value: Optional[_T]) -> Any:\n                    return fixed_impl_processor(\n                        fixed_process_param(value, dialect)\n                    )\n\n            else:\n                fixed_process_param = process_param\n\n                def process(value: Optional[_T]) -> Any:\n                    return fixed_process_param(value, dialect)\n\n            return process\n        else:\n            return self.impl_instance.bind_processor(dialect)\n',
             '        if self._has_bind_processor:\n            return self._compose_bind(\n                self.process_bind_param,\n                self.impl_instance.bind_processor(dialect),\n                dialect,\n            )\n        return self.impl_instance.bind_processor(dialect)\n\n    def _compose_bind(self, user_stage, impl_stage, dialect):\n        if impl_stage:\n\n            def process(value: Optional[_T]) -> Any:\n                return impl_stage(user_stage(value, dialect))\n\n        else:\n\n            def process(value: Optional[_T]) -> Any:\n                return user_stage(value, dialect)\n\n        return process\n'), None)
R.mutant('benign-result-ternary-closures', 'sql/type_api.py',
         sub('        if self._has_result_processor:\n            process_value = self.process_result_value\n            impl_processor = self.impl_instance.result_processor(\n                dialect, coltype\n            )\n            if impl_processor:\n                fixed_process_value = process_value\n                fixed_impl_processor = impl_processor\n\n                def process(value: Any) -> Optional[_T]:\n                    return fixed_process_value(\n                        fixed_impl_processor(value), dialect\n                    )\n\n            else:\n                fixed_process_value = process_value\n\n                def process(value: Any) -> Optional[_T]:\n                    return fixed_process_value(value, dialect)\n\n            return process\n        else:\n            return self.impl_instance.result_processor(dialect, coltype)\n',
             '        if not self._has_result_processor:\n            return self.impl_instance.result_processor(dialect, coltype)\n        process_value = self.process_result_value\n        impl_processor = self.impl_instance.result_processor(dialect, coltype)\n\n        def with_impl(value: Any) -> Optional[_T]:\n            return process_value(impl_processor(value), dialect)\n\n        def without_impl(value: Any) -> Optional[_T]:\n            return process_value(value, dialect)\n\n        return with_impl if impl_processor else without_impl\n'), None)
R.mutant('benign-literal-merged-closures', 'sql/type_api.py',
         sub('        if self._has_literal_processor:\n            process_literal_param = self.process_literal_param\n            process_bind_param = None\n        elif self._has_bind_processor:\n            # use the bind processor if dont have a literal processor,\n            # but we have an impl literal processor\n            process_literal_param = None\n            process_bind_param = self.process_bind_param\n        else:\n            process_literal_param = None\n            process_bind_param = None\n\n        if process_literal_param is not None:\n            impl_processor = self.impl_instance.literal_processor(dialect)\n            if impl_processor:\n                fixed_impl_processor = impl_processor\n                fixed_process_literal_param = process_literal_param\n\n                def process(value: Any) -> str:\n                    return fixed_impl_processor(\n                        fixed_process_literal_param(value, dialect)\n                    )\n\n            else:\n                fixed_process_literal_param = process_literal_param\n\n                def process(value: Any) -> str:\n                    return fixed_process_literal_param(value, dialect)\n\n            return process\n\n        elif process_bind_param is not None:\n            impl_processor = self.impl_instance.literal_processor(dialect)\n            if not impl_processor:\n                return None\n            else:\n                fixed_impl_processor = impl_processor\n                fixed_process_bind_param = process_bind_param\n\n                def process(value: Any) -> str:\n                    return fixed_impl_processor(\n                        fixed_process_bind_param(value, dialect)\n                    )\n\n                return process\n        else:\n            return self.impl_instance.literal_processor(dialect)\n',
             '        if self._has_literal_processor:\n            user = self.process_literal_param\n            fallback = False\n        elif self._has_bind_processor:\n            user = self.process_bind_param\n            fallback = True\n        else:\n            return self.impl_instance.literal_processor(dialect)\n        impl_processor = self.impl_instance.literal_processor(dialect)\n        if impl_processor:\n\n            def process(value: Any) -> str:\n                return impl_processor(user(value, dialect))\n\n            return process\n        if fallback:\n            return None\n\n        def process(value: Any) -> str:\n            return user(value, dialect)\n\n        return process\n'), None)
R.mutant('benign-literal-inline-overridden-test', 'sql/type_api.py',
         sub('        if self._has_literal_processor:\n            process_literal_param = self.process_literal_param\n            process_bind_param = None\n',
             '        if util.method_is_overridden(\n            self, TypeDecorator.process_literal_param\n        ):\n            process_literal_param = self.process_literal_param\n            process_bind_param = None\n'), None)
R.mutant('bind-early-return-flag-inverted', 'sql/type_api.py',
         sub('        if self._has_bind_processor:\n            process_param = self.process_bind_param\n            impl_processor = self.impl_instance.bind_processor(dialect)\n            if impl_processor:\n                fixed_impl_processor = impl_processor\n                fixed_process_param = process_param\n\n                def process(value: Optional[_T]) -> Any:\n                    return fixed_impl_processor(\n                        fixed_process_param(value, dialect)\n                    )\n\n            else:\n                fixed_process_param = process_param\n\n                def process(value: Optional[_T]) -> Any:\n                    return fixed_process_param(value, dialect)\n\n            return process\n        else:\n            return self.impl_instance.bind_processor(dialect)\n',
             '        if self._has_bind_processor:\n            return self.impl_instance.bind_processor(dialect)\n        process_param = self.process_bind_param\n        impl_processor = self.impl_instance.bind_processor(dialect)\n        if impl_processor:\n\n            def process(value: Optional[_T]) -> Any:\n                return impl_processor(process_param(value, dialect))\n\n        else:\n\n            def process(value: Optional[_T]) -> Any:\n                return process_param(value, dialect)\n\n        return process\n'), 'C09-R1')
R.mutant('result-impl-test-inverted', 'sql/type_api.py',
         sub('            if impl_processor:\n                fixed_process_value = process_value\n',
             '            if not impl_processor:\n                fixed_process_value = process_value\n'), 'C09-R1')
R.mutant('literal-bind-hook-preferred-over-literal-hook', 'sql/type_api.py',
         sub('        if self._has_literal_processor:\n            process_literal_param = self.process_literal_param\n            process_bind_param = None\n        elif self._has_bind_processor:\n            # use the bind processor if dont have a literal processor,\n            # but we have an impl literal processor\n            process_literal_param = None\n            process_bind_param = self.process_bind_param\n',
             '        if self._has_bind_processor:\n            process_literal_param = None\n            process_bind_param = self.process_bind_param\n        elif self._has_literal_processor:\n            process_literal_param = self.process_literal_param\n            process_bind_param = None\n'), 'C09-R1')
R.mutant('bind-no-hook-returns-none', 'sql/type_api.py',
         sub('        else:\n            return self.impl_instance.bind_processor(dialect)\n',
             '        else:\n            return None\n'), 'C09-R1')
R.mutant('bind-closure-skips-none-values', 'sql/type_api.py',
         sub('                def process(value: Optional[_T]) -> Any:\n                    return fixed_process_param(value, dialect)\n',
             '                def process(value: Optional[_T]) -> Any:\n                    if value is None:\n                        return None\n                    return fixed_process_param(value, dialect)\n'), 'C09-R1')
R.mutant('benign-to-float-inverted-guard', 'engine/_processors_cy.py',
         sub('    if value is None:\n        return None\n    return float(value)\n',
             '    if value is not None:\n        return float(value)\n    return None\n'), None)
R.mutant('benign-to-str-conditional-expression', 'engine/_processors_cy.py',
         sub('    if value is None:\n        return None\n    return str(value)\n',
             '    return None if value is None else str(value)\n'), None)
R.mutant('benign-decimal-early-return-no-else', 'engine/_processors_cy.py',
         sub('        if value is None:\n            return None\n        else:\n            return self.type_(self.format_ % value)\n',
             '        if value is None:\n            return value\n        formatted = self.format_ % value\n        return self.type_(formatted)\n'), None)
R.mutant('to-str-none-becomes-text', 'engine/_processors_cy.py',
         sub('    if value is None:\n        return None\n    return str(value)\n',
             '    return str(value) if value is not None else str(None)\n'), 'C09-R2')
R.mutant('to-float-none-replaced-by-zero', 'engine/_processors_cy.py',
         sub('    if value is None:\n        return None\n    return float(value)\n',
             '    if value is None:\n        value = 0.0\n    return float(value)\n'), 'C09-R2')
R.mutant('benign-dialect-info-early-return-subscript-store', 'sql/type_api.py',
         sub('        if self in dialect._type_memos:\n            return dialect._type_memos[self]\n        else:\n            impl = self._gen_dialect_impl(dialect)\n            if impl is self:\n                impl = self.adapt(type(self))\n            # this can\'t be self, else we create a cycle\n            assert impl is not self\n            d: _TypeMemoDict = {"impl": impl, "result": {}}\n            dialect._type_memos[self] = d\n            return d\n',
             '        memos = dialect._type_memos\n        if self in memos:\n            return memos[self]\n        generated = self._gen_dialect_impl(dialect)\n        impl = self.adapt(type(self)) if generated is self else generated\n        # this can\'t be self, else we create a cycle\n        assert impl is not self\n        d: _TypeMemoDict = {"result": {}}\n        d["impl"] = impl\n        memos[self] = d\n        return d\n'), None)
R.mutant('benign-cached-bind-impl-local', 'sql/type_api.py',
         sub('        d["bind"] = bp = d["impl"].bind_processor(dialect)\n        return bp\n',
             '        impl = d["impl"]\n        bp = impl.bind_processor(dialect)\n        d["bind"] = bp\n        return bp\n'), None)
R.mutant('benign-cached-result-impl-helper', 'sql/type_api.py',
         sub('        rp = d["impl"].result_processor(dialect, coltype)\n        d["result"][coltype] = rp\n        return rp\n',
             '        rp = self._memo_impl(dialect).result_processor(dialect, coltype)\n        d["result"][coltype] = rp\n        return rp\n\n    def _memo_impl(self, dialect):\n        info = self._dialect_info(dialect)\n        return info["impl"]\n'), None)
R.mutant('benign-gen-dialect-impl-split-stores', 'sql/type_api.py',
         sub('        tt.impl = tt.impl_instance = typedesc\n        return tt\n\n    def _with_collation(',
             '        tt.impl_instance = typedesc\n        tt.impl = tt.impl_instance\n        return tt\n\n    def _with_collation('), None)
R.mutant('dialect-info-memo-impl-is-self', 'sql/type_api.py',
         sub('            d: _TypeMemoDict = {"impl": impl, "result": {}}\n',
             '            d: _TypeMemoDict = {"impl": self, "result": {}}\n'), 'C09-R3')
R.mutant('cached-literal-processor-from-raw-self-helper', 'sql/type_api.py',
         sub('        d["literal"] = lp = d["impl"].literal_processor(dialect)\n        return lp\n',
             '        d["literal"] = lp = self._lit_source().literal_processor(dialect)\n        return lp\n\n    def _lit_source(self):\n        return self.copy()\n'), 'C09-R3')

# rob-H2: rfH_12 family (inner test inverted, common assignment hoisted) and closures generated by an extracted helper
R.mutant('benign-result-inner-test-inverted-common-assignment-hoisted', 'sql/type_api.py',
         sub('            if impl_processor:\n                fixed_process_value = process_value\n                fixed_impl_processor = impl_processor\n\n                def process(value: Any) -> Optional[_T]:\n                    return fixed_process_value(\n                        fixed_impl_processor(value), dialect\n                    )\n\n            else:\n                fixed_process_value = process_value\n\n                def process(value: Any) -> Optional[_T]:\n                    return fixed_process_value(value, dialect)\n',
             '            fixed_process_value = process_value\n            if not impl_processor:\n\n                def process(value: Any) -> Optional[_T]:\n                    return fixed_process_value(value, dialect)\n\n            else:\n                fixed_impl_processor = impl_processor\n\n                def process(value: Any) -> Optional[_T]:\n                    return fixed_process_value(\n                        fixed_impl_processor(value), dialect\n                    )\n'), None)
R.mutant('benign-binary-bind-closure-from-helper', 'sql/sqltypes.py',
         sub('        def process(value):\n            if value is not None:\n                return DBAPIBinary(value)\n            else:\n                return None\n\n        return process\n',
             '        return self._wrap_binary(DBAPIBinary)\n\n    def _wrap_binary(self, ctor):\n        def process(value):\n            if value is None:\n                return None\n            return ctor(value)\n\n        return process\n'), None)
R.mutant('binary-bind-helper-closure-empty-to-null', 'sql/sqltypes.py',
         sub('        def process(value):\n            if value is not None:\n                return DBAPIBinary(value)\n            else:\n                return None\n\n        return process\n',
             '        return self._wrap_binary(DBAPIBinary)\n\n    def _wrap_binary(self, ctor):\n        def process(value):\n            return ctor(value) if value else None\n\n        return process\n'), 'C09-R4')

# ---- round 2 (str2-d): R5, regex groups reach int() with a default (seed C09_4 and its class)
_POS = "                return type_(*list(map(int, m.groups(0))))\n"
_NAMED = ("                groups = m.groupdict(0)\n                return type_(\n                    **dict(\n                        list(\n"
          "                            zip(\n                                iter(groups.keys()),\n"
          "                                list(map(int, iter(groups.values()))),\n                            )\n                        )\n"
          "                    )\n                )\n")
_NAMED_COMP = ("                return type_(\n                    **{\n                        name: int(text)\n"
               "                        for name, text in m.groupdict(%s).items()\n                    }\n                )\n")
R.mutant("r5-seed4-positional-groups-lose-default", PROC,
         chain(sub(_NAMED, _NAMED_COMP % "0"), sub(_POS, "                return type_(*[int(text) for text in m.groups()])\n")), "C09-R5")
R.mutant("r5-positional-groups-default-dropped-in-place", PROC, sub(_POS, "                return type_(*list(map(int, m.groups())))\n"), "C09-R5")
R.mutant("r5-named-groups-lose-default", PROC, sub(_NAMED, _NAMED_COMP % ""), "C09-R5")
R.mutant("r5-siblings-disagree-on-default", PROC, sub(_POS, "                return type_(*list(map(int, m.groups(1))))\n"), "C09-R5")
R.mutant("r5-mssql-time-guard-dropped", "dialects/mssql/base.py",
         sub("                return datetime.time(*[int(x or 0) for x in m.groups()])\n",
             "                return datetime.time(*[int(x) for x in m.groups()])\n"), "C09-R5")
R.mutant("r5-helper-converts-undefaulted-groups", PROC,
         chain(sub(_POS, "                return type_(*_as_ints(m.groups()))\n"),
               sub("def str_to_datetime_processor_factory(\n", "def _as_ints(parts):\n    return [int(part) for part in parts]\n\n\ndef str_to_datetime_processor_factory(\n")), "C09-R5")
R.mutant("benign-r5-comprehensions-with-defaults", PROC,
         chain(sub(_NAMED, _NAMED_COMP % "0"), sub(_POS, "                return type_(*[int(text) for text in m.groups(0)])\n")), None)
R.mutant("benign-r5-positional-groups-through-local-and-keyword-default", PROC,
         sub(_POS, "                parts = m.groups(default=0)\n                numbers = [int(p) for p in parts]\n                return type_(*numbers)\n"), None)
R.mutant("benign-r5-helper-converts-defaulted-groups", PROC,
         chain(sub(_POS, "                return type_(*_as_ints(m.groups(0)))\n"),
               sub("def str_to_datetime_processor_factory(\n", "def _as_ints(parts):\n    return [int(part) for part in parts]\n\n\ndef str_to_datetime_processor_factory(\n")), None)
R.mutant("benign-r5-inverted-named-test-early-return", PROC,
         chain(sub("            if has_named_groups:\n                groups = m.groupdict(0)\n", "            if not has_named_groups:\n                return type_(*list(map(int, m.groups(0))))\n            else:\n                groups = m.groupdict(0)\n"),
               sub("            else:\n" + _POS, "")), None)
R.mutant("benign-r5-mssql-date-default-in-extraction", "dialects/mssql/base.py",
         sub("                return datetime.date(*[int(x or 0) for x in m.groups()])\n",
             "                return datetime.date(*[int(x) for x in m.groups(0)])\n"), None)
