"""C09 -- Column types round-trip values, processing applied exactly once (processor composition, thin)."""

from __future__ import annotations

import ast

from ..astutil import call_name, calls_in, dotted, guard_atoms, lexical_guards, name_stores, unparse, walk_local
from ..index import FuncInfo
from ..report import Registry, sub

R = Registry(
    "C09",
    title="Column types round-trip values and apply processing exactly once",
    decides=(
        "TypeDecorator.bind_processor / literal_processor compose impl(user(value)) and result_processor composes "
        "user(impl(value)): each of the two stages appears at most once in every generated processor, in that order, "
        "with the impl processor of the same kind and the user hook of the same kind (literal may fall back to "
        "process_bind_param); without a user hook the impl processor is returned unchanged; every TypeEngine subclass "
        "that defines a bind_processor resolves to a non-default result_processor (listed write-only types excepted); "
        "engine/processors.py re-exports exactly the public names of _processors_cy.py, every `processors.<name>` used "
        "in the package exists, and every shared processor passes None through unchanged."
    ),
    not_decided=(
        "value equality per type and backend; that processors are applied exactly once across labels, subqueries, "
        "CTEs, unions, RETURNING and ORM loading (depends on result-map construction at run time)."
    ),
)

TA = "sql/type_api.py"
TD = f"{TA}::TypeDecorator"
PROC = "engine/processors.py"
PCY = "engine/_processors_cy.py"

KINDS = {
    "bind_processor": {"impl": "bind_processor", "user": {"process_bind_param"}, "order": "impl(user)"},
    "literal_processor": {"impl": "literal_processor", "user": {"process_literal_param", "process_bind_param"}, "order": "impl(user)"},
    "result_processor": {"impl": "result_processor", "user": {"process_result_value"}, "order": "user(impl)"},
}

# classes that define bind_processor but deliberately keep the default (absent) result processing
R2_EXCEPTIONS = {
    "sql/sqltypes.py::JSON.JSONElementType": "write-only: JSON index/path elements are only ever bound into an expression, never selected back",
}


def _terminals(name: str, outer: ast.AST, depth=0, seen=frozenset()):
    """Terminal expressions a local name of `outer` may alias (following plain `a = b` chains into
    enclosing-function bindings); `None` constants are dropped."""
    out = []
    if depth > 6 or name in seen:
        return out
    for n, v, st in name_stores(outer):
        if n != name or v is None:
            continue
        if isinstance(v, ast.Constant) and v.value is None:
            continue
        if isinstance(v, ast.Name):
            out.extend(_terminals(v.id, outer, depth + 1, seen | {name}))
        else:
            out.append(v)
    return out


def _role(expr: ast.AST):
    """('impl', kind) for `self.impl_instance.<kind>(...)` / `self.impl.<kind>(...)`; ('user', method) for
    `self.process_*`; None otherwise."""
    if isinstance(expr, ast.Call):
        d = dotted(expr.func) or ""
        parts = d.split(".")
        if len(parts) == 3 and parts[0] == "self" and parts[1] in ("impl_instance", "impl") and parts[2].endswith("_processor"):
            return ("impl", parts[2])
    if isinstance(expr, ast.Attribute):
        d = dotted(expr) or ""
        if d.startswith("self.process_"):
            return ("user", d.split(".", 1)[1])
    return None


def _composition(ret: ast.AST, inner_fn: ast.FunctionDef, outer: ast.AST):
    """[(role, which)] from the outermost call to the innermost for `return a(b(value, ..), ..)`;
    None when the expression is not a pure call chain over the processor's own parameter."""
    chain = []
    e = ret
    pname = inner_fn.args.args[0].arg
    while isinstance(e, ast.Call):
        roles = set()
        if isinstance(e.func, ast.Name):
            for t in _terminals(e.func.id, outer):
                r = _role(t)
                roles.add(r)
        else:
            roles.add(_role(e.func))
        if len(roles) != 1 or None in roles:
            return None
        chain.append(next(iter(roles)))
        if not e.args:
            return None
        e = e.args[0]
    if not (isinstance(e, ast.Name) and e.id == pname):
        return None
    return chain


@R.rule("C09-R1", floor=10, template="T-FLOW",
        desc="TypeDecorator processor composition: bind/literal = impl(user(value)), result = user(impl(value)); each "
             "stage at most once, kinds match; without a user hook the impl processor is returned as is")
def r1(ctx):
    cls = ctx.index.cls(TD)
    for meth, spec in KINDS.items():
        f = cls.methods.get(meth)
        if f is None:
            ctx.violation(f"{TD}.{meth}", f"TypeDecorator.{meth} is not defined: user hooks would never run", cls.loc)
            continue
        ctx.functions_analysed.add(f.key)
        pm = f.module.parents()
        inner = sorted((n for n in walk_local(f.node) if isinstance(n, ast.FunctionDef)), key=lambda n: n.lineno)
        ctx.require(inner, f"{meth}: no generated processor function")
        for i, fn in enumerate(inner, 1):
            key = f"{f.key}:process#{i}"
            loc = f"{f.module.path}:{fn.lineno}"
            rets = [r for r in ast.walk(fn) if isinstance(r, ast.Return) and r.value is not None]
            ctx.require(len(rets) == 1 and len(fn.body) == 1, f"{key}: generated processor is not a single return")
            chain = _composition(rets[0].value, fn, f.node)
            ctx.require(chain is not None, f"{key}: `{unparse(rets[0].value)[:80]}` is not a call chain over known stages")
            roles = [r for r, _ in chain]
            problems = []
            if roles.count("user") != 1:
                problems.append(f"user hook applied {roles.count('user')} times")
            if roles.count("impl") > 1:
                problems.append(f"impl processor applied {roles.count('impl')} times")
            want = ["impl", "user"] if spec["order"] == "impl(user)" else ["user", "impl"]
            if len(roles) == 2 and roles != want:
                problems.append(f"order is {roles[0]}({roles[1]}(value)), documented {spec['order']}")
            for r, which in chain:
                if r == "impl" and which != spec["impl"]:
                    problems.append(f"wraps the impl's {which}, not its {spec['impl']}")
                if r == "user" and which not in spec["user"]:
                    problems.append(f"calls {which}, not {'/'.join(sorted(spec['user']))}")
            # a variant without the impl stage is only generated when the impl has no processor
            if "impl" not in roles:
                atoms = guard_atoms(lexical_guards(pm, fn, stop=f.node))
                if not any(p is False and a.endswith("impl_processor") for a, p in atoms):
                    problems.append("impl stage omitted although an impl processor may exist")
            # the generated function is what is returned
            ctx.check(not problems, key, f"TypeDecorator.{meth}: " + "; ".join(problems),
                      " -> ".join(f"{r}:{w}" for r, w in chain), loc)
        # fall-through: no user processing -> the impl's processor of the same kind, unchanged
        direct = [r for r in walk_local(f.node) if isinstance(r, ast.Return) and r.value is not None
                  and _role(r.value) is not None]
        good = len(direct) == 1 and _role(direct[0].value) == ("impl", spec["impl"])
        if good:
            # it must be the branch where no user hook is present: every enclosing test that mentions a
            # hook (`self._has_*_processor`, `process_*`) is taken on its false side
            hook_guards = [(t, pol) for t, pol in lexical_guards(pm, direct[0], stop=f.node)
                           if any(isinstance(x, (ast.Name, ast.Attribute)) and ("process_" in (dotted(x) or "") or "_has_" in (dotted(x) or ""))
                                  for x in ast.walk(t))]
            good = bool(hook_guards) and all(pol is False for t, pol in hook_guards)
        ctx.check(good, f"{f.key}:no-user-hook",
                  f"TypeDecorator.{meth} without a user hook does not return self.impl_instance.{spec['impl']}(...) unchanged "
                  f"({[unparse(r.value)[:60] for r in direct]})",
                  f"returns impl {spec['impl']} as is", f.loc)
        # every generated processor is returned
        names = {fn.name for fn in inner}
        ret_names = [r.value.id for r in walk_local(f.node) if isinstance(r, ast.Return) and isinstance(r.value, ast.Name)]
        ctx.require(set(ret_names) <= names | {"None"}, f"{meth}: returns {ret_names}, expected the generated processors")


def _returns_only_none(f: FuncInfo) -> bool:
    rets = [r for r in walk_local(f.node) if isinstance(r, ast.Return)]
    return all(r.value is None or (isinstance(r.value, ast.Constant) and r.value.value is None) for r in rets)


@R.rule("C09-R2", floor=43, template="T-SIBLING/T-TABLE",
        desc="a type that defines bind_processor resolves (MRO) to a non-default result_processor unless listed as "
             "write-only; processors.py re-exports exactly the public names of _processors_cy.py; every "
             "processors.<name> used in the package exists; shared processors pass None through")
def r2(ctx):
    ix = ctx.index
    te = ix.cls(f"{TA}::TypeEngine")
    base_result = te.methods.get("result_processor")
    ctx.require(base_result is not None, "TypeEngine.result_processor not found")
    seen_exc = set()
    for c in sorted(ix.all_classes(), key=lambda c: c.key):
        if c is te or te not in ix.mro(c) or c.key == TD:
            continue
        b = c.methods.get("bind_processor")
        if b is None or b.type_only or _returns_only_none(b):
            continue
        ctx.functions_analysed.add(b.key)
        rr = ix.resolve_method(c, "result_processor")
        key = c.key
        if key in R2_EXCEPTIONS:
            seen_exc.add(key)
            ctx.check(rr is base_result, key, "listed as write-only but now has a result_processor: remove it from R2_EXCEPTIONS",
                      "exempt: " + R2_EXCEPTIONS[key], c.loc, nontrivial=False)
            continue
        ok = rr is not None and rr is not base_result
        ctx.check(ok, key,
                  f"{c.qualname} transforms bound values (bind_processor) but selects them back with the default (absent) "
                  f"result_processor: values do not round-trip",
                  f"result_processor from {rr.cls.qualname if rr is not None and rr.cls else '?'}", c.loc)
    for k in R2_EXCEPTIONS:
        ctx.require(k in seen_exc, f"exception entry {k} no longer matches a class that defines bind_processor")
    # re-exports
    pm_ = ix.module(PROC)
    cy = ix.module(PCY)
    public = {n for n in list(cy.functions) + list(cy.classes) if not n.startswith("_")}
    reexp = {local for local, imp in pm_.imports.items() if imp[0] == "symbol" and imp[1].endswith("._processors_cy")}
    wrong = {local: imp[2] for local, imp in pm_.imports.items()
             if imp[0] == "symbol" and imp[1].endswith("._processors_cy") and imp[2] not in public}
    ctx.check(reexp == public and not wrong, f"{PROC}:re-exports",
              f"engine/processors.py re-exports {sorted(reexp)} but _processors_cy.py defines {sorted(public)} "
              f"(missing {sorted(public - reexp)}, unknown {sorted(reexp - public) or wrong})",
              f"{len(public)} names re-exported", pm_.path)
    # every processors.<name> reference resolves
    refs, bad = 0, []
    defined = set(pm_.functions) | set(pm_.classes) | set(pm_.assigns) | set(pm_.imports)
    for m in ix.all_modules():
        imp = m.imports.get("processors")
        if not imp:
            continue
        target = imp[1] + ("." + imp[2] if imp[0] == "symbol" else "")
        if not target.endswith("engine.processors"):
            continue
        for node in ast.walk(m.tree):
            if isinstance(node, ast.Attribute) and isinstance(node.value, ast.Name) and node.value.id == "processors":
                refs += 1
                if node.attr not in defined:
                    bad.append(f"{m.relpath}:{node.lineno} processors.{node.attr}")
    ctx.check(not bad and refs > 0, f"{PROC}:references",
              f"references to names engine/processors.py does not define: {bad}", f"{refs} references resolve", pm_.path)
    # None passes through every shared processor
    funcs = [f for n, f in sorted(cy.functions.items()) if not n.startswith("_")]
    for cname, c in sorted(cy.classes.items()):
        if not cname.startswith("_") and "__call__" in c.methods:
            funcs.append(c.methods["__call__"])
    for f in funcs:
        ctx.functions_analysed.add(f.key)
        p = [x for x in f.params if x != "self"]
        ctx.require(p, f"{f.key} takes no value")
        g = ctx.cfg(f)
        none_paths_ok = True
        found_test = False
        for n in g.nodes:
            if n.kind == "test" and unparse(n.stmt.test).replace(" ", "") == f"{p[0]}isNone":
                found_test = True
                succ_true = [b for b, lab in g.succ[n.id] if lab == "true"]
                # every return reachable on the None branch (before any merge) returns None
                for b in g.reachable(succ_true):
                    nb = g.node(b)
                    if nb.kind == "stmt" and isinstance(nb.stmt, ast.Return) and (f"{p[0]} is None", True) in guard_atoms(g.edge_guards(b)):
                        v = nb.stmt.value
                        if not (v is None or (isinstance(v, ast.Constant) and v.value is None)):
                            none_paths_ok = False
                # and the test dominates every other return
                for m_ in g.nodes:
                    if m_.kind == "stmt" and isinstance(m_.stmt, ast.Return) and g.always_preceded(m_.id, [n.id]) is not None:
                        none_paths_ok = False
        ctx.check(found_test and none_paths_ok, f"{f.key}:none-passthrough",
                  f"{f.qualname} does not return None for a None input before converting (NULL would raise or be converted)",
                  f"`if {p[0]} is None: return None` first", f.loc)


# ---------------------------------------------------------------------- self-test battery
R.mutant("bind-impl-inside-user", TA,
         sub("                def process(value: Optional[_T]) -> Any:\n                    return fixed_impl_processor(\n                        fixed_process_param(value, dialect)\n                    )",
             "                def process(value: Optional[_T]) -> Any:\n                    return fixed_process_param(\n                        fixed_impl_processor(value), dialect\n                    )"), "C09-R1")
R.mutant("result-user-inside-impl", TA,
         sub("                    return fixed_process_value(\n                        fixed_impl_processor(value), dialect\n                    )",
             "                    return fixed_impl_processor(\n                        fixed_process_value(value, dialect)\n                    )"), "C09-R1")
R.mutant("bind-user-applied-twice", TA,
         sub("                def process(value: Optional[_T]) -> Any:\n                    return fixed_process_param(value, dialect)\n",
             "                def process(value: Optional[_T]) -> Any:\n                    return fixed_process_param(\n                        fixed_process_param(value, dialect), dialect\n                    )\n"), "C09-R1")
R.mutant("result-wraps-bind-impl", TA,
         sub("            impl_processor = self.impl_instance.result_processor(\n                dialect, coltype\n            )", "            impl_processor = self.impl_instance.bind_processor(dialect)"), "C09-R1")
R.mutant("bind-uses-result-hook", TA,
         sub("        if self._has_bind_processor:\n            process_param = self.process_bind_param\n            impl_processor = self.impl_instance.bind_processor(dialect)",
             "        if self._has_bind_processor:\n            process_param = self.process_result_value\n            impl_processor = self.impl_instance.bind_processor(dialect)"), "C09-R1")
R.mutant("result-no-hook-returns-bind", TA,
         sub("        else:\n            return self.impl_instance.result_processor(dialect, coltype)", "        else:\n            return self.impl_instance.bind_processor(dialect)"), "C09-R1")
R.mutant("literal-skips-impl", TA,
         sub("                def process(value: Any) -> str:\n                    return fixed_impl_processor(\n                        fixed_process_bind_param(value, dialect)\n                    )",
             "                def process(value: Any) -> str:\n                    return fixed_process_bind_param(value, dialect)"), "C09-R1")
R.mutant("uuid-result-processor-removed", "dialects/mssql/base.py",
         sub("class MSUUid(sqltypes.Uuid):", "class MSUUid(sqltypes.TypeEngine):"), "C09-R2")
R.mutant("benign-class-attr-added", "sql/sqltypes.py",
         sub("class Interval(Emulated, _AbstractInterval, TypeDecorator[dt.timedelta]):", "class Interval(Emulated, _AbstractInterval, TypeDecorator[dt.timedelta]):\n    _c09_marker = 1"), None)
R.mutant("processors-reexport-dropped", PROC,
         sub("from ._processors_cy import to_str as to_str  # noqa: F401\n", ""), "C09-R2")
R.mutant("processors-unknown-name-used", "sql/sqltypes.py",
         sub("processors.int_to_boolean", "processors.int_to_bool"), "C09-R2")
R.mutant("to-float-converts-none", PCY,
         sub("def to_float(value: Any) -> Optional[float]:\n    if value is None:\n        return None\n    return float(value)",
             "def to_float(value: Any) -> Optional[float]:\n    return float(value)"), "C09-R2")
R.mutant("str-to-date-none-to-min", PCY,
         sub("def str_to_date(value: Optional[str]) -> Optional[date_cls]:\n    if value is None:\n        return None\n",
             "def str_to_date(value: Optional[str]) -> Optional[date_cls]:\n    if value is None:\n        return date_cls.min\n"), "C09-R2")
# benign
R.mutant("benign-rename-fixed-locals", TA,
         sub("                fixed_process_value = process_value\n                fixed_impl_processor = impl_processor\n\n                def process(value: Any) -> Optional[_T]:\n                    return fixed_process_value(\n                        fixed_impl_processor(value), dialect\n                    )",
             "                user_stage = process_value\n                impl_stage = impl_processor\n\n                def process(value: Any) -> Optional[_T]:\n                    return user_stage(impl_stage(value), dialect)"), None)
R.mutant("benign-processor-else", PCY,
         sub("def to_str(value: Any) -> Optional[str]:\n    if value is None:\n        return None\n    return str(value)",
             "def to_str(value: Any) -> Optional[str]:\n    if value is None:\n        return None\n    else:\n        return str(value)"), None)
