"""C20 -- Database URLs round-trip through their string form (writer/reader agreement)."""

from __future__ import annotations

import ast
import re
import re._parser as sre_parse
import string

from ..astutil import call_name, calls_in, dotted, returns_of, unparse, walk_local
from ..report import Registry, sub
from ._helpers_rules_a import self_attr

R = Registry(
    "C20",
    title="Database URLs round-trip through their string form",
    decides=(
        "URL.render_as_string percent-encodes exactly the components that _parse_url decodes, with matching "
        "codecs (quote<->unquote, quote_plus<->parse_qsl); every character that delimits or is excluded from a "
        "component's group in the _parse_url regex (plus '%') is always escaped by the writer's quote(safe=...) "
        "call for that component; regex group names map onto URL.create parameters; __eq__ compares all seven "
        "fields, __hash__ depends only on them, __copy__ passes all of them in order; hosts containing ':' are "
        "bracketed by the writer and only bracketed hosts may contain ':' for the reader; port is str()/int()."
    ),
    not_decided="round trip of urllib quote/unquote themselves over full unicode; validity of host syntax.",
)

URLPY = "engine/url.py"
ALWAYS_SAFE = set(string.ascii_letters + string.digits + "_.-~")  # urllib.parse.quote documentation
ENCODED = ("username", "password", "database")
PAIRS = {"quote": {"unquote"}, "quote_plus": {"unquote_plus", "parse_qsl"}}


def _parts(e):
    """Flatten a string-building expression into [('const', s) | ('expr', text, node)]."""
    if isinstance(e, ast.BinOp) and isinstance(e.op, ast.Add):
        return _parts(e.left) + _parts(e.right)
    if isinstance(e, ast.JoinedStr):
        out = []
        for p in e.values:
            if isinstance(p, ast.Constant):
                out.append(("const", str(p.value), p))
            else:
                out.append(("expr", unparse(p.value), p.value))
        return out
    if isinstance(e, ast.Constant) and isinstance(e.value, str):
        return [("const", e.value, e)]
    return [("expr", unparse(e), e)]


def _self_fields_in(node):
    return {self_attr(n) for n in ast.walk(node) if self_attr(n) is not None}


def _writer_codecs(ctx, f):
    """component -> list of (codec name, safe string or None, call node) found in render_as_string."""
    out = {}
    for c in calls_in(f.node, into_nested=True):
        nm = call_name(c)
        if nm not in ("quote", "quote_plus", "urllib.parse.quote", "urllib.parse.quote_plus"):
            continue
        nm = nm.rsplit(".", 1)[-1]
        safe = None
        for k in c.keywords:
            if k.arg == "safe":
                ctx.require(isinstance(k.value, ast.Constant) and isinstance(k.value.value, str),
                            f"safe= of `{unparse(c)}` is not a string constant")
                safe = k.value.value
        if len(c.args) > 1:
            ctx.require(isinstance(c.args[1], ast.Constant), f"safe argument of `{unparse(c)}` not constant")
            safe = c.args[1].value
        if safe is None:
            safe = "/" if nm == "quote" else ""
        fields = _self_fields_in(c.args[0])
        if fields:
            for fld in fields:
                out.setdefault(fld, []).append((nm, safe, c))
        else:
            out.setdefault("query", []).append((nm, safe, c))  # loop variables over self.query
    return out


def _reader_codecs(ctx, f):
    """component -> set of decoder names applied in _parse_url."""
    out = {}
    pm = f.module.parents()
    for c in calls_in(f.node):
        nm = (call_name(c) or "").rsplit(".", 1)[-1]
        if nm not in ("unquote", "unquote_plus", "parse_qsl", "parse_qs", "int"):
            continue
        if not c.args:
            continue
        a = c.args[0]
        if not (isinstance(a, ast.Subscript) and isinstance(a.value, ast.Name)):
            continue
        idx = a.slice
        comps = []
        if isinstance(idx, ast.Constant):
            comps = [idx.value]
        elif isinstance(idx, ast.Name):
            # loop variable over a constant tuple
            cur = pm.get(c)
            while cur is not None and not (isinstance(cur, ast.For) and isinstance(cur.target, ast.Name) and cur.target.id == idx.id):
                cur = pm.get(cur)
            ctx.require(cur is not None and isinstance(cur.iter, (ast.Tuple, ast.List))
                        and all(isinstance(e, ast.Constant) for e in cur.iter.elts),
                        f"_parse_url: cannot enumerate the components decoded by `{unparse(c)}`")
            comps = [e.value for e in cur.iter.elts]
        for comp in comps:
            out.setdefault(comp, set()).add(nm)
    return out


@R.rule("C20-R1", floor=9, template="T-TABLE",
        desc="components encoded by render_as_string = components decoded by _parse_url, with matching codec; "
             "regex group names map onto URL.create parameters")
def r1(ctx):
    w = ctx.func(f"{URLPY}::URL.render_as_string")
    r = ctx.func(f"{URLPY}::_parse_url")
    wc = _writer_codecs(ctx, w)
    rc = _reader_codecs(ctx, r)
    fields = _url_fields(ctx)
    for comp in fields:
        key = f"{URLPY}::URL:{comp}"
        enc = {nm for nm, _, _ in wc.get(comp, [])}
        dec = {d for d in rc.get(comp, set()) if d != "int"}
        if not enc and not dec:
            ctx.ok(key, "written raw, read raw")
            continue
        if not enc:
            ctx.violation(key, f"_parse_url decodes `{comp}` with {sorted(dec)} but render_as_string writes it unencoded "
                               f"(a literal '%41' in the value would come back as 'A')", w.loc)
            continue
        if not dec:
            ctx.violation(key, f"render_as_string encodes `{comp}` with {sorted(enc)} but _parse_url never decodes it", r.loc)
            continue
        bad = [(e, sorted(dec)) for e in enc if not (PAIRS.get(e, set()) & dec) or (dec - PAIRS.get(e, set()))]
        ctx.check(not bad, key,
                  f"codec mismatch for `{comp}`: written with {sorted(enc)}, read with {sorted(dec)} "
                  f"('+' and ' ' mean different things on the two sides)",
                  f"{sorted(enc)} <-> {sorted(dec)}", w.loc)
    # blank query values: the writer emits `key=` for an empty value; urllib's parse_qsl drops such pairs
    # unless keep_blank_values is set
    skips_blank = False
    for n in walk_local(w.node, into_nested=True):
        if isinstance(n, ast.comprehension) and any(True for _ in n.ifs):
            skips_blank = True  # a filter in the query generator: assume it may skip empties (conservative: unknown)
    qsl = [c for c in calls_in(r.node) if (call_name(c) or "").rsplit(".", 1)[-1] in ("parse_qsl", "parse_qs")]
    if qsl and not skips_blank:
        keeps = all(any(k.arg == "keep_blank_values" and isinstance(k.value, ast.Constant) and k.value.value is True
                        for k in c.keywords) or (len(c.args) > 1 and isinstance(c.args[1], ast.Constant) and c.args[1].value is True)
                    for c in qsl)
        ctx.check(keeps, f"{URLPY}::URL:query:blank-values",
                  "render_as_string writes an empty query value as `key=` but _parse_url calls parse_qsl() without "
                  "keep_blank_values=True, which silently drops the pair",
                  "parse_qsl(keep_blank_values=True)", r.loc)
    elif qsl:
        ctx.error("render_as_string filters query items; blank-value agreement must be re-derived")
    # group names -> create() parameters
    pat, flags = _regex(ctx, r)
    groups = set(sre_parse.parse(pat, flags).state.groupdict)
    create = ctx.func(f"{URLPY}::URL.create")
    cparams = [p for p in create.params if p != "cls"]
    popped, assigned = set(), set()
    for n in walk_local(r.node):
        if isinstance(n, ast.Call) and isinstance(n.func, ast.Attribute) and n.func.attr == "pop" and n.args \
                and isinstance(n.args[0], ast.Constant):
            popped.add(n.args[0].value)
        if isinstance(n, ast.Assign) and isinstance(n.targets[0], ast.Subscript) and isinstance(n.targets[0].slice, ast.Constant):
            assigned.add(n.targets[0].slice.value)
    final = (groups - popped) | assigned
    ctx.check(final == set(cparams[1:]), f"{r.key}:groups->create",
              f"keys passed to URL.create(**components) are {sorted(final)}, create() takes {cparams[1:]}",
              f"{sorted(final)}", r.loc)


def _url_fields(ctx):
    cls = ctx.index.cls(f"{URLPY}::URL")
    fields = [st.target.id for st in cls.node.body
              if isinstance(st, ast.AnnAssign) and isinstance(st.target, ast.Name) and st.value is None]
    ctx.require(len(fields) >= 7, f"URL NamedTuple fields not found ({fields})")
    return fields


def _regex(ctx, f):
    for c in calls_in(f.node):
        if call_name(c) == "re.compile" and c.args and isinstance(c.args[0], ast.Constant) and isinstance(c.args[0].value, str):
            flags = 0
            for a in c.args[1:]:
                for part in (a.left, a.right) if isinstance(a, ast.BinOp) and isinstance(a.op, ast.BitOr) else (a,):
                    d = dotted(part)
                    ctx.require(d in ("re.X", "re.VERBOSE", "re.I", "re.IGNORECASE"), f"unknown regex flag `{unparse(part)}`")
                    flags |= getattr(re, d.split(".")[1])
            return c.args[0].value, flags
    ctx.error("_parse_url: no re.compile(<string constant>) found")


# ---- regex structure ---------------------------------------------------------------------------
LIT, NOTLIT, IN_, ANY, REP, MINREP, SUBP, BRANCH, NEG, CAT, RANGE, AT = (
    sre_parse.LITERAL, sre_parse.NOT_LITERAL, sre_parse.IN, sre_parse.ANY, sre_parse.MAX_REPEAT, sre_parse.MIN_REPEAT,
    sre_parse.SUBPATTERN, sre_parse.BRANCH, sre_parse.NEGATE, sre_parse.CATEGORY, sre_parse.RANGE, sre_parse.AT)


def _first(seq):
    """(set of literal chars that can start seq, nullable)."""
    out = set()
    for op, av in seq:
        f, nullable = _first_item(op, av)
        out |= f
        if not nullable:
            return out, False
    return out, True


def _first_item(op, av):
    if op is LIT:
        return {chr(av)}, False
    if op in (NOTLIT, IN_, ANY):
        return set(), False
    if op in (REP, MINREP):
        lo, hi, sub_ = av
        f, n = _first(sub_)
        return f, n or lo == 0
    if op is SUBP:
        return _first(av[3])
    if op is BRANCH:
        out, nullable = set(), False
        for alt in av[1]:
            f, n = _first(alt)
            out |= f
            nullable = nullable or n
        return out, nullable
    if op is AT:
        return set(), True
    return set(), False


def _locate(seq, gid, trail=()):
    """Path to SUBPATTERN gid: list of (sequence, index) from outermost to innermost."""
    for i, (op, av) in enumerate(seq):
        here = trail + ((seq, i),)
        if op is SUBP:
            if av[0] == gid:
                return here
            r = _locate(av[3], gid, here)
            if r:
                return r
        elif op in (REP, MINREP):
            r = _locate(av[2], gid, here)
            if r:
                return r
        elif op is BRANCH:
            for alt in av[1]:
                r = _locate(alt, gid, here)
                if r:
                    return r
    return None


def _follow(tree, gid):
    path = _locate(tree, gid)
    out = set()
    for seq, i in reversed(path):
        f, nullable = _first(list(seq)[i + 1:])
        out |= f
        if not nullable:
            break
    return out


def _preceding_literal(tree, gid):
    path = _locate(tree, gid)
    seq, i = path[-1]
    items = list(seq)
    if i > 0 and items[i - 1][0] is LIT:
        return chr(items[i - 1][1])
    return None


def _group_class(tree, gid):
    """('neg', chars) | ('any', set()) | ('pos', None) for a group that is one repeated character class."""
    path = _locate(tree, gid)
    seq, i = path[-1]
    sub_ = list(list(seq)[i][1][3])
    if len(sub_) != 1 or sub_[0][0] not in (REP, MINREP):
        return None
    inner = list(sub_[0][1][2])
    if len(inner) != 1:
        return None
    op, av = inner[0]
    if op is NOTLIT:
        return ("neg", {chr(av)})
    if op is ANY:
        return ("any", set())
    if op is IN_:
        if av and av[0][0] is NEG:
            chars = set()
            for o, a in av[1:]:
                if o is LIT:
                    chars.add(chr(a))
                else:
                    return None
            return ("neg", chars)
        return ("pos", None)
    return None


QSL_SPECIAL = {"&", "=", "+", "%", "#"}  # urllib.parse.parse_qsl: separators, space encoding, escapes


@R.rule("C20-R2", floor=4, template="T-TABLE (re._parser)",
        desc="for username/password/database: characters excluded from / delimiting the regex group, and '%', "
             "are outside safe ∪ unreserved of the quote() call that writes the component; query keys/values are "
             "written with a codec that escapes the query-string delimiters")
def r2(ctx):
    w = ctx.func(f"{URLPY}::URL.render_as_string")
    r = ctx.func(f"{URLPY}::_parse_url")
    pat, flags = _regex(ctx, r)
    try:
        tree = sre_parse.parse(pat, flags)
    except Exception as e:
        ctx.error(f"_parse_url regex does not parse: {e}")
    gd = tree.state.groupdict
    wc = _writer_codecs(ctx, w)
    for comp in ENCODED:
        key = f"{URLPY}::URL:{comp}:delimiters"
        ctx.require(comp in gd, f"regex has no group `{comp}`")
        gc = _group_class(tree, gd[comp])
        ctx.require(gc is not None and gc[0] in ("neg", "any"), f"group `{comp}` is not a repeated negated class")
        dangerous = set(gc[1]) | _follow(tree, gd[comp]) | {"%"}
        calls = wc.get(comp, [])
        if not calls:
            ctx.violation(key, f"`{comp}` is written without percent-encoding although {sorted(dangerous)} delimit it", w.loc)
            continue
        problems = []
        for nm, safe, c in calls:
            leak = dangerous & (set(safe) | ALWAYS_SAFE)
            if leak:
                problems.append(f"`{unparse(c)}` leaves {sorted(leak)} unescaped, but the reader's group for `{comp}` "
                                f"stops at / excludes {sorted(dangerous - {'%'})}")
        ctx.check(not problems, key, "; ".join(problems),
                  f"dangerous {sorted(dangerous)} all escaped (safe={[s for _, s, _ in calls]})", w.loc)
    key = f"{URLPY}::URL:query:delimiters"
    calls = wc.get("query", [])
    ctx.require(calls, "render_as_string: query keys/values are not encoded by a recognisable call")
    problems = []
    for nm, safe, c in calls:
        unescaped = set(safe) | ALWAYS_SAFE | ({"+"} if False else set())
        leak = QSL_SPECIAL & unescaped
        if nm == "quote":
            leak |= {"+"} & (set(safe) | set())  # plain quote keeps '+' only if listed; space becomes %20 (fine)
        if leak:
            problems.append(f"`{unparse(c)}` leaves {sorted(leak)} unescaped inside the query string")
    ctx.check(not problems and len(calls) >= 2, key, "; ".join(problems) or "query key or value is not encoded",
              "keys and values escape & = + % #", w.loc)


# ------------------------------------------------------------------------------------------ R3
@R.rule("C20-R3", floor=3, template="T-TABLE",
        desc="URL.__eq__ compares every NamedTuple field; __hash__ depends only on those fields; __copy__ passes "
             "every field to create() in parameter order")
def r3(ctx):
    fields = _url_fields(ctx)
    eq = ctx.func(f"{URLPY}::URL.__eq__")
    other = eq.params[1]
    compared = set()
    for n in walk_local(eq.node):
        if isinstance(n, ast.Compare) and len(n.ops) == 1 and isinstance(n.ops[0], ast.Eq):
            l, r_ = n.left, n.comparators[0]
            for a, b in ((l, r_), (r_, l)):
                if self_attr(a) is not None and isinstance(b, ast.Attribute) and isinstance(b.value, ast.Name) \
                        and b.value.id == other and b.attr == self_attr(a):
                    compared.add(self_attr(a))
    rets = returns_of(eq.node)
    conj = len(rets) == 1 and not any(isinstance(n, ast.BoolOp) and isinstance(n.op, ast.Or) for n in ast.walk(rets[0]))
    missing = [f for f in fields if f not in compared]
    ctx.check(not missing and conj, eq.key,
              f"__eq__ ignores field(s) {missing}" if missing else "__eq__ is not a pure conjunction",
              f"compares {sorted(compared)}", eq.loc)
    h = ctx.func(f"{URLPY}::URL.__hash__")
    rets = returns_of(h.node)
    ok = False
    detail = ""
    if len(rets) == 1 and isinstance(rets[0].value, ast.Call) and call_name(rets[0].value) == "hash" and rets[0].value.args:
        a = rets[0].value.args[0]
        if isinstance(a, ast.Call) and call_name(a) in ("str", "repr") and a.args and isinstance(a.args[0], ast.Name) \
                and a.args[0].id == "self":
            # str(self) -> __str__/__repr__ -> render_as_string: reads only fields
            w = ctx.func(f"{URLPY}::URL.render_as_string")
            reads = {x for x in _self_fields_in(w.node) if x not in ("render_as_string",)}
            extra = reads - set(fields)
            ok = not extra
            detail = f"hash(str(self)); render_as_string reads {sorted(reads)}"
            if extra:
                detail = f"string form depends on non-field attribute(s) {sorted(extra)}"
        elif isinstance(a, ast.Tuple):
            reads = {self_attr(e) for e in a.elts}
            ok = reads <= set(fields)
            detail = f"hash of {sorted(x for x in reads if x)}"
    ctx.check(ok, h.key, detail or "__hash__ is not hash(str(self)) / hash(tuple of fields)", detail, h.loc)
    cp = ctx.func(f"{URLPY}::URL.__copy__")
    create = ctx.func(f"{URLPY}::URL.create")
    cparams = [p for p in create.params if p != "cls"]
    calls = [c for c in calls_in(cp.node) if isinstance(c.func, ast.Attribute) and c.func.attr == "create"]
    ctx.require(len(calls) == 1, "__copy__ does not call create() exactly once")
    c = calls[0]
    passed = {}
    for p, a in zip(cparams, c.args):
        passed[p] = self_attr(a)
    for k in c.keywords:
        if k.arg:
            passed[k.arg] = self_attr(k.value)
    wrong = [f"{p}<-{passed.get(p)}" for p in cparams if passed.get(p) != p]
    ctx.check(not wrong and set(cparams) == set(fields), cp.key,
              f"__copy__ passes the wrong attribute for create() parameter(s): {wrong}", "all seven fields in order", cp.loc)


# ------------------------------------------------------------------------------------------ R4
@R.rule("C20-R4", floor=4, template="T-FLOW",
        desc="writer brackets the host iff it contains ':'; reader's bracketed host class admits ':' and the bare "
             "one excludes it; host = ipv4host or ipv6host; port written with str() after ':' and read with int()")
def r4(ctx):
    w = ctx.func(f"{URLPY}::URL.render_as_string")
    r = ctx.func(f"{URLPY}::_parse_url")
    pat, flags = _regex(ctx, r)
    tree = sre_parse.parse(pat, flags)
    gd = tree.state.groupdict
    # writer
    found = None
    for n in walk_local(w.node):
        if isinstance(n, ast.If) and isinstance(n.test, ast.Compare) and len(n.test.ops) == 1 \
                and isinstance(n.test.ops[0], (ast.In, ast.NotIn)) and self_attr(n.test.comparators[0]) == "host" \
                and isinstance(n.test.left, ast.Constant) and n.test.left.value == ":":
            found = n
    ctx.require(found is not None, "render_as_string: no `':' in self.host` test")
    pos, neg = (found.body, found.orelse) if isinstance(found.test.ops[0], ast.In) else (found.orelse, found.body)

    def appended(block):
        out = []
        for st in block:
            if isinstance(st, ast.AugAssign) and isinstance(st.op, ast.Add):
                out += [(k, t) for k, t, _ in _parts(st.value)]
        return out
    ctx.check(appended(pos) == [("const", "["), ("expr", "self.host"), ("const", "]")]
              and appended(neg) == [("expr", "self.host")],
              f"{w.key}:host-brackets",
              f"a host containing ':' is written as {appended(pos)}, other hosts as {appended(neg)}; expected "
              f"[host] and host", "':' in host -> [host]", w.loc)
    # reader
    ctx.require("ipv6host" in gd and "ipv4host" in gd, "regex lacks ipv4host/ipv6host groups")
    c6, c4 = _group_class(tree, gd["ipv6host"]), _group_class(tree, gd["ipv4host"])
    ctx.require(c6 and c4 and c6[0] == "neg" and c4[0] == "neg", "host groups are not negated classes")
    problems = []
    if _preceding_literal(tree, gd["ipv6host"]) != "[" or "]" not in _follow(tree, gd["ipv6host"]):
        problems.append("bracketed host group is not delimited by [ ]")
    if ":" in c6[1]:
        problems.append("bracketed host may not contain ':'")
    if ":" not in c4[1]:
        problems.append("bare host may contain ':' (cannot be told from the port separator)")
    if "]" in c4[1] or "[" in c4[1]:
        pass
    ctx.check(not problems, f"{r.key}:host-groups", "; ".join(problems), f"[{sorted(c6[1])}] vs bare {sorted(c4[1])}", r.loc)
    # host assembly
    ok = False
    for n in walk_local(r.node):
        if isinstance(n, ast.Assign) and isinstance(n.targets[0], ast.Subscript) and isinstance(n.targets[0].slice, ast.Constant) \
                and n.targets[0].slice.value == "host" and isinstance(n.value, ast.BoolOp) and isinstance(n.value.op, ast.Or):
            srcs = set()
            for v in n.value.values:
                if isinstance(v, ast.Name):
                    for m in walk_local(r.node):
                        if isinstance(m, ast.Assign) and isinstance(m.targets[0], ast.Name) and m.targets[0].id == v.id \
                                and isinstance(m.value, ast.Call) and m.value.args and isinstance(m.value.args[0], ast.Constant):
                            srcs.add(m.value.args[0].value)
            ok = srcs == {"ipv4host", "ipv6host"}
    ctx.check(ok, f"{r.key}:host", "components['host'] is not `ipv4host or ipv6host`", "host = ipv4host or ipv6host", r.loc)
    # port
    wport = False
    for n in walk_local(w.node):
        if isinstance(n, ast.AugAssign):
            p = [(k, t) for k, t, _ in _parts(n.value)]
            if p == [("const", ":"), ("expr", "str(self.port)")]:
                wport = True
    rc = _reader_codecs(ctx, r)
    rport = "int" in rc.get("port", set()) and _preceding_literal(tree, gd.get("port", -1)) == ":" if "port" in gd else False
    ctx.check(wport and rport, f"{URLPY}::URL:port",
              "port is not written as ':' + str(port) and read back with int() after ':'", "':' + str(port) <-> int()", w.loc)


# ------------------------------------------------------------------------------------------ self test
R.mutant("r1-password-not-unquoted", URLPY,
         sub('        for comp in "username", "password", "database":\n', '        for comp in "username", "database":\n'), "C20-R1")
R.mutant("r1-database-quote-plus", URLPY,
         sub('            s += "/" + quote(self.database, safe=" +/")\n', '            s += "/" + quote_plus(self.database)\n'), "C20-R1")
R.mutant("r1-host-unquoted-by-reader", URLPY,
         sub('        components["host"] = ipv4host or ipv6host\n', '        components["host"] = ipv4host or ipv6host\n        components["host"] = unquote(components["host"])\n'), "C20-R1")
R.mutant("r2-at-sign-safe-in-password", URLPY,
         sub('                    else quote(str(self.password), safe=" +")\n', '                    else quote(str(self.password), safe=" +@")\n'), "C20-R2")
R.mutant("r2-colon-safe-in-username", URLPY,
         sub('            s += quote(self.username, safe=" +")\n', '            s += quote(self.username, safe=" +:")\n'), "C20-R2")
R.mutant("r2-question-mark-safe-in-database", URLPY,
         sub('quote(self.database, safe=" +/")', 'quote(self.database, safe=" +/?")'), "C20-R2")
R.mutant("r3-eq-forgets-port", URLPY, sub("            and self.port == other.port\n", ""), "C20-R3")
R.mutant("r3-copy-swaps-host-database", URLPY,
         sub("            self.host,\n            self.port,\n            self.database,\n            # note this is",
             "            self.database,\n            self.port,\n            self.host,\n            # note this is"), "C20-R3")
R.mutant("r3-hash-includes-object-id", URLPY, sub("        return hash(str(self))\n", "        return hash((str(self), id(self)))\n"), "C20-R3")
R.mutant("r4-no-brackets", URLPY, sub('                s += f"[{self.host}]"\n', "                s += self.host\n"), "C20-R4")
R.mutant("r4-bare-host-admits-colon", URLPY, sub(r"(?P<ipv4host>[^/:\?]+)", r"(?P<ipv4host>[^/\?]+)"), "C20-R4")
R.mutant("r4-port-not-int", URLPY, sub('            components["port"] = int(components["port"])\n', '            components["port"] = components["port"]\n'), "C20-R4")
R.mutant("r1-query-written-with-plain-quote", URLPY,
         sub('                f"{quote_plus(k)}={quote_plus(element)}"\n', '                f"{quote(k)}={quote(element)}"\n'), "C20-R1")
# benign
R.mutant("benign-rename-accumulator", URLPY,
         sub('            s += "/" + quote(self.database, safe=" +/")\n', '            _db = quote(self.database, safe=" +/")\n            s += "/" + _db\n'), None)
R.mutant("benign-eq-reordered", URLPY,
         sub("            and self.database == other.database\n            and self.query == other.query\n",
             "            and other.query == self.query\n            and self.database == other.database\n"), None)
R.mutant("benign-stricter-safe", URLPY, sub('            s += quote(self.username, safe=" +")\n', '            s += quote(self.username, safe=" ")\n'), None)
