"""C20 -- Database URLs round-trip through their string form (writer/reader agreement)."""

from __future__ import annotations

import ast
import re
import re._parser as sre_parse
import string

from ..astutil import call_name, calls_in, dotted, func_defaults, name_stores, returns_of, unparse, walk_local
from ..index import FuncInfo
from ..report import Registry, chain, sub
from ._helpers_rules_a import self_attr
from ._helpers_rob_c1 import Opaque, Unsupported as _PyLiteUnsupported
from ._helpers_rob_e2 import explore_paths, local_defs, parts_of

R = Registry(
    "C20",
    title="Database URLs round-trip through their string form",
    decides=(
        "URL.render_as_string percent-encodes exactly the components that _parse_url decodes, with matching "
        "codecs (quote<->unquote, quote_plus<->parse_qsl); every character that delimits or is excluded from a "
        "component's group in the _parse_url regex (plus '%') is always escaped by the writer's quote(safe=...) "
        "call for that component; regex group names map onto URL.create parameters; __eq__ compares all seven "
        "fields, __hash__ depends only on them, __copy__ passes all of them in order; hosts containing ':' are "
        "bracketed by the writer and only bracketed hosts may contain ':' for the reader; port is str()/int(). "
        "Encoders are followed through helper functions of engine/url.py / methods of URL (arguments, defaults, "
        "module constants). Between make_url() and the regex, and between the regex groups and URL.create, the "
        "reader applies no str-normalising call (strip/lower/replace/...) that touches a character the writer "
        "emits literally (R5). '' is a value, not an absence (R6): wherever the text of a percent-encoded component "
        "(username / password / database), a query key / value, or what the reader's query accumulator holds for a key is "
        "tested for its truth value on the round-trip path (_parse_url and helpers, URL.create and its validators, "
        "render_as_string and helpers), both outcomes leave the same code to run for ''; presence is decided by "
        "`is None` / membership."
    ),
    not_decided="round trip of urllib quote/unquote themselves over full unicode; validity of host syntax; explicit "
                "normalisation such as `if x == '': x = None`; query values given as one-element / empty sequences "
                "(parsed back as str / dropped: representation, not text).",
)

URLPY = "engine/url.py"
ALWAYS_SAFE = set(string.ascii_letters + string.digits + "_.-~")  # urllib.parse.quote documentation
ENCODED = ("username", "password", "database")
PAIRS = {"quote": {"unquote"}, "quote_plus": {"unquote_plus", "parse_qsl"}}


def _parts(e):
    """Flatten a string-building expression into [('const', s) | ('expr', text, node)]."""
    if isinstance(e, ast.BinOp) and isinstance(e.op, ast.Add):
        return _parts(e.left) + _parts(e.right)
    if isinstance(e, ast.JoinedStr):
        out = []
        for p in e.values:
            if isinstance(p, ast.Constant):
                out.append(("const", str(p.value), p))
            else:
                out.append(("expr", unparse(p.value), p.value))
        return out
    if isinstance(e, ast.Constant) and isinstance(e.value, str):
        return [("const", e.value, e)]
    return [("expr", unparse(e), e)]


def _self_fields_in(node):
    return {self_attr(n) for n in ast.walk(node) if self_attr(n) is not None}


CODECS = ("quote", "quote_plus")
# callees that hand a str argument on unchanged / only collect or concatenate text (no encoding can hide in them)
TRANSPARENT = {"str", "join", "append", "extend", "insert", "format", "list", "tuple", "sorted", "reversed", "to_list",
               "cast", "items", "keys", "values", "get", "len", "isinstance"}
MAX_HELPER_DEPTH = 3


class _Closure:
    """An argument expression together with the bindings of the scope it was written in."""

    def __init__(self, node, env, origin):
        self.node, self.env, self.origin = node, env, origin


def _is_urllib_codec(mod, nm):
    if nm is None:
        return None
    last = nm.rsplit(".", 1)[-1]
    if last not in CODECS or last in mod.functions:
        return None
    head = nm.split(".", 1)[0]
    imp = mod.imports.get(head)
    if imp is None:
        return None
    if imp[0] == "symbol":
        return last if (imp[1], imp[2]) == ("urllib.parse", last) and nm == last else None
    return last if imp[1] in ("urllib", "urllib.parse") else None


def _fields_of(node, env, depth=0):
    """URL fields (self.<x>) an expression depends on, through the parameter bindings of followed helpers."""
    out = set(_self_fields_in(node))
    if depth > 8:
        return out
    for n in ast.walk(node):
        if isinstance(n, ast.Name) and n.id in env:
            out |= _fields_of(env[n.id].node, env[n.id].env, depth + 1)
    return out


def _str_const(ctx, node, env, mod, what):
    """(value, where it comes from) of an expression that must be a string constant."""
    if isinstance(node, ast.Constant) and isinstance(node.value, str):
        return node.value, None
    if isinstance(node, ast.Name) and node.id in env:
        cl = env[node.id]
        v, origin = _str_const(ctx, cl.node, cl.env, mod, what)
        return v, origin or cl.origin
    if isinstance(node, ast.BinOp) and isinstance(node.op, ast.Add):
        (a, oa), (b, ob) = _str_const(ctx, node.left, env, mod, what), _str_const(ctx, node.right, env, mod, what)
        return a + b, oa or ob
    if isinstance(node, ast.Name) and node.id in mod.assigns and len(mod.assigns[node.id]) == 1:
        v = ctx.ev.module_value(mod, node.id)
        if isinstance(v, str):
            return v, f"module constant {node.id}"
    ctx.error(f"{what}: `{unparse(node)}` is not a string constant that can be followed")


def _bind_call(ctx, target, call, env, bound_self):
    """parameter name -> _Closure for a call of `target` (positional, keyword, then defaults)."""
    a = target.node.args
    ctx.require(a.vararg is None and a.kwarg is None and not any(isinstance(x, ast.Starred) for x in call.args)
                and all(k.arg is not None for k in call.keywords),
                f"call `{unparse(call)}` of {target.qualname} uses */** arguments; cannot bind")
    pos = [x.arg for x in a.posonlyargs + a.args]
    if bound_self and pos:
        pos = pos[1:]
    out = {}
    ctx.require(len(call.args) <= len(pos), f"too many positional arguments in `{unparse(call)}`")
    for p, arg in zip(pos, call.args):
        out[p] = _Closure(arg, env, f"argument of `{unparse(call)}`")
    for k in call.keywords:
        out[k.arg] = _Closure(k.value, env, f"argument of `{unparse(call)}`")
    for p, d in func_defaults(target.node).items():
        if p not in out:
            out[p] = _Closure(d, {}, f"default of parameter `{p}` of {target.qualname}()")
    # single-assignment locals of the helper are bindings, too
    stores = {}
    for nm, val, _st in name_stores(target.node):
        stores.setdefault(nm, []).append(val)
    for nm, vals in stores.items():
        if nm not in out and len(vals) == 1 and vals[0] is not None:
            out[nm] = _Closure(vals[0], out, f"local `{nm}` of {target.qualname}()")
    return out


def _resolve_helper(ctx, call, fn):
    """FuncInfo of a callee defined next to the writer (same module / a method of the same class), else None."""
    nm = call_name(call)
    if nm is None:
        return None, False
    parts = nm.split(".")
    if fn.cls is not None and len(parts) == 2 and parts[0] in ("self", "cls", fn.cls.name):
        m = ctx.index.resolve_method(fn.cls, parts[1])
        if m is None:
            return None, False
        static = any(d.rsplit(".", 1)[-1] == "staticmethod" for d in m.decorators)
        return m, not static
    r = ctx.index.resolve(fn.module, nm)
    if isinstance(r, FuncInfo) and r.module is fn.module:
        return r, False
    return None, False


def _returns_unmodified(ctx, target, inner_calls):
    """every `return` of a followed helper hands back the encoder's result as is."""
    ids = {id(c) for c in inner_calls}
    locals_ok = {nm for nm, val, _ in name_stores(target.node) if val is not None and id(val) in ids}

    def ok(v):
        if v is None:
            return False
        if id(v) in ids or (isinstance(v, ast.Name) and v.id in locals_ok):
            return True
        if isinstance(v, ast.IfExp):
            return ok(v.body) and ok(v.orelse)
        return False
    rets = returns_of(target.node)
    return bool(rets) and all(ok(r_.value) for r_ in rets)


def _writer_codecs(ctx, f):
    """component -> list of (codec name, safe string, call node in the writer, how it was reached) for every
    urllib quote()/quote_plus() the writer applies, directly or through helper functions defined next to it
    (arguments, keyword arguments and parameter defaults are bound).  `out['?unfollowed']` maps components to
    calls that receive the component but could not be followed."""
    out = {"?unfollowed": {}}

    def visit(c, env, fn, depth, top, via):
        nm = call_name(c)
        codec = _is_urllib_codec(fn.module, nm)
        if codec:
            ctx.require(c.args, f"`{unparse(c)}`: no text argument")
            safe, origin = None, None
            for k in c.keywords:
                if k.arg == "safe":
                    safe, origin = _str_const(ctx, k.value, env, fn.module, f"safe= of `{unparse(c)}`")
            if len(c.args) > 1:
                safe, origin = _str_const(ctx, c.args[1], env, fn.module, f"safe argument of `{unparse(c)}`")
            if safe is None:
                safe, origin = ("/" if codec == "quote" else ""), f"urllib default of {codec}()"
            how = ""
            if via:
                how = f" -> `{unparse(c)}` in {via[-1]}() with safe={safe!r}" + (f" ({origin})" if origin else "")
            fields = _fields_of(c.args[0], env)
            ctx.require(fields, f"{fn.key}: cannot tell which URL component `{unparse(c)}` encodes")
            for fld in fields:
                out.setdefault(fld, []).append((codec, safe, top or c, how))
            return [c]
        target, bound_self = _resolve_helper(ctx, c, fn)
        if target is None or depth >= MAX_HELPER_DEPTH:
            last = c.func.attr if isinstance(c.func, ast.Attribute) else (nm or "").rsplit(".", 1)[-1]
            if last not in TRANSPARENT:
                for a in list(c.args) + [k.value for k in c.keywords]:
                    for fld in _fields_of(a, env):
                        out["?unfollowed"].setdefault(fld, []).append(unparse(top or c))
            return []
        ctx.functions_analysed.add(target.key)
        env2 = _bind_call(ctx, target, c, env, bound_self)
        found = []
        for c2 in calls_in(target.node):
            if visit(c2, env2, target, depth + 1, top or c, via + [target.qualname]):
                found.append(c2)
        if found:
            ctx.require(_returns_unmodified(ctx, target, found),
                        f"{target.key}: the helper does not return the result of its encoder call unchanged; "
                        f"post-processing of percent-encoded text is not understood")
            return [c]
        return []

    top = _local_env(f.node)
    for c in calls_in(f.node, into_nested=True):
        visit(c, top, f, 0, None, [])
    return out


def _local_env(fn_node):
    """name -> _Closure for the writer's own single-assignment locals (`host = self.host`, `keys = sorted(query)`) and
    for loop / comprehension targets (bound to the sequence they run over): a component that reaches its encoder
    through a local alias is still that component."""
    env = {}
    for nm, val in local_defs(fn_node).items():
        env[nm] = _Closure(val, env, f"local `{nm}`")
    # `user, pw = self.username, self.password`
    counts = {}
    for nm, _v, _st in name_stores(fn_node):
        counts[nm] = counts.get(nm, 0) + 1
    for n in walk_local(fn_node):
        if isinstance(n, ast.Assign) and len(n.targets) == 1 and isinstance(n.targets[0], ast.Tuple) and isinstance(n.value, ast.Tuple) \
                and len(n.targets[0].elts) == len(n.value.elts):
            for t, v in zip(n.targets[0].elts, n.value.elts):
                if isinstance(t, ast.Name) and counts.get(t.id) == 1 and t.id not in env:
                    env[t.id] = _Closure(v, env, f"local `{t.id}`")
    for n in walk_local(fn_node, into_nested=True):
        if isinstance(n, (ast.comprehension, ast.For)):
            for t in _target_names(n.target):
                if t not in env:
                    env[t] = _Closure(n.iter, env, f"loop variable `{t}`")
    return env


STR_TO_STR = {"strip", "lstrip", "rstrip", "lower", "upper", "casefold", "replace", "removeprefix", "removesuffix", "title",
              "capitalize", "swapcase", "expandtabs", "translate", "format", "encode", "decode"}
DECODERS = ("unquote", "unquote_plus", "parse_qsl", "parse_qs", "int")
READER_HELPER_DEPTH = 2


class _RScope:
    """One function of the reader (`_parse_url` or a helper of engine/url.py it calls) with the bindings of its
    parameters: name -> (argument expression, scope of the caller).  `site` is the line in `_parse_url` of the call
    that leads here (None for `_parse_url` itself)."""

    def __init__(self, ctx, fn, params, site, depth):
        self.fn, self.params, self.site, self.depth = fn, params, site, depth
        self.defs = local_defs(fn.node)
        self.pm = fn.module.parents()
        self.g = ctx.cfg(fn)
        self._rd = None

    def reaching(self, expr, name):
        """values of the plain assignments `name = <value>` that can reach the evaluation of `expr` (a local name may be
        re-used: `for key, value in ...` earlier, `value = components[comp]` here); (value, cfg node) pairs; None when
        some reaching definition is not a plain assignment (loop target, parameter, unpacking)."""
        from ._helpers_rob_c2 import ReachingDefs
        from ..cfg import no_exc
        if self._rd is None:
            self._rd = ReachingDefs(self.g, self.fn.node, edge_ok=no_exc)
        nodes = self.g.nodes_containing(expr)
        if not nodes:
            return None
        ds = self._rd.at(nodes[0], name)
        if not ds or any(d.kind != "assign" or d.path != () or d.value is None for d in ds):
            return None
        return [d.value for d in ds]


def _reader_scopes(ctx, f):
    """`_parse_url` and the module-level helpers it hands (parts of) the match to, one or two calls deep."""
    cache = ctx.__dict__.setdefault("_c20_reader_scopes", {})
    if f.key in cache:
        return cache[f.key]
    out, work, seen = [], [_RScope(ctx, f, {}, None, 0)], {f.key}
    while work:
        sc = work.pop(0)
        out.append(sc)
        if sc.depth >= READER_HELPER_DEPTH:
            continue
        for c in calls_in(sc.fn.node):
            target, _bs = _resolve_helper(ctx, c, sc.fn)
            if target is None or target.cls is not None or target.key in seen:
                continue
            a = target.node.args
            pos = [x.arg for x in a.posonlyargs + a.args]
            if any(isinstance(x, ast.Starred) for x in c.args) or any(k.arg is None for k in c.keywords):
                continue
            params = {p: (arg, sc) for p, arg in list(zip(pos, c.args)) + [(k.arg, k.value) for k in c.keywords]}
            seen.add(target.key)
            ctx.functions_analysed.add(target.key)
            work.append(_RScope(ctx, target, params, c.lineno if sc.site is None else sc.site, sc.depth + 1))
    cache[f.key] = out
    return out


def _loop_consts(sc, node, name):
    """constants a loop / comprehension variable `name` visible at `node` runs over, or None."""
    cur = sc.pm.get(node)
    while cur is not None:
        its = []
        if isinstance(cur, ast.For) and name in _target_names(cur.target):
            its = [cur.iter]
        elif isinstance(cur, (ast.ListComp, ast.SetComp, ast.GeneratorExp, ast.DictComp)):
            its = [g_.iter for g_ in cur.generators if name in _target_names(g_.target)]
        for it in its:
            it = sc.defs.get(it.id, it) if isinstance(it, ast.Name) else it
            if isinstance(it, (ast.Tuple, ast.List, ast.Set)) and it.elts and all(isinstance(e, ast.Constant) for e in it.elts):
                return [e.value for e in it.elts]
            return None
        if cur is sc.fn.node:
            break
        cur = sc.pm.get(cur)
    return None


def _groups_of(expr, sc, depth=0):
    """names of the regex groups / components whose text `expr` carries: `d["x"]`, `d.pop("x")`, `m.group("x")`, a
    loop variable subscript over constant names, a local alias or a helper parameter bound to one of those, `a or b`,
    `a if c else b`, `str(a)`.  Empty set: not the text of a component (or not understood)."""
    if depth > 8 or expr is None:
        return set()
    if isinstance(expr, ast.Subscript) or (isinstance(expr, ast.Call) and isinstance(expr.func, ast.Attribute)
                                           and expr.func.attr in ("pop", "get", "group") and expr.args):
        k = expr.slice if isinstance(expr, ast.Subscript) else expr.args[0]
        if isinstance(k, ast.Constant) and isinstance(k.value, str):
            return {k.value}
        if isinstance(k, ast.Name):
            consts = _loop_consts(sc, expr, k.id)
            if consts is not None:
                return {c for c in consts if isinstance(c, str)}
            v = sc.defs.get(k.id)
            if isinstance(v, ast.Constant) and isinstance(v.value, str):
                return {v.value}
        return set()
    if isinstance(expr, ast.Call) and isinstance(expr.func, ast.Name) and expr.func.id in ("str", "cast") and expr.args:
        return _groups_of(expr.args[-1], sc, depth + 1)
    if isinstance(expr, ast.Call) and isinstance(expr.func, ast.Attribute) and expr.func.attr in STR_TO_STR:
        return _groups_of(expr.func.value, sc, depth + 1)   # still (a normalisation of) that component's text; R5 judges it
    if isinstance(expr, ast.BoolOp):
        if isinstance(expr.op, ast.And):      # `x and f(x)`: the value, when there is one, is the last operand
            return _groups_of(expr.values[-1], sc, depth + 1)
        out = set()
        for v in expr.values:
            out |= _groups_of(v, sc, depth + 1)
        return out
    if isinstance(expr, ast.IfExp):
        return _groups_of(expr.body, sc, depth + 1) | _groups_of(expr.orelse, sc, depth + 1)
    if isinstance(expr, ast.NamedExpr):
        return _groups_of(expr.value, sc, depth + 1)
    if isinstance(expr, ast.Name):
        if expr.id in sc.params:
            arg, parent = sc.params[expr.id]
            return _groups_of(arg, parent, depth + 1)
        if expr.id in sc.defs:
            return _groups_of(sc.defs[expr.id], sc, depth + 1)
        vals = sc.reaching(expr, expr.id)     # a re-used local: the assignments that reach this use
        if vals:
            out = set()
            for v in vals:
                out |= _groups_of(v, sc, depth + 1)
            return out
    return set()


def _reader_codecs(ctx, f):
    """component -> set of decoder names applied by the reader."""
    return {comp: {e[0] for e in v} for comp, v in _reader_codec_calls(ctx, f).items()}


def _reader_codec_calls(ctx, f):
    """component -> list of (decoder name, call node, scope) applied in _parse_url or in the helpers it calls."""
    out = {}
    for sc in _reader_scopes(ctx, f):
        for c in calls_in(sc.fn.node):
            nm = (call_name(c) or "").rsplit(".", 1)[-1]
            if nm not in DECODERS or not c.args:
                continue
            comps = _groups_of(c.args[0], sc)
            if not comps and nm != "int":
                ctx.error(f"{sc.fn.key}: cannot tell which URL component `{unparse(c)}` decodes")
            for comp in sorted(comps):
                out.setdefault(comp, []).append((nm, c, sc))
    return out


@R.rule("C20-R1", floor=9, template="T-TABLE",
        desc="components encoded by render_as_string = components decoded by _parse_url, with matching codec; "
             "regex group names map onto URL.create parameters")
def r1(ctx):
    w = ctx.func(f"{URLPY}::URL.render_as_string")
    r = ctx.func(f"{URLPY}::_parse_url")
    wc = _writer_codecs(ctx, w)
    rc = _reader_codecs(ctx, r)
    fields = _url_fields(ctx)
    for comp in fields:
        key = f"{URLPY}::URL:{comp}"
        enc = {nm for nm, _, _, _ in wc.get(comp, [])}
        dec = {d for g_ in [comp] + [g_ for g_, fld in GROUP_FIELD.items() if fld == comp]
               for d in rc.get(g_, set()) if d != "int"}
        if not enc and comp in wc["?unfollowed"]:
            ctx.error(f"render_as_string passes `{comp}` to {wc['?unfollowed'][comp]}, which is neither a urllib codec nor "
                      f"a helper defined in {URLPY}; cannot tell how `{comp}` is written")
        if not enc and not dec:
            ctx.ok(key, "written raw, read raw")
            continue
        if not enc:
            ctx.violation(key, f"_parse_url decodes `{comp}` with {sorted(dec)} but render_as_string writes it unencoded "
                               f"(a literal '%41' in the value would come back as 'A')", w.loc)
            continue
        if not dec:
            ctx.violation(key, f"render_as_string encodes `{comp}` with {sorted(enc)} but _parse_url never decodes it", r.loc)
            continue
        bad = [(e, sorted(dec)) for e in enc if not (PAIRS.get(e, set()) & dec) or (dec - PAIRS.get(e, set()))]
        ctx.check(not bad, key,
                  f"codec mismatch for `{comp}`: written with {sorted(enc)}, read with {sorted(dec)} "
                  f"('+' and ' ' mean different things on the two sides)",
                  f"{sorted(enc)} <-> {sorted(dec)}", w.loc)
    # blank query values: the writer emits `key=` for an empty value; urllib's parse_qsl drops such pairs
    # unless keep_blank_values is set
    skips_blank = False
    for n in walk_local(w.node, into_nested=True):
        if isinstance(n, ast.comprehension) and any(True for _ in n.ifs):
            skips_blank = True  # a filter in the query generator: assume it may skip empties (conservative: unknown)
    qsl = [c for sc in _reader_scopes(ctx, r) for c in calls_in(sc.fn.node)
           if (call_name(c) or "").rsplit(".", 1)[-1] in ("parse_qsl", "parse_qs")]
    if qsl and not skips_blank:
        keeps = all(any(k.arg == "keep_blank_values" and isinstance(k.value, ast.Constant) and k.value.value is True
                        for k in c.keywords) or (len(c.args) > 1 and isinstance(c.args[1], ast.Constant) and c.args[1].value is True)
                    for c in qsl)
        ctx.check(keeps, f"{URLPY}::URL:query:blank-values",
                  "render_as_string writes an empty query value as `key=` but _parse_url calls parse_qsl() without "
                  "keep_blank_values=True, which silently drops the pair",
                  "parse_qsl(keep_blank_values=True)", r.loc)
    elif qsl:
        ctx.error("render_as_string filters query items; blank-value agreement must be re-derived")
    # group names -> create() parameters
    pat, flags = _regex(ctx, r)
    groups = set(sre_parse.parse(pat, flags).state.groupdict)
    create = ctx.func(f"{URLPY}::URL.create")
    cparams = [p for p in create.params if p != "cls"]
    popped, assigned = set(), set()
    for n in (n for sc in _reader_scopes(ctx, r) for n in walk_local(sc.fn.node)):
        if isinstance(n, ast.Call) and isinstance(n.func, ast.Attribute) and n.func.attr == "pop" and n.args \
                and isinstance(n.args[0], ast.Constant):
            popped.add(n.args[0].value)
        if isinstance(n, ast.Assign) and isinstance(n.targets[0], ast.Subscript) and isinstance(n.targets[0].slice, ast.Constant):
            assigned.add(n.targets[0].slice.value)
        if isinstance(n, ast.Delete):
            popped |= {t.slice.value for t in n.targets if isinstance(t, ast.Subscript) and isinstance(t.slice, ast.Constant)}
    final = (groups - popped) | assigned
    ctx.check(final == set(cparams[1:]), f"{r.key}:groups->create",
              f"keys passed to URL.create(**components) are {sorted(final)}, create() takes {cparams[1:]}",
              f"{sorted(final)}", r.loc)


def _expand_locals(fn_node, e):
    from ._helpers_rob_g1 import expand_expr
    return expand_expr(e, local_defs(fn_node))


def _eq_facts(e, pol, other, defs, depth=0):
    """fields f such that `self.f == <other>.f` is implied when expression `e` has truth value `pol`."""
    if depth > 6:
        return set()
    if isinstance(e, ast.Name) and e.id in defs:
        return _eq_facts(defs[e.id], pol, other, defs, depth + 1)
    if isinstance(e, ast.UnaryOp) and isinstance(e.op, ast.Not):
        return _eq_facts(e.operand, not pol, other, defs, depth + 1)
    if isinstance(e, ast.BoolOp):
        subs = [_eq_facts(v, pol, other, defs, depth + 1) for v in e.values]
        if isinstance(e.op, ast.And) == pol:      # all operands have truth value `pol`
            return set().union(*subs)
        return set.intersection(*subs) if subs else set()
    if isinstance(e, ast.IfExp):
        a = _eq_facts(e.test, True, other, defs, depth + 1) | _eq_facts(e.body, pol, other, defs, depth + 1)
        b = _eq_facts(e.test, False, other, defs, depth + 1) | _eq_facts(e.orelse, pol, other, defs, depth + 1)
        return a & b
    if isinstance(e, ast.Compare) and len(e.ops) == 1 and isinstance(e.ops[0], ast.Eq if pol else ast.NotEq):
        l, r_ = e.left, e.comparators[0]
        l, r_ = defs.get(l.id, l) if isinstance(l, ast.Name) else l, defs.get(r_.id, r_) if isinstance(r_, ast.Name) else r_
        pairs = [(l, r_)]
        if isinstance(l, ast.Tuple) and isinstance(r_, ast.Tuple) and len(l.elts) == len(r_.elts):
            pairs = list(zip(l.elts, r_.elts))   # the tuples are equal: every pair is
        out = set()
        for a, b in pairs:
            for x, y in ((a, b), (b, a)):
                if self_attr(x) is not None and self_attr(y, other) == self_attr(x):
                    out.add(self_attr(x))
        return out
    return set()


def _transitive_self_reads(ctx, f, seen=None):
    """self.<attr> read by a method, with self.<method> replaced by what that method reads."""
    seen = set() if seen is None else seen
    seen.add(f.name)
    out = set()
    for x in _self_fields_in(f.node):
        m = ctx.index.resolve_method(f.cls, x) if f.cls is not None else None
        if m is None:
            out.add(x)
        elif m.name not in seen:
            out |= _transitive_self_reads(ctx, m, seen)
    return out


def _url_fields(ctx):
    cls = ctx.index.cls(f"{URLPY}::URL")
    fields = [st.target.id for st in cls.node.body
              if isinstance(st, ast.AnnAssign) and isinstance(st.target, ast.Name) and st.value is None]
    ctx.require(len(fields) >= 7, f"URL NamedTuple fields not found ({fields})")
    return fields


def _regex(ctx, f):
    cands = list(calls_in(f.node))
    # a pattern compiled once at module level: `_URL_RE = re.compile(...)`, used as `_URL_RE.match(text)`
    for c in calls_in(f.node):
        if isinstance(c.func, ast.Attribute) and c.func.attr in ("match", "fullmatch", "search") and isinstance(c.func.value, ast.Name):
            vals = f.module.assigns.get(c.func.value.id, [])
            if len(vals) == 1 and isinstance(vals[0], ast.Call):
                cands.append(vals[0])
    for c in cands:
        if call_name(c) == "re.compile" and c.args and isinstance(c.args[0], ast.Constant) and isinstance(c.args[0].value, str):
            flags = 0
            for a in c.args[1:]:
                for part in (a.left, a.right) if isinstance(a, ast.BinOp) and isinstance(a.op, ast.BitOr) else (a,):
                    d = dotted(part)
                    ctx.require(d in ("re.X", "re.VERBOSE", "re.I", "re.IGNORECASE"), f"unknown regex flag `{unparse(part)}`")
                    flags |= getattr(re, d.split(".")[1])
            return c.args[0].value, flags
    ctx.error("_parse_url: no re.compile(<string constant>) found")


# ---- regex structure ---------------------------------------------------------------------------
LIT, NOTLIT, IN_, ANY, REP, MINREP, SUBP, BRANCH, NEG, CAT, RANGE, AT = (
    sre_parse.LITERAL, sre_parse.NOT_LITERAL, sre_parse.IN, sre_parse.ANY, sre_parse.MAX_REPEAT, sre_parse.MIN_REPEAT,
    sre_parse.SUBPATTERN, sre_parse.BRANCH, sre_parse.NEGATE, sre_parse.CATEGORY, sre_parse.RANGE, sre_parse.AT)


def _first(seq):
    """(set of literal chars that can start seq, nullable)."""
    out = set()
    for op, av in seq:
        f, nullable = _first_item(op, av)
        out |= f
        if not nullable:
            return out, False
    return out, True


def _first_item(op, av):
    if op is LIT:
        return {chr(av)}, False
    if op in (NOTLIT, IN_, ANY):
        return set(), False
    if op in (REP, MINREP):
        lo, hi, sub_ = av
        f, n = _first(sub_)
        return f, n or lo == 0
    if op is SUBP:
        return _first(av[3])
    if op is BRANCH:
        out, nullable = set(), False
        for alt in av[1]:
            f, n = _first(alt)
            out |= f
            nullable = nullable or n
        return out, nullable
    if op is AT:
        return set(), True
    return set(), False


def _locate(seq, gid, trail=()):
    """Path to SUBPATTERN gid: list of (sequence, index) from outermost to innermost."""
    for i, (op, av) in enumerate(seq):
        here = trail + ((seq, i),)
        if op is SUBP:
            if av[0] == gid:
                return here
            r = _locate(av[3], gid, here)
            if r:
                return r
        elif op in (REP, MINREP):
            r = _locate(av[2], gid, here)
            if r:
                return r
        elif op is BRANCH:
            for alt in av[1]:
                r = _locate(alt, gid, here)
                if r:
                    return r
    return None


def _follow(tree, gid):
    path = _locate(tree, gid)
    out = set()
    for seq, i in reversed(path):
        f, nullable = _first(list(seq)[i + 1:])
        out |= f
        if not nullable:
            break
    return out


def _preceding_literal(tree, gid):
    path = _locate(tree, gid)
    seq, i = path[-1]
    items = list(seq)
    if i > 0 and items[i - 1][0] is LIT:
        return chr(items[i - 1][1])
    return None


def _group_class(tree, gid):
    """('neg', chars) | ('any', set()) | ('pos', None) for a group that is one repeated character class."""
    path = _locate(tree, gid)
    seq, i = path[-1]
    sub_ = list(list(seq)[i][1][3])
    if len(sub_) != 1 or sub_[0][0] not in (REP, MINREP):
        return None
    inner = list(sub_[0][1][2])
    if len(inner) != 1:
        return None
    op, av = inner[0]
    if op is NOTLIT:
        return ("neg", {chr(av)})
    if op is ANY:
        return ("any", set())
    if op is IN_:
        if av and av[0][0] is NEG:
            chars = set()
            for o, a in av[1:]:
                if o is LIT:
                    chars.add(chr(a))
                else:
                    return None
            return ("neg", chars)
        return ("pos", None)
    return None


QSL_SPECIAL = {"&", "=", "+", "%", "#"}  # urllib.parse.parse_qsl: separators, space encoding, escapes


@R.rule("C20-R2", floor=4, template="T-TABLE (re._parser)",
        desc="for username/password/database: characters excluded from / delimiting the regex group, and '%', "
             "are outside safe ∪ unreserved of the quote() call that writes the component; query keys/values are "
             "written with a codec that escapes the query-string delimiters")
def r2(ctx):
    w = ctx.func(f"{URLPY}::URL.render_as_string")
    r = ctx.func(f"{URLPY}::_parse_url")
    pat, flags = _regex(ctx, r)
    try:
        tree = sre_parse.parse(pat, flags)
    except Exception as e:
        ctx.error(f"_parse_url regex does not parse: {e}")
    gd = tree.state.groupdict
    wc = _writer_codecs(ctx, w)
    for comp in ENCODED:
        key = f"{URLPY}::URL:{comp}:delimiters"
        ctx.require(comp in gd, f"regex has no group `{comp}`")
        gc = _group_class(tree, gd[comp])
        ctx.require(gc is not None and gc[0] in ("neg", "any"), f"group `{comp}` is not a repeated negated class")
        dangerous = set(gc[1]) | _follow(tree, gd[comp]) | {"%"}
        calls = wc.get(comp, [])
        if not calls:
            if comp in wc["?unfollowed"]:
                ctx.error(f"render_as_string passes `{comp}` to {wc['?unfollowed'][comp]}, which cannot be followed")
            ctx.violation(key, f"`{comp}` is written without percent-encoding although {sorted(dangerous)} delimit it", w.loc)
            continue
        problems = []
        for nm, safe, c, how in calls:
            leak = dangerous & (set(safe) | ALWAYS_SAFE)
            if leak:
                problems.append(f"`{unparse(c)}`{how} leaves {sorted(leak)} unescaped, but the reader's group for `{comp}` "
                                f"stops at / excludes {sorted(dangerous - {'%'})}")
        ctx.check(not problems, key, "; ".join(problems),
                  f"dangerous {sorted(dangerous)} all escaped (safe={[s for _, s, _, _ in calls]})", w.loc)
    key = f"{URLPY}::URL:query:delimiters"
    calls = wc.get("query", [])
    ctx.require(calls, "render_as_string: query keys/values are not encoded by a recognisable call")
    problems = []
    for nm, safe, c, how in calls:
        leak = QSL_SPECIAL & (set(safe) | ALWAYS_SAFE)
        if leak:
            problems.append(f"`{unparse(c)}`{how} leaves {sorted(leak)} unescaped inside the query string")
    ctx.check(not problems and len(calls) >= 2, key, "; ".join(problems) or "query key or value is not encoded",
              "keys and values escape & = + % #", w.loc)


# ------------------------------------------------------------------------------------------ R3
@R.rule("C20-R3", floor=3, template="T-TABLE",
        desc="URL.__eq__ compares every NamedTuple field; __hash__ depends only on those fields; __copy__ passes "
             "every field to create() in parameter order")
def r3(ctx):
    fields = _url_fields(ctx)
    eq = ctx.func(f"{URLPY}::URL.__eq__")
    other = eq.params[1]
    defs = local_defs(eq.node)
    g = ctx.cfg(eq)
    # every way of answering "equal" implies self.f == other.f for all seven fields -- whatever the shape (one
    # conjunction, early `return False` guards, nested ifs, a boolean local)
    compared, worst, n_true = None, None, 0
    for r_ in returns_of(eq.node):
        v = r_.value
        if v is None or (isinstance(v, ast.Constant) and not v.value) or (isinstance(v, ast.Name) and v.id == "NotImplemented"):
            continue  # cannot answer "equal"
        n_true += 1
        facts = set() if (isinstance(v, ast.Constant) and v.value) else _eq_facts(v, True, other, defs)
        for test, pol in g.edge_guards(g.nodes_for(r_)[0]):
            facts |= _eq_facts(test, pol, other, defs)
        missing = [f for f in fields if f not in facts]
        if missing and worst is None:
            worst = (missing, r_)
        compared = facts if compared is None else (compared & facts)
    ctx.require(n_true > 0, f"{eq.key}: no return that can answer True")
    if worst is not None:
        opaque = [unparse(c) for c in calls_in(eq.node) if call_name(c) != "isinstance"
                  and {n.id for n in ast.walk(c) if isinstance(n, ast.Name)} >= {"self", other}]
        loops = [n for n in walk_local(eq.node) if isinstance(n, (ast.For, ast.While, ast.comprehension))]
        ctx.require(not opaque and not loops,
                    f"{eq.key}: compares through {opaque or 'a loop'}; which fields that covers is not understood")
    ctx.check(worst is None, eq.key,
              f"__eq__ ignores field(s) {worst[0]} when it returns `{unparse(worst[1].value)[:60]}`" if worst else "",
              f"compares {sorted(compared or ())}", eq.loc)
    h = ctx.func(f"{URLPY}::URL.__hash__")
    rets = returns_of(h.node)
    ok = False
    detail = ""
    hv = _expand_locals(h.node, rets[0].value) if len(rets) == 1 and rets[0].value is not None else None
    if isinstance(hv, ast.Call) and call_name(hv) == "hash" and hv.args:
        a = hv.args[0]
        via = None
        if isinstance(a, ast.Call) and call_name(a) in ("str", "repr") and a.args and isinstance(a.args[0], ast.Name) \
                and a.args[0].id == "self":
            # str(self) -> __str__/__repr__ -> render_as_string: reads only fields
            via = ctx.func(f"{URLPY}::URL.render_as_string")
        elif isinstance(a, ast.Call) and self_attr(a.func) is not None and h.cls is not None:
            via = ctx.index.resolve_method(h.cls, self_attr(a.func))   # hash(self.render_as_string())
        if via is not None:
            w = via
            reads = _transitive_self_reads(ctx, w)
            extra = reads - set(fields)
            ok = not extra
            detail = f"hash(str(self)); render_as_string reads {sorted(reads)}"
            if extra:
                detail = f"string form depends on non-field attribute(s) {sorted(extra)}"
        elif isinstance(a, ast.Tuple):
            reads = {self_attr(e) for e in a.elts}
            ok = reads <= set(fields)
            detail = f"hash of {sorted(x for x in reads if x)}"
    ctx.check(ok, h.key, detail or "__hash__ is not hash(str(self)) / hash(tuple of fields)", detail, h.loc)
    cp = ctx.func(f"{URLPY}::URL.__copy__")
    create = ctx.func(f"{URLPY}::URL.create")
    cparams = [p for p in create.params if p != "cls"]
    calls = [c for c in calls_in(cp.node) if isinstance(c.func, ast.Attribute) and c.func.attr == "create"]
    ctx.require(len(calls) == 1, "__copy__ does not call create() exactly once")
    c = calls[0]
    passed = {}
    for p, a in zip(cparams, c.args):
        passed[p] = self_attr(_expand_locals(cp.node, a))
    for k in c.keywords:
        if k.arg:
            passed[k.arg] = self_attr(_expand_locals(cp.node, k.value))
    wrong = [f"{p}<-{passed.get(p)}" for p in cparams if passed.get(p) != p]
    ctx.check(not wrong and set(cparams) == set(fields), cp.key,
              f"__copy__ passes the wrong attribute for create() parameter(s): {wrong}", "all seven fields in order", cp.loc)


# ------------------------------------------------------------------------------------------ R4
@R.rule("C20-R4", floor=4, template="T-FLOW",
        desc="writer brackets the host iff it contains ':'; reader's bracketed host class admits ':' and the bare "
             "one excludes it; host = ipv4host or ipv6host; port written with str() after ':' and read with int()")
def r4(ctx):
    w = ctx.func(f"{URLPY}::URL.render_as_string")
    r = ctx.func(f"{URLPY}::_parse_url")
    pat, flags = _regex(ctx, r)
    tree = sre_parse.parse(pat, flags)
    gd = tree.state.groupdict
    # writer: every rendering that contains the host, whatever the shape of the code that produces it
    paths = _writer_paths(ctx, w)
    ctx.require(paths is not None, f"{w.key}: cannot be evaluated symbolically ({_writer_paths_error(ctx, w)})")
    COLON = re.compile(r"^':' in (str\()?self\.host\)?$")
    bad, seen_br, seen_bare = [], 0, 0
    for assign, parts in paths:
        for i, p_ in enumerate(parts):
            if not (isinstance(p_, Opaque) and p_.label in ("self.host", "str(self.host)")):
                continue
            before = parts[i - 1] if i and isinstance(parts[i - 1], str) else ""
            after = parts[i + 1] if i + 1 < len(parts) and isinstance(parts[i + 1], str) else ""
            bracketed = before.endswith("[") and after.startswith("]")
            colon = [v for a_, v in assign.items() if COLON.match(a_)]
            other = [a_ for a_ in assign if "self.host" in a_ and not COLON.match(a_) and a_ not in ("self.host is None", "self.host")]
            ctx.require(not other, f"{w.key}: the rendering of the host depends on `{other[:1]}`; not understood")
            if before.endswith("[") != after.startswith("]"):
                bad.append(f"the host is written with one bracket only ({before[-1:]!r} .. {after[:1]!r})")
            elif not colon:
                bad.append("the host is written " + ("bracketed" if bracketed else "bare") + " without looking at whether it contains ':'")
            elif colon[0] and not bracketed:
                bad.append("a host containing ':' is written without [ ] (the reader takes what follows the first ':' as the port)")
            elif not colon[0] and bracketed:
                bad.append("a host without ':' is written in [ ]")
            seen_br += bracketed
            seen_bare += not bracketed
    ctx.require(seen_br + seen_bare > 0, f"{w.key}: no rendering contains self.host")
    ctx.check(not bad, f"{w.key}:host-brackets", "; ".join(sorted(set(bad))[:3]),
              f"':' in host -> [host] on {seen_br} rendering(s), bare on {seen_bare}", w.loc)
    # reader
    ctx.require("ipv6host" in gd and "ipv4host" in gd, "regex lacks ipv4host/ipv6host groups")
    c6, c4 = _group_class(tree, gd["ipv6host"]), _group_class(tree, gd["ipv4host"])
    ctx.require(c6 and c4 and c6[0] == "neg" and c4[0] == "neg", "host groups are not negated classes")
    problems = []
    if _preceding_literal(tree, gd["ipv6host"]) != "[" or "]" not in _follow(tree, gd["ipv6host"]):
        problems.append("bracketed host group is not delimited by [ ]")
    if ":" in c6[1]:
        problems.append("bracketed host may not contain ':'")
    if ":" not in c4[1]:
        problems.append("bare host may contain ':' (cannot be told from the port separator)")
    if "]" in c4[1] or "[" in c4[1]:
        pass
    ctx.check(not problems, f"{r.key}:host-groups", "; ".join(problems), f"[{sorted(c6[1])}] vs bare {sorted(c4[1])}", r.loc)
    # host assembly: what is stored under "host" is one host group or else the other
    ok, n_store = True, 0
    for sc in _reader_scopes(ctx, r):
        for n in walk_local(sc.fn.node):
            if isinstance(n, ast.Assign) and isinstance(n.targets[0], ast.Subscript) and isinstance(n.targets[0].slice, ast.Constant) \
                    and n.targets[0].slice.value == "host":
                n_store += 1
                v = n.value
                v = sc.defs.get(v.id, v) if isinstance(v, ast.Name) else v
                ok = ok and isinstance(v, (ast.BoolOp, ast.IfExp)) and _groups_of(v, sc) == {"ipv4host", "ipv6host"}
    ok = ok and n_store > 0
    ctx.check(ok, f"{r.key}:host", "components['host'] is not `ipv4host or ipv6host`", "host = ipv4host or ipv6host", r.loc)
    # port: wherever it is rendered it directly follows a ':' and is the decimal text of the integer; it is
    # rendered whenever it is set
    wport, n_port = True, 0
    for assign, parts in paths:
        idx = [i for i, p_ in enumerate(parts) if isinstance(p_, Opaque) and p_.label in ("str(self.port)", "self.port")]
        n_port += len(idx)
        for i in idx:
            if not (i and isinstance(parts[i - 1], str) and parts[i - 1].endswith(":")):
                wport = False
        if assign.get("self.port is None") is False and not idx:
            wport = False
    wport = wport and n_port > 0
    rc = _reader_codecs(ctx, r)
    rport = "int" in rc.get("port", set()) and _preceding_literal(tree, gd.get("port", -1)) == ":" if "port" in gd else False
    ctx.check(wport and rport, f"{URLPY}::URL:port",
              "port is not written as ':' + str(port) and read back with int() after ':'", "':' + str(port) <-> int()", w.loc)


# ------------------------------------------------------------------------------------------ R5
# characters a syntactically valid value of a component that is written WITHOUT encoding can contain
# (property statement: "syntactically valid host and port"; the scheme class is the reader's own `[\w\+]+`)
RAW_VALID = {
    "name": set(string.ascii_letters + string.digits + "_+"),
    "ipv4host": set(string.ascii_letters + string.digits + ".-_"),
    "ipv6host": set(string.ascii_letters + string.digits + ":.%"),
    "port": set(string.digits),
}
GROUP_FIELD = {"name": "drivername", "ipv4host": "host", "ipv6host": "host"}
ANY_ASCII = {chr(i) for i in range(128)}
LOG_CALLEES = {"warn", "warn_deprecated", "warn_limited", "debug", "info", "warning", "error", "exception", "log"}
STRING_IDENTITY = {"str"}


def _target_names(t):
    if isinstance(t, ast.Name):
        return [t.id]
    if isinstance(t, (ast.Tuple, ast.List)):
        return [x for e in t.elts for x in _target_names(e)]
    if isinstance(t, ast.Starred):
        return _target_names(t.value)
    return []


def _bindings(fn_node):
    """(name -> [(source expression, line)] for real name bindings, container name -> [stored values])."""
    binds, stores = {}, {}

    def add(t, src, line):
        for nm in _target_names(t):
            binds.setdefault(nm, []).append((src, line))
        if isinstance(t, ast.Subscript) and isinstance(t.value, ast.Name):
            stores.setdefault(t.value.id, []).append(src)
    for n in walk_local(fn_node, into_nested=True):
        if isinstance(n, ast.Assign):
            for t in n.targets:
                add(t, n.value, n.lineno)
        elif isinstance(n, (ast.AnnAssign, ast.AugAssign)) and n.value is not None:
            add(n.target, n.value, n.lineno)
        elif isinstance(n, ast.NamedExpr):
            add(n.target, n.value, n.lineno)
        elif isinstance(n, (ast.For, ast.AsyncFor)):
            add(n.target, n.iter, n.lineno)
        elif isinstance(n, ast.comprehension):
            add(n.target, n.iter, n.iter.lineno)
        elif isinstance(n, (ast.With, ast.AsyncWith)):
            for it in n.items:
                if it.optional_vars is not None:
                    add(it.optional_vars, it.context_expr, n.lineno)
        elif isinstance(n, ast.Call) and isinstance(n.func, ast.Attribute) and n.func.attr in ("append", "add", "extend", "update") \
                and n.args:
            base = n.func.value
            while isinstance(base, ast.Call) and base.args:  # cast("List[str]", query[key]).append(value)
                base = base.args[-1]
            while isinstance(base, ast.Subscript):
                base = base.value
            if isinstance(base, ast.Name):
                stores.setdefault(base.id, []).append(n.args[0])
    return binds, stores


def _names(node):
    return {n.id for n in ast.walk(node) if isinstance(n, ast.Name)}


def _tainted(seeds, binds, stores):
    t = set(seeds)
    changed = True
    while changed:
        changed = False
        for src_map in (binds, stores):
            for nm, srcs in src_map.items():
                if nm in t:
                    continue
                for src in srcs:
                    e = src[0] if isinstance(src, tuple) else src
                    if _names(e) & t:
                        t.add(nm)
                        changed = True
                        break
    return t


def _origin(expr, binds, groups, line, seen=None, porigin=None):
    """regex groups whose text an expression carries; empty set = the whole URL text.
    Direct evidence (a constant group name used as subscript / pop() / get() / group() argument, or a loop variable
    over constant group names) wins; otherwise names are followed through bindings made before `line`; `porigin`
    gives the groups a parameter of a followed helper was bound to by its caller."""
    seen = set() if seen is None else seen
    porigin = porigin or {}
    direct = set()
    for n in ast.walk(expr):
        keys = []
        if isinstance(n, ast.Subscript):
            keys = [n.slice]
        elif isinstance(n, ast.Call) and isinstance(n.func, ast.Attribute) and n.func.attr in ("pop", "get", "group") and n.args:
            keys = [n.args[0]]
        for k in keys:
            if isinstance(k, ast.Constant) and k.value in groups:
                direct.add(k.value)
            elif isinstance(k, ast.Name):
                for src, _l in binds.get(k.id, []):
                    if isinstance(src, (ast.Tuple, ast.List)):
                        direct |= {e.value for e in src.elts if isinstance(e, ast.Constant) and e.value in groups}
    if direct:
        return direct
    out = set()
    for nm in _names(expr):
        if nm in seen:
            continue
        if nm in porigin:
            out |= porigin[nm]
        for src, l in binds.get(nm, []):
            if l < line:
                out |= _origin(src, binds, groups, l, seen | {nm}, porigin)
    return out


def _affected(call, method, spec, oracle):
    """('chars', set) | ('substr', text) | ('unknown', None): what the normaliser can remove or change."""
    kind = spec["chars"]
    a0 = call.args[0] if call.args else None
    if kind == "whitespace-or-arg0":
        if a0 is None or (isinstance(a0, ast.Constant) and a0.value is None):
            return "chars", set(oracle["ascii_whitespace"])
        if isinstance(a0, ast.Constant) and isinstance(a0.value, str):
            return "chars", set(a0.value)
        return "unknown", None
    if kind == "arg0-substring":
        if isinstance(a0, ast.Constant) and isinstance(a0.value, str):
            if method == "replace" and len(call.args) > 1 and isinstance(call.args[1], ast.Constant) \
                    and call.args[1].value == a0.value:
                return "chars", set()
            return "substr", a0.value
        return "unknown", None
    if kind in ("ascii_uppercase", "ascii_lowercase", "ascii_letters"):
        return "chars", set(getattr(string, kind))
    if kind == "unknown":
        return "unknown", None
    return "chars", set(kind)


def _hit(aff, possible):
    kind, v = aff
    if kind == "chars":
        return v & possible
    if kind == "substr":
        return set(v) if v and set(v) <= possible else set()
    return set()


def _writer_paths(ctx, w):
    """[(assignment of the conditions tested, parts of the rendered string)] for every path of render_as_string
    (password shown), by symbolic evaluation; None when the function cannot be evaluated."""
    cache = ctx.__dict__.setdefault("_c20_writer_paths", {})
    if w.key not in cache:
        args = [Opaque("self")] + [False for p_ in w.params[1:2]]
        try:
            res = explore_paths(ctx, w, args, cls=w.cls)
            bad = [r_ for _a, r_ in res if r_[0] != "return"]
            if bad:
                raise _PyLiteUnsupported(f"a path raises {bad[0][1]}")
            cache[w.key] = ([(a_, parts_of(r_[1])) for a_, r_ in res], None)
        except (_PyLiteUnsupported, RecursionError) as e:
            cache[w.key] = (None, str(e))
    return cache[w.key][0]


def _writer_paths_error(ctx, w):
    return ctx.__dict__.get("_c20_writer_paths", {}).get(w.key, (None, ""))[1]


def _tail_fields(ctx, w):
    paths = _writer_paths(ctx, w)
    if paths is not None:
        out = set()
        for _assign, parts in paths:
            if parts and isinstance(parts[-1], Opaque):
                m = re.search(r"\bself\.(\w+)", parts[-1].label)
                if m is None:
                    return None
                out.add(m.group(1))
        return out
    return _tail_fields_syntactic(ctx, w)


def _tail_fields_syntactic(ctx, w):
    """URL fields whose text can be the very end of the rendered string (every later append is conditional);
    None if the writer's shape is not a sequence of appends to the returned accumulator."""
    rets = returns_of(w.node)
    if len(rets) != 1 or not isinstance(rets[0].value, ast.Name):
        return None
    acc = rets[0].value.id
    local = {}
    for nm, val, _st in name_stores(w.node):
        local.setdefault(nm, []).append(val)

    def fields(node, depth=0):
        out = set(_self_fields_in(node))
        if not out and depth < 3:
            for nm in _names(node):
                for v in local.get(nm, []):
                    if v is not None and nm != acc:
                        out |= fields(v, depth + 1)
        return out

    unknown = []

    def stmt(st):
        if isinstance(st, ast.AugAssign) and isinstance(st.target, ast.Name) and st.target.id == acc and isinstance(st.op, ast.Add):
            last = _parts(st.value)[-1]
            if last[0] == "const" and not last[1]:
                return set(), True  # appends nothing
            return {last}, False
        if isinstance(st, ast.Assign) and any(isinstance(t, ast.Name) and t.id == acc for t in st.targets):
            last = _parts(st.value)[-1]
            return {last}, False
        if isinstance(st, ast.If):
            tb, eb = block(st.body)
            te, ee = block(st.orelse)
            return tb | te, eb or ee
        if isinstance(st, (ast.For, ast.While, ast.With, ast.Try)) and acc in {n_ for n_, _v, _s in name_stores(st)}:
            unknown.append(st)
        return set(), True

    def block(body):
        out = set()
        for st in reversed(body):
            t, empty = stmt(st)
            out |= t
            if not empty:
                return out, False
        return out, True

    tails, _ = block(w.node.body)
    if unknown:
        return None
    out = set()
    for part in tails:
        if part[0] == "expr":
            f = fields(part[2])
            if not f:
                return None
            out |= f
    return out


@R.rule("C20-R5", floor=10, template="T-FLOW",
        desc="the URL text reaches the regex, and each group value reaches URL.create, without a str-normalising call "
             "(strip/lower/replace/...) that touches characters the writer emits literally: the reader applies no "
             "transformation the writer does not invert")
def r5(ctx):
    from ..oracles import load
    oracle = load("python_str_normalisers.json")
    methods = oracle["methods"]
    w = ctx.func(f"{URLPY}::URL.render_as_string")
    rx = ctx.func(f"{URLPY}::_parse_url")
    start = ctx.func(f"{URLPY}::make_url")
    pat, flags = _regex(ctx, rx)
    groups = set(sre_parse.parse(pat, flags).state.groupdict)
    wc = _writer_codecs(ctx, w)
    dec_calls = _reader_codec_calls(ctx, rx)

    # what the writer can emit literally, per regex group
    literal = {}
    for g in groups:
        fld = GROUP_FIELD.get(g, g)
        calls = wc.get(fld, [])
        if calls:
            chars = set(ALWAYS_SAFE)
            for _nm, safe, _c, _how in calls:
                chars |= set(safe)
                if _nm == "quote_plus":
                    chars.add("+")   # quote_plus writes a space as a literal '+'
            literal[g] = (chars, "written with safe=" + "/".join(sorted({repr(sf) for _n, sf, _c, _h in calls})))
        else:
            literal[g] = (RAW_VALID.get(g, ANY_ASCII), "written raw")
    tail = _tail_fields(ctx, w)
    if tail is None:
        ctx.note("render_as_string: accumulator shape not understood; every component is assumed able to end the URL")
        end_groups = set(groups)
    else:
        end_groups = {g for g in groups if GROUP_FIELD.get(g, g) in tail}
    ctx.require(end_groups, "render_as_string: no component can end the rendered URL?")
    ctx.note(f"components that can end the rendered URL: {sorted(end_groups)}")
    start_groups = {"name"} if "name" in groups else set(groups)

    # the reader chain: make_url -> ... -> the function holding the regex
    # (a helper that receives the text of one regex group -- `_parse_query_string(components["query"])` -- is part
    # of the chain, too: what it does to its parameter is done to that group)
    chain, seen, work = [], set(), [(start, {start.params[0]}, {}, None)]
    while work:
        fn, seeds, porigin, site = work.pop()
        if fn.key in seen:
            continue
        seen.add(fn.key)
        ctx.functions_analysed.add(fn.key)
        binds, stores = _bindings(fn.node)
        tainted = _tainted(set(seeds) | set(porigin), binds, stores)
        chain.append((fn, binds, tainted, porigin, site, bool(seeds)))
        for c in calls_in(fn.node):
            target, _bs = _resolve_helper(ctx, c, fn)
            if target is None or target.cls is not None or target.key in seen:
                continue
            a = target.node.args
            pos = [x.arg for x in a.posonlyargs + a.args]
            hit, ghit = set(), {}
            for p_, arg in list(zip(pos, c.args)) + [(k.arg, k.value) for k in c.keywords if k.arg]:
                if _names(arg) & tainted:
                    org = _origin(arg, binds, groups, c.lineno, None, porigin) if (fn is rx or porigin) else set()
                    if org:
                        ghit[p_] = org
                        continue
                    hit.add(p_)
                    ctx.require(_passes_text(arg, methods),
                                f"{fn.key}: the URL text is handed to {target.qualname}() as `{unparse(arg)}`; "
                                f"that transformation is not understood")
            if hit or ghit:
                work.append((target, hit, ghit, site if site is not None else (c.lineno if fn is rx else None)))
    ctx.require(rx.key in seen, f"make_url() no longer hands the URL text to {rx.qualname}()")

    def decoded_before(g_, c, fn, site):
        """has the text of group g_ been percent-decoded when normaliser call `c` of `fn` sees it?"""
        for d, dc, dsc in dec_calls.get(g_, []):
            if d == "int":
                continue
            if dsc.fn.key == fn.key:
                if dc.lineno < c.lineno or any(x is dc for x in ast.walk(c.func.value)):
                    return True
                continue
            pd = dc.lineno if dsc.site is None else dsc.site
            pc = c.lineno if fn is rx else site
            if pc is None or pd <= pc:
                return True
        return False

    per_fn = {fn.key: [] for fn, _b, _t, _p, _s, _x in chain}
    per_group = {g: [] for g in groups}
    for fn, binds, tainted, porigin, site, _has_text in chain:
        pm = fn.module.parents()
        for c in calls_in(fn.node, into_nested=True):
            nm = call_name(c) or ""
            if nm in oracle["regex_rewriters"] and any(_names(a) & tainted for a in c.args[2:3]):
                ctx.error(f"{fn.key}: `{unparse(c)}` rewrites the URL text with a regular expression; effect not understood")
            if not (isinstance(c.func, ast.Attribute) and c.func.attr in methods and _names(c.func.value) & tainted):
                continue
            if isinstance(c.func.value, ast.Constant):
                continue
            # not part of the parse: diagnostics
            skip = False
            cur = pm.get(c)
            while cur is not None and cur is not fn.node:
                if isinstance(cur, (ast.Raise, ast.Assert)):
                    skip = True
                if isinstance(cur, ast.Call) and (call_name(cur) or "").rsplit(".", 1)[-1] in LOG_CALLEES:
                    skip = True
                cur = pm.get(cur)
            if skip:
                continue
            method = c.func.attr
            spec = methods[method]
            aff = _affected(c, method, spec, oracle)
            ctx.require(aff[0] != "unknown",
                        f"{fn.key}: `{unparse(c)}` transforms text of the URL; the effect of str.{method}() here is not understood")
            org = _origin(c.func.value, binds, groups, c.lineno, None, porigin) if (fn is rx or porigin) else set()
            if not org:
                where = spec["where"]
                cand = set()
                if where in ("end", "both-ends"):
                    cand |= end_groups
                if where in ("start", "both-ends"):
                    cand |= start_groups
                if where == "anywhere":
                    cand = set(groups)
                for g in sorted(cand):
                    h = _hit(aff, literal[g][0])
                    if h:
                        pos_txt = {"end": "at the end", "start": "at the start", "both-ends": "at both ends",
                                   "anywhere": "anywhere"}[where]
                        can = ""
                        if where != "anywhere":
                            can = ", and that component can be the " + ("first" if g in start_groups and where == "start" else "last") \
                                  + " thing in the rendered URL"
                        per_fn[fn.key].append(
                            f"`{unparse(c)}` in {fn.qualname}() normalises the whole URL text before it is matched: "
                            f"str.{method}() removes/changes {sorted(h)} {pos_txt}, but render_as_string emits "
                            f"{sorted(h)} literally in `{GROUP_FIELD.get(g, g)}` ({literal[g][1]}){can}: such a value "
                            f"is silently altered by make_url(render_as_string())")
                        break
            else:
                for g in sorted(org):
                    decoded = decoded_before(g, c, fn, site)
                    possible = ANY_ASCII if decoded else literal[g][0]
                    h = _hit(aff, possible)
                    if h:
                        per_group[g].append(
                            f"`{unparse(c)}` in {fn.qualname}() normalises the {'decoded ' if decoded else ''}text of group "
                            f"`{g}`: str.{method}() removes/changes {sorted(h)[:8]}, which a `{GROUP_FIELD.get(g, g)}` value "
                            f"can contain ({'any character after decoding' if decoded else literal[g][1]}); the writer does "
                            f"not invert this")
    for fn, _b, _t, _p, _s, has_text in chain:
        if not has_text and not per_fn[fn.key]:
            continue
        ctx.check(not per_fn[fn.key], f"{fn.key}:url-text", "; ".join(per_fn[fn.key]),
                  "URL text passed on without normalisation of writer-literal characters", fn.loc)
    # the regex is applied to the text itself
    m_calls = [c for c in calls_in(rx.node) if isinstance(c.func, ast.Attribute) and c.func.attr in ("match", "fullmatch", "search")]
    ctx.require(len(m_calls) == 1, f"{rx.key}: expected exactly one regex match call")
    marg = m_calls[0].args[-1] if m_calls[0].args else None
    ctx.require(marg is not None and _passes_text(marg, methods), f"{rx.key}: `{unparse(m_calls[0])}` does not match the URL text itself")
    for g in sorted(groups):
        ctx.check(not per_group[g], f"{rx.key}:group:{g}:normalisation", "; ".join(per_group[g]),
                  f"`{g}` reaches URL.create only through its decoder", rx.loc)


def _passes_text(node, methods):
    """the expression is the text itself, possibly under str() and str-normalisers (which are judged separately)."""
    while True:
        if isinstance(node, ast.Name):
            return True
        if isinstance(node, ast.Call) and isinstance(node.func, ast.Name) and node.func.id in STRING_IDENTITY and len(node.args) == 1:
            node = node.args[0]
            continue
        if isinstance(node, ast.Call) and isinstance(node.func, ast.Attribute) and node.func.attr in methods:
            node = node.func.value
            continue
        return False


# ------------------------------------------------------------------------------------------ R6
# "blank is a value": '' is a legal username / password / database / query key / query value (the writer emits the
# component's delimiter followed by nothing; quote('') == '' and parse_qsl(keep_blank_values=True) hands '' back), and
# it is *different* from an absent (None / missing) one.  A branch that decides on the truthiness of such a text treats
# the two alike.  The rule looks at every test of that kind on the round-trip path (make_url -> _parse_url and its
# helpers -> URL.create and the helpers it calls; render_as_string and its helpers) and, for each truthiness test,
# evaluates both outcomes for the value '' -- once with Python's semantics ('' is falsy) and once "as if present" --
# and compares what is left of the code: equal residues mean the test cannot tell the difference (harmless).
BLANK_PRESERVING = {"quote", "quote_plus", "unquote", "unquote_plus", "str", "cast"}   # f('') == '' (urllib / Python documentation)
_SEQ_MAKERS = {"list", "tuple", "sorted", "set", "frozenset", "reversed", "iter", "dict", "immutabledict", "OrderedDict"}
_ELEMENT_READS = {"get", "pop", "setdefault"}
_ADDERS = {"append", "add", "extend", "insert"}
_TERMINATORS = (ast.Return, ast.Raise, ast.Continue, ast.Break)


class _K:
    """What an expression can evaluate to, as far as this rule cares: kinds ⊆ {'text', 'container'}; `it` / `sub` describe
    what iterating / subscripting a container yields."""

    def __init__(self, kinds, label, it=None, sub=None, slot=None):
        self.kinds, self.label, self.it, self.sub, self.slot = frozenset(kinds), label, it, sub, slot

    @staticmethod
    def text(label):
        return _K({"text"}, label)

    @staticmethod
    def seq(label, elem):
        return _K({"container"}, label, it=elem, sub=elem)

    def join(self, other):
        if other is None:
            return self
        return _K(self.kinds | other.kinds, self.label, _K._j(self.it, other.it), _K._j(self.sub, other.sub))

    @staticmethod
    def _j(a, b):
        return b if a is None else a.join(b)


def _kjoin(ks):
    out = None
    for k in ks:
        if k is not None:
            out = k if out is None else out.join(k)
    return out


def _last_name(c):
    if isinstance(c.func, ast.Attribute):
        return c.func.attr
    return (call_name(c) or "").rsplit(".", 1)[-1]


class _BlankScope:
    """One function on the round-trip path with what is known about its inputs: `leaf(expr, scope)` recognises the
    scope's sources (regex groups / `self.<field>`), `params` maps parameter names to _K."""

    def __init__(self, ctx, fn, leaf, params, role):
        from ..astutil import parent_map
        self.ctx, self.fn, self.leaf, self.params, self.role = ctx, fn, leaf, params, role
        self.defs = local_defs(fn.node)
        self.pm = parent_map(fn.node)
        self.g = ctx.cfg(fn)
        self._rd = None
        self._busy = set()
        self.loop_iters, self.stored, self.keyed = {}, {}, {}
        for n in walk_local(fn.node, into_nested=True):
            if isinstance(n, (ast.For, ast.AsyncFor, ast.comprehension)):
                for t in _target_names(n.target):
                    self.loop_iters.setdefault(t, []).append(n.iter)
            elif isinstance(n, ast.Assign):
                for t in n.targets:
                    if isinstance(t, ast.Subscript) and isinstance(t.value, ast.Name):
                        self.stored.setdefault(t.value.id, []).append(n.value)
                        self.keyed.setdefault(t.value.id, []).append(t.slice)
            elif isinstance(n, ast.Call) and isinstance(n.func, ast.Attribute) and n.args and \
                    n.func.attr in _ADDERS | {"setdefault"}:
                base, via_element = n.func.value, False
                while isinstance(base, ast.Call) and base.args and _last_name(base) in ("cast", "list"):
                    base = base.args[-1]
                while isinstance(base, ast.Subscript):
                    base, via_element = base.value, True
                if isinstance(base, ast.Name):
                    v = n.args[-1]
                    self.stored.setdefault(base.id, []).append(ast.List(elts=[v], ctx=ast.Load()) if via_element else v)
                    if n.func.attr == "setdefault":
                        self.keyed.setdefault(base.id, []).append(n.args[0])

    # -- reaching definitions of a local at one of its uses
    def _reaching(self, use, name):
        from ._helpers_rob_c2 import ReachingDefs
        from ..cfg import no_exc
        if self._rd is None:
            self._rd = ReachingDefs(self.g, self.fn.node, edge_ok=no_exc)
        nodes = self.g.nodes_containing(use)
        return self._rd.at(nodes[0], name) if nodes else []

    def kind(self, e, depth=0):
        if e is None or depth > 12:
            return None
        k = self.leaf(e, self)
        if k is not None:
            return k if k.kinds else None
        if isinstance(e, ast.Name):
            if e.id in self._busy:
                return None
            self._busy.add(e.id)
            try:
                return self._name_kind(e, depth)
            finally:
                self._busy.discard(e.id)
        if isinstance(e, ast.NamedExpr):
            return self.kind(e.value, depth + 1)
        if isinstance(e, ast.IfExp):
            return _kjoin([self.kind(e.body, depth + 1), self.kind(e.orelse, depth + 1)])
        if isinstance(e, ast.BoolOp):
            return _kjoin([self.kind(v, depth + 1) for v in e.values])
        if isinstance(e, (ast.List, ast.Tuple, ast.Set)):
            el = _kjoin([self.kind(x, depth + 1) for x in e.elts])
            return _K.seq(el.label, el) if el is not None else None
        if isinstance(e, ast.Subscript):
            b = self.kind(e.value, depth + 1)
            if b is not None and "container" in b.kinds and b.sub is not None and not isinstance(e.slice, ast.Slice):
                return _K(b.sub.kinds, b.sub.label, b.sub.it, b.sub.sub, slot=unparse(e))
            return None
        if isinstance(e, ast.Call):
            last = _last_name(e)
            if isinstance(e.func, ast.Attribute):
                b = self.kind(e.func.value, depth + 1)
                if b is not None and "container" in b.kinds:
                    if last in _ELEMENT_READS and e.args and b.sub is not None:
                        k = _K(b.sub.kinds, b.sub.label, b.sub.it, b.sub.sub, slot=f"{unparse(e.func.value)}[{unparse(e.args[0])}]")
                        return k
                    if last == "items":
                        el = _kjoin([b.it, b.sub])
                        return _K.seq(b.label, el) if el is not None else None
                    if last == "keys" and b.it is not None:
                        return _K.seq(b.label, b.it)
                    if last == "values" and b.sub is not None:
                        return _K.seq(b.label, b.sub)
                    if last == "copy":
                        return b
            if last in ("cast", "str") and e.args:
                return self.kind(e.args[-1], depth + 1)
            if last == "to_list" and e.args:
                b = self.kind(e.args[0], depth + 1)
                if b is None:
                    return None
                el = _kjoin([_K(b.kinds & {"text"}, b.label) if "text" in b.kinds else None, b.it])
                return _K.seq(b.label, el) if el is not None else None
            if last in _SEQ_MAKERS and len(e.args) == 1:
                b = self.kind(e.args[0], depth + 1)
                if b is not None and "container" in b.kinds:
                    return b if last in ("dict", "immutabledict", "OrderedDict") else (_K.seq(b.label, b.it) if b.it is not None else None)
        return None

    def _name_kind(self, e, depth):
        nm = e.id
        found = []
        ds = self._reaching(e, nm)
        for d in ds:
            if d.kind == "param":
                found.append(self.params.get(nm))
            elif d.kind == "assign" and d.value is not None:
                v = d.value
                for i in d.path:        # `user, pw = self.username, self.password`
                    if isinstance(v, (ast.Tuple, ast.List)) and isinstance(i, int) and i < len(v.elts) \
                            and not any(isinstance(x, ast.Starred) for x in v.elts):
                        v = v.elts[i]
                    else:
                        v = None
                        break
                found.append(self.kind(v, depth + 1))
            elif d.kind == "for" and d.value is not None:
                b = self.kind(d.value, depth + 1)
                if b is not None and "container" in b.kinds:
                    found.append(b.it)
        if not ds:
            if nm in self.params:
                found.append(self.params[nm])
            elif nm in self.defs:
                found.append(self.kind(self.defs[nm], depth + 1))
            for it in self.loop_iters.get(nm, []):     # comprehension targets have no CFG definition
                b = self.kind(it, depth + 1)
                if b is not None and "container" in b.kinds:
                    found.append(b.it)
        k = _kjoin(found)
        if k is None and nm in self.stored:
            # an accumulator: a local container into which carried text is stored
            vals = [self.kind(v, depth + 1) for v in self.stored[nm]]
            keys = [self.kind(x, depth + 1) for x in self.keyed.get(nm, [])]
            if any(v is not None for v in vals + keys):
                sub_ = _kjoin(vals)
                base = (_kjoin(keys) or sub_).label
                if sub_ is not None:
                    sub_ = _K(sub_.kinds, base + "-accumulator-entry", sub_.it, sub_.sub)
                k = _K({"container"}, base + "-accumulator", it=_kjoin(keys), sub=sub_)
        return k


class _BlankEval(ast.NodeTransformer):
    """`x := ''` partial evaluation of expressions and statement lists.  present=False: Python's semantics ('' is falsy);
    present=True: the same text treated as a value that is there (truthy) -- afterwards it is the same ''."""

    def __init__(self, x_texts, slot_texts, preserving, present, booldefs=None):
        self.x_texts, self.slot_texts, self.preserving, self.present = x_texts, slot_texts, preserving, present
        self.booldefs = booldefs or {}     # boolean locals bound once (`has_db = self.database is not None`)

    def _blank(self):
        c = ast.Constant(value="")
        c._c20_blank = True
        return c

    @staticmethod
    def _is_blank(n):
        return isinstance(n, ast.Constant) and n.value == ""

    def truth(self, n):
        if isinstance(n, ast.Constant):
            if getattr(n, "_c20_blank", False):
                return self.present
            return bool(n.value)
        if isinstance(n, ast.UnaryOp) and isinstance(n.op, ast.Not):
            t = self.truth(n.operand)
            return None if t is None else not t
        if isinstance(n, ast.Compare) and len(n.ops) == 1 and isinstance(n.ops[0], (ast.Is, ast.IsNot)):
            l, r_ = n.left, n.comparators[0]
            if (self._is_blank(l) and isinstance(r_, ast.Constant) and r_.value is None) or \
                    (self._is_blank(r_) and isinstance(l, ast.Constant) and l.value is None):
                return isinstance(n.ops[0], ast.IsNot)
        return None

    def visit(self, node):
        if isinstance(node, ast.expr) and isinstance(getattr(node, "ctx", ast.Load()), ast.Load) and \
                not isinstance(node, ast.Constant) and unparse(node) in self.x_texts:
            return self._blank()
        if isinstance(node, ast.Name) and isinstance(node.ctx, ast.Load) and node.id in self.booldefs and self._depth < 4:
            import copy
            self._depth += 1
            try:
                return self.visit(copy.deepcopy(self.booldefs[node.id]))
            finally:
                self._depth -= 1
        return super().visit(node)

    _depth = 0

    def visit_NamedExpr(self, node):
        return self.visit(node.value)

    def visit_Call(self, node):
        self.generic_visit(node)
        last = _last_name(node)
        if last in self.preserving and node.args:
            arg = node.args[-1] if last == "cast" else node.args[0]
            if self._is_blank(arg):
                return arg
        return node

    def visit_BinOp(self, node):
        self.generic_visit(node)
        if isinstance(node.op, ast.Add):
            if self._is_blank(node.left):
                return node.right
            if self._is_blank(node.right):
                return node.left
        return node

    def visit_UnaryOp(self, node):
        self.generic_visit(node)
        t = self.truth(node)
        return ast.Constant(value=t) if t is not None else node

    def visit_Compare(self, node):
        self.generic_visit(node)
        t = self.truth(node)
        return ast.Constant(value=t) if t is not None else node

    def visit_BoolOp(self, node):
        self.generic_visit(node)
        is_or = isinstance(node.op, ast.Or)
        rest = list(node.values)
        while len(rest) > 1:
            t = self.truth(rest[0])
            if t is None:
                break
            if t == is_or:          # short circuit: `T or ..` / `F and ..`
                return rest[0]
            rest = rest[1:]
        if len(rest) == 1:
            return rest[0]
        node.values = rest
        return node

    def visit_IfExp(self, node):
        node.test = self.visit(node.test)
        t = self.truth(node.test)
        if t is not None:
            return self.visit(node.body if t else node.orelse)
        node.body, node.orelse = self.visit(node.body), self.visit(node.orelse)
        return node

    # statements ---------------------------------------------------------------------------------
    def block(self, stmts):
        """(residue lines, terminated?) of a statement list."""
        import copy
        out = []
        for st in stmts:
            if isinstance(st, ast.If):
                test = self.visit(copy.deepcopy(st.test))
                t = self.truth(test)
                if t is None:
                    b, _tb = self.block(st.body)
                    o, _to = self.block(st.orelse)
                    out.append(f"if {unparse(test)}: {b} else: {o}")
                    continue
                lines, term = self.block(st.body if t else st.orelse)
                out.extend(lines)
                if term:
                    return out, True
                continue
            if isinstance(st, ast.Pass):
                continue
            new = self.visit(copy.deepcopy(st))
            if isinstance(new, ast.Assign) and self._is_blank(new.value) and all(unparse(t) in self.slot_texts for t in new.targets):
                continue        # stores '' back where '' was read from
            if isinstance(new, ast.AugAssign) and isinstance(new.op, ast.Add) and self._is_blank(new.value):
                continue        # appends nothing
            if isinstance(new, ast.Expr) and isinstance(new.value, ast.Constant):
                continue
            out.append(unparse(new))
            if isinstance(st, _TERMINATORS):
                return out, True
        return out, False


def _identity_callees(ctx, mod):
    """names of functions / methods of engine/url.py that hand their first argument back unchanged on every normal path
    (validators such as _assert_str): f('') is ''."""
    cache = ctx.__dict__.setdefault("_c20_identity", {})
    if mod.relpath in cache:
        return cache[mod.relpath]
    cands = [f for f in ctx.index.all_functions(mod) if not f.type_only and not f.is_overload]
    out = set()

    def is_id(v, p, depth=0):
        if isinstance(v, ast.Name):
            return v.id == p
        if isinstance(v, ast.IfExp):
            return is_id(v.body, p) and is_id(v.orelse, p)
        if isinstance(v, ast.Call) and v.args and depth < 3:
            last = _last_name(v)
            if last in out or last in ("str", "cast"):
                return is_id(v.args[-1] if last == "cast" else v.args[0], p, depth + 1)
        return False
    changed = True
    while changed:
        changed = False
        for f in cands:
            if f.name in out:
                continue
            ps = [p for p in f.params if p not in ("self", "cls")]
            rets = returns_of(f.node)
            if ps and rets and all(r_.value is not None and is_id(r_.value, ps[0]) for r_ in rets):
                out.add(f.name)
                changed = True
    cache[mod.relpath] = out
    return out


def _leaf_atoms(e, out, covered):
    if isinstance(e, ast.UnaryOp) and isinstance(e.op, ast.Not):
        covered.add(id(e))
        _leaf_atoms(e.operand, out, covered)
    elif isinstance(e, ast.BoolOp):
        covered.add(id(e))
        for v in e.values:
            _leaf_atoms(v, out, covered)
    else:
        out.append(e)


def _truth_sites(fn_node):
    """[(atom, site kind, site node)]: every expression whose truth value decides something.  kinds: 'if' (statement),
    'ifexp', 'filter' (comprehension condition), 'boolop' (a non-final operand of and/or in a value position)."""
    sites, covered = [], set()
    nodes = list(walk_local(fn_node, into_nested=True))
    for n in nodes:
        roots = []
        if isinstance(n, ast.If):
            roots = [(n.test, "if", n)]
        elif isinstance(n, ast.IfExp):
            roots = [(n.test, "ifexp", n)]
        elif isinstance(n, ast.comprehension):
            roots = [(t, "filter", n) for t in n.ifs]
        for root, kind, site in roots:
            atoms = []
            _leaf_atoms(root, atoms, covered)
            sites.extend((a, kind, site) for a in atoms)
    for n in nodes:
        if isinstance(n, ast.BoolOp) and id(n) not in covered:
            for v in n.values[:-1]:
                atoms = []
                _leaf_atoms(v, atoms, covered)
                sites.extend((a, "boolop", n) for a in atoms)
    return sites


def _blank_scopes(ctx, w, rx, create, blank_fields):
    """the functions of the round-trip path with their sources."""
    scopes, seen = [], set()
    qval = _K({"text", "container"}, "query-value", it=_K.text("query-value"), sub=_K.text("query-value"))
    qmap = _K({"container"}, "query", it=_K.text("query-key"), sub=qval)

    def follow(sc, leaf_for, depth, module_level_only):
        scopes.append(sc)
        if depth >= 2:
            return
        for c in calls_in(sc.fn.node, into_nested=True):
            target, bound_self = _resolve_helper(ctx, c, sc.fn)
            if target is None or target.node is sc.fn.node or (module_level_only and target.cls is not None):
                continue
            a = target.node.args
            if a.vararg is not None or any(isinstance(x, ast.Starred) for x in c.args) or any(k.arg is None for k in c.keywords):
                continue
            pos = [x.arg for x in a.posonlyargs + a.args]
            if bound_self and pos:
                pos = pos[1:]
            params = {}
            for p_, arg in list(zip(pos, c.args)) + [(k.arg, k.value) for k in c.keywords]:
                k = sc.kind(arg)
                if k is not None:
                    params[p_] = k
            sig = (target.key, tuple(sorted((p_, k.label, tuple(sorted(k.kinds))) for p_, k in params.items())))
            if sig in seen:
                continue
            seen.add(sig)
            ctx.functions_analysed.add(target.key)
            follow(_BlankScope(ctx, target, leaf_for(target), params, sc.role), leaf_for, depth + 1, module_level_only)

    # reader: regex groups and what parse_qsl() hands back
    rscopes = {sc.fn.key: sc for sc in _reader_scopes(ctx, rx)}

    def reader_leaf_for(fn):
        rsc = rscopes.get(fn.key)

        def leaf(e, _sc):
            if isinstance(e, ast.Call) and _last_name(e) in ("parse_qsl", "parse_qs"):
                return _K.seq("query-string", _K.text("query-item"))
            if isinstance(e, ast.Call) and isinstance(e.func, ast.Attribute) and e.func.attr == "groupdict" and blank_fields:
                # the whole match as a mapping: iterating it yields every group's text (subscripts by name are told apart above)
                return _K.seq("regex-groups", _K.text("/".join(sorted(blank_fields))))
            if rsc is not None and (isinstance(e, ast.Subscript) or (isinstance(e, ast.Call) and isinstance(e.func, ast.Attribute)
                                                                      and e.func.attr in ("get", "pop", "group") and e.args)):
                allg = _groups_of(e, rsc)
                gs = sorted(allg & blank_fields)
                if gs:
                    slot = unparse(e) if isinstance(e, ast.Subscript) else f"{unparse(e.func.value)}[{unparse(e.args[0])}]"
                    return _K({"text"}, "/".join(gs), slot=slot)
                if allg:
                    return _K((), "/".join(sorted(allg)))     # the text of a group that cannot be blank (host, port, scheme): not judged
            return None
        return leaf
    follow(_BlankScope(ctx, rx, reader_leaf_for(rx), {}, "reader"), reader_leaf_for, 0, True)

    # constructor: the parameters of URL.create
    def no_leaf_for(_fn):
        return lambda e, _sc: None
    cparams = {p: _K.text(p) for p in create.params if p in blank_fields}
    if "query" in create.params:
        cparams["query"] = qmap
    follow(_BlankScope(ctx, create, no_leaf_for(create), cparams, "constructor"), no_leaf_for, 0, False)

    # writer: the fields of self
    def writer_leaf_for(_fn):
        def leaf(e, _sc):
            f_ = self_attr(e)
            if f_ in blank_fields:
                return _K({"text"}, f_, slot=unparse(e))
            if f_ == "query":
                return qmap
            return None
        return leaf
    follow(_BlankScope(ctx, w, writer_leaf_for(w), {}, "writer"), writer_leaf_for, 0, False)
    return scopes


@R.rule("C20-R6", floor=8, template="T-GUARD",
        desc="'' is a value, not an absence: on the round-trip path (_parse_url and helpers, URL.create and the validators it "
             "calls, render_as_string and helpers) presence of a username / password / database text, of a query key / value "
             "and of what the query accumulator holds for a key is decided by `is None` / membership; a truthiness test on "
             "such a text must leave the same code to run for '' whichever way it goes")
def r6(ctx):
    w = ctx.func(f"{URLPY}::URL.render_as_string")
    rx = ctx.func(f"{URLPY}::_parse_url")
    create = ctx.func(f"{URLPY}::URL.create")
    wc = _writer_codecs(ctx, w)
    blank_fields = {f_ for f_ in ENCODED if wc.get(f_)}
    ctx.require(blank_fields, "render_as_string: no percent-encoded text component found")
    preserving = BLANK_PRESERVING | _identity_callees(ctx, rx.module)
    verdicts = {}      # key -> (bad messages, ok details, loc)

    def record(sc, label, bad=None, ok=None, node=None):
        key = f"{sc.fn.key}:blank-vs-absent:{label}"
        ent = verdicts.setdefault(key, ([], [], f"{sc.fn.module.path}:{getattr(node, 'lineno', sc.fn.node.lineno)}"))
        if bad:
            ent[0].append(bad)
        if ok:
            ent[1].append(ok)

    for sc in _blank_scopes(ctx, w, rx, create, blank_fields):
        booldefs = {n_: v for n_, v in sc.defs.items() if isinstance(v, (ast.Compare, ast.BoolOp, ast.UnaryOp))}
        sites = []
        for atom, skind, site in _truth_sites(sc.fn.node):
            if isinstance(atom, ast.Name) and atom.id in booldefs:      # a boolean local: judge what it was computed from
                inner = []
                _leaf_atoms(booldefs[atom.id], inner, set())
                sites.extend((a_, skind, site) for a_ in inner)
            else:
                sites.append((atom, skind, site))
        for atom, skind, site in sites:
            # presence tests that tell '' from an absent value
            if isinstance(atom, ast.Compare) and len(atom.ops) == 1:
                op, l, r_ = atom.ops[0], atom.left, atom.comparators[0]
                if isinstance(op, (ast.Is, ast.IsNot)):
                    other = r_ if (isinstance(l, ast.Constant) and l.value is None) else (l if isinstance(r_, ast.Constant) and r_.value is None else None)
                    k = sc.kind(other) if other is not None else None
                    if k is not None and "text" in k.kinds:
                        for lab in k.label.split("/"):
                            record(sc, lab, ok=f"`{unparse(atom)}`", node=atom)
                elif isinstance(op, (ast.In, ast.NotIn)):
                    kc, kl = sc.kind(r_), sc.kind(l)
                    if kc is not None and "container" in kc.kinds and kl is not None and "text" in kl.kinds and \
                            isinstance(r_, ast.Name) and r_.id in sc.stored:
                        record(sc, kc.label, ok=f"membership `{unparse(atom)}`", node=atom)
                continue
            subject = atom
            if isinstance(atom, ast.Call) and _last_name(atom) == "len" and len(atom.args) == 1:
                subject = atom.args[0]
            elif isinstance(atom, ast.Call) and _last_name(atom) in ("isinstance", "hasattr", "callable"):
                continue
            k = sc.kind(subject)
            if k is None or "text" not in k.kinds:
                continue
            # a truthiness test on a text that may be '': do both outcomes leave the same code for ''?
            x_texts = {unparse(subject)}
            cur = subject.value if isinstance(subject, ast.NamedExpr) else subject
            if isinstance(subject, ast.NamedExpr):
                x_texts |= {subject.target.id, unparse(cur)}
            hops = 0
            while isinstance(cur, ast.Name) and hops < 4:
                ds = [d for d in sc._reaching(subject, cur.id) if d.kind == "assign" and d.path == () and d.value is not None]
                nxt = ds[0].value if len(ds) == 1 else sc.defs.get(cur.id)
                if nxt is None:
                    break
                x_texts.add(unparse(nxt))
                cur, hops = nxt, hops + 1
            slots = {t for t in x_texts} | ({k.slot} if k.slot else set())
            if k.slot:
                x_texts.add(k.slot)
            real = _BlankEval(x_texts, slots, preserving, False, booldefs)
            hyp = _BlankEval(x_texts, slots, preserving, True, booldefs)
            import copy
            if skind == "filter":
                same, how = False, "the item is skipped"
            elif skind in ("ifexp", "boolop"):
                a_, b_ = unparse(real.visit(copy.deepcopy(site))), unparse(hyp.visit(copy.deepcopy(site)))
                same, how = a_ == b_, f"`{unparse(site)}` evaluates to {a_} where a present value gives {b_}"
            else:
                blk = sc.pm.get(site)
                rest = []
                for fld in ("body", "orelse", "finalbody"):
                    seq = getattr(blk, fld, None)
                    if isinstance(seq, list) and any(s is site for s in seq):
                        rest = seq[[i for i, s in enumerate(seq) if s is site][0]:]
                if not rest:
                    rest = [site]
                (ra, _t1), (rb, _t2) = real.block(rest), hyp.block(rest)
                same = ra == rb
                while ra and rb and ra[-1] == rb[-1]:      # what follows either way is of no interest in the message
                    ra, rb = ra[:-1], rb[:-1]
                how = (f"what runs for '' is {('; '.join(ra) or 'nothing')[:160]!r}, for any other present value "
                       f"{('; '.join(rb) or 'nothing')[:160]!r}")
            labs = k.label.split("/")
            if same:
                for lab in labs:
                    record(sc, lab, ok=f"truthiness test `{unparse(atom)}` cannot tell '' from a present value (same residue)", node=atom)
                continue
            origin = "" if unparse(subject) in (k.slot, None) or not k.slot else f" (= `{k.slot}`)"
            for lab in labs:
                record(sc, lab, node=atom, bad=(
                    f"`{unparse(atom)}`{origin} in {sc.fn.qualname}() decides on the truthiness of the `{lab}` text: "
                    f"'' is a legal value (render_as_string writes the delimiter followed by nothing and the reader hands '' back) "
                    f"but is treated like an absent one -- {how}; presence must be tested with `is None` / `in`, so "
                    f"make_url(u.render_as_string(hide_password=False)) != u for a blank value"))
    for key in sorted(verdicts):
        bad, ok, loc = verdicts[key]
        ctx.check(not bad, key, "; ".join(bad), "; ".join(ok)[:200], loc)


# ------------------------------------------------------------------------------------------ self test
R.mutant("r1-password-not-unquoted", URLPY,
         sub('        for comp in "username", "password", "database":\n', '        for comp in "username", "database":\n'), "C20-R1")
R.mutant("r1-database-quote-plus", URLPY,
         sub('            s += "/" + quote(self.database, safe=" +/")\n', '            s += "/" + quote_plus(self.database)\n'), "C20-R1")
R.mutant("r1-host-unquoted-by-reader", URLPY,
         sub('        components["host"] = ipv4host or ipv6host\n', '        components["host"] = ipv4host or ipv6host\n        components["host"] = unquote(components["host"])\n'), "C20-R1")
R.mutant("r2-at-sign-safe-in-password", URLPY,
         sub('                    else quote(str(self.password), safe=" +")\n', '                    else quote(str(self.password), safe=" +@")\n'), "C20-R2")
R.mutant("r2-colon-safe-in-username", URLPY,
         sub('            s += quote(self.username, safe=" +")\n', '            s += quote(self.username, safe=" +:")\n'), "C20-R2")
R.mutant("r2-question-mark-safe-in-database", URLPY,
         sub('quote(self.database, safe=" +/")', 'quote(self.database, safe=" +/?")'), "C20-R2")
R.mutant("r3-eq-forgets-port", URLPY, sub("            and self.port == other.port\n", ""), "C20-R3")
R.mutant("r3-copy-swaps-host-database", URLPY,
         sub("            self.host,\n            self.port,\n            self.database,\n            # note this is",
             "            self.database,\n            self.port,\n            self.host,\n            # note this is"), "C20-R3")
R.mutant("r3-hash-includes-object-id", URLPY, sub("        return hash(str(self))\n", "        return hash((str(self), id(self)))\n"), "C20-R3")
R.mutant("r4-no-brackets", URLPY, sub('                s += f"[{self.host}]"\n', "                s += self.host\n"), "C20-R4")
R.mutant("r4-bare-host-admits-colon", URLPY, sub(r"(?P<ipv4host>[^/:\?]+)", r"(?P<ipv4host>[^/\?]+)"), "C20-R4")
R.mutant("r4-port-not-int", URLPY, sub('            components["port"] = int(components["port"])\n', '            components["port"] = components["port"]\n'), "C20-R4")
R.mutant("r1-query-written-with-plain-quote", URLPY,
         sub('                f"{quote_plus(k)}={quote_plus(element)}"\n', '                f"{quote(k)}={quote(element)}"\n'), "C20-R1")
# benign
R.mutant("benign-rename-accumulator", URLPY,
         sub('            s += "/" + quote(self.database, safe=" +/")\n', '            _db = quote(self.database, safe=" +/")\n            s += "/" + _db\n'), None)
R.mutant("benign-eq-reordered", URLPY,
         sub("            and self.database == other.database\n            and self.query == other.query\n",
             "            and other.query == self.query\n            and self.database == other.database\n"), None)
R.mutant("benign-stricter-safe", URLPY, sub('            s += quote(self.username, safe=" +")\n', '            s += quote(self.username, safe=" ")\n'), None)

# ---- seeds / strengthen round (str-h) ----------------------------------------------------------
_HELPER = ('def _parse_url(name: str) -> URL:\n',
           'def _rfc_1738_quote(text: str, safe: str = " +/") -> str:\n    return quote(text, safe=safe)\n\n\n'
           'def _parse_url(name: str) -> URL:\n')
_PW_VIA_HELPER = sub('                    else quote(str(self.password), safe=" +")\n',
                     '                    else _rfc_1738_quote(str(self.password), safe=" +")\n')
_DB_VIA_HELPER = sub('            s += "/" + quote(self.database, safe=" +/")\n', '            s += "/" + _rfc_1738_quote(self.database)\n')
# seed C20/1: quoting routed through a helper; the username call takes the helper's default `safe`, which keeps '/'
R.mutant("r2-seed1-helper-default-safe-for-username", URLPY,
         chain(sub(*_HELPER), _PW_VIA_HELPER, _DB_VIA_HELPER,
               sub('            s += quote(self.username, safe=" +")\n', '            s += _rfc_1738_quote(self.username)\n')), "C20-R2")
R.mutant("r2-helper-module-constant-safe", URLPY,
         chain(sub('def _parse_url(name: str) -> URL:\n',
                   '_USERINFO_SAFE = " +:"\n\n\ndef _q(text: str) -> str:\n    keep = _USERINFO_SAFE\n    return quote(text, safe=keep)\n\n\n'
                   'def _parse_url(name: str) -> URL:\n'),
               sub('            s += quote(self.username, safe=" +")\n', '            s += _q(self.username)\n')), "C20-R2")
R.mutant("r1-helper-without-encoder", URLPY,
         chain(sub('def _parse_url(name: str) -> URL:\n',
                   'def _ident(text: str) -> str:\n    return text\n\n\ndef _parse_url(name: str) -> URL:\n'),
               sub('            s += "/" + quote(self.database, safe=" +/")\n', '            s += "/" + _ident(self.database)\n')), "C20-R1")
# the same refactoring done right: every call site keeps its own safe set
R.mutant("benign-quoting-through-helper", URLPY,
         chain(sub(*_HELPER), _PW_VIA_HELPER, _DB_VIA_HELPER,
               sub('            s += quote(self.username, safe=" +")\n', '            s += _rfc_1738_quote(self.username, safe=" +")\n')), None)
R.mutant("benign-quoting-through-static-method", URLPY,
         chain(sub('    def __repr__(self) -> str:\n        return self.render_as_string()\n',
                   '    @staticmethod\n    def _q(text: str, extra: str = "") -> str:\n        enc = quote(text, safe=" +" + extra)\n        return enc\n\n'
                   '    def __repr__(self) -> str:\n        return self.render_as_string()\n'),
               sub('            s += quote(self.username, safe=" +")\n', '            s += self._q(self.username)\n'),
               sub('            s += "/" + quote(self.database, safe=" +/")\n', '            s += "/" + self._q(self.database, "/")\n')), None)
R.mutant("r2-static-helper-extra-safe-colon", URLPY,
         chain(sub('    def __repr__(self) -> str:\n        return self.render_as_string()\n',
                   '    @staticmethod\n    def _q(text: str, extra: str = "") -> str:\n        enc = quote(text, safe=" +" + extra)\n        return enc\n\n'
                   '    def __repr__(self) -> str:\n        return self.render_as_string()\n'),
               sub('            s += quote(self.username, safe=" +")\n', '            s += self._q(self.username, extra=":")\n')), "C20-R2")
# seed C20/2: the reader normalises the URL text; the writer leaves ' ' unescaped and `database` can end the URL
R.mutant("r5-seed2-make-url-strips-text", URLPY,
         sub("        return _parse_url(name_or_url)\n", "        return _parse_url(name_or_url.strip())\n"), "C20-R5")
R.mutant("r5-match-on-rstripped-text", URLPY,
         sub("    m = pattern.match(name)\n", "    m = pattern.match(name.rstrip())\n"), "C20-R5")
R.mutant("r5-text-lowercased", URLPY,
         sub("        return _parse_url(name_or_url)\n", "        return _parse_url(name_or_url.lower())\n"), "C20-R5")
R.mutant("r5-decoded-component-stripped", URLPY,
         sub("                components[comp] = unquote(components[comp])\n",
             "                components[comp] = unquote(components[comp]).strip()\n"), "C20-R5")
R.mutant("r5-query-keys-lowercased", URLPY,
         sub('                if key in query:\n', '                key = key.lower()\n                if key in query:\n'), "C20-R5")
R.mutant("r5-database-trailing-slash-dropped", URLPY,
         sub('        ipv4host = components.pop("ipv4host")\n',
             '        if components["database"]:\n            components["database"] = components["database"].rstrip("/")\n'
             '        ipv4host = components.pop("ipv4host")\n'), "C20-R5")
# normalisations that only touch characters the writer always percent-encodes, or that are diagnostics
R.mutant("benign-reader-drops-newlines-and-nul", URLPY,
         sub("        return _parse_url(name_or_url)\n",
             '        return _parse_url(name_or_url.replace("\\n", "").rstrip("\\r\\x00"))\n'), None)
R.mutant("benign-normalised-text-in-error-message", URLPY,
         sub('            "Could not parse SQLAlchemy URL from given URL string"\n',
             '            "Could not parse SQLAlchemy URL from given URL string %r" % name.strip()[0:8]\n'), None)
R.mutant("benign-stricter-safe-and-lstrip", URLPY,
         sub("        return _parse_url(name_or_url)\n", '        return _parse_url(name_or_url.lstrip(" \\t"))\n'), None)

# ---- robustify round (rob-E2): the stored benign refactors rfE_13..15 as families + variants of my own ------------
_W_PASSWORD = ('                s += ":" + (\n                    "***"\n                    if hide_password\n'
               '                    else quote(str(self.password), safe=" +")\n                )\n')
_W_HOST = ('        if self.host is not None:\n            if ":" in self.host:\n                s += f"[{self.host}]"\n'
           '            else:\n                s += self.host\n')
_W_QUERY = ('        if self.query:\n            keys = list(self.query)\n            keys.sort()\n')
_W_QUERY_ITER = '                for element in util.to_list(self.query[k])\n'
_RFE13 = chain(
    sub(_W_PASSWORD, '                if hide_password:\n                    rendered_password = "***"\n                else:\n'
                     '                    rendered_password = quote(str(self.password), safe=" +")\n'
                     '                s += ":" + rendered_password\n'),
    sub(_W_HOST, '        host = self.host\n        if host is not None:\n            if ":" in host:\n                s += f"[{host}]"\n'
                 '            else:\n                s += host\n'),
    sub(_W_QUERY, '        query = self.query\n        if query:\n            keys = sorted(query)\n'),
    sub(_W_QUERY_ITER, '                for element in util.to_list(query[k])\n'))
R.mutant("benign-rfE13-writer-aliases-and-if-else", URLPY, _RFE13, None)
R.mutant("r4-aliased-host-never-bracketed", URLPY,
         chain(_RFE13, sub('                s += f"[{host}]"\n', '                s += host\n')), "C20-R4")
R.mutant("r2-aliased-username-colon-safe", URLPY,
         chain(sub('        if self.username is not None:\n            s += quote(self.username, safe=" +")\n',
                   '        username = self.username\n        if username is not None:\n            s += quote(username, safe=" +:")\n')),
         "C20-R2")
R.mutant("benign-username-alias", URLPY,
         sub('        if self.username is not None:\n            s += quote(self.username, safe=" +")\n',
             '        username = self.username\n        if username is not None:\n            s += quote(username, safe=" +")\n'), None)
R.mutant("benign-host-test-inverted", URLPY,
         sub(_W_HOST, '        if self.host is not None:\n            if ":" not in self.host:\n                s += self.host\n'
                      '            else:\n                s += "[" + self.host + "]"\n'), None)
R.mutant("r4-host-test-inverted-arms-kept", URLPY,
         sub('            if ":" in self.host:\n', '            if ":" not in self.host:\n'), "C20-R4")
R.mutant("benign-host-through-temporary", URLPY,
         sub(_W_HOST, '        if self.host is not None:\n            hostpart = f"[{self.host}]" if ":" in self.host else self.host\n'
                      '            s += hostpart\n'), None)
R.mutant("r4-host-temporary-one-bracket", URLPY,
         sub(_W_HOST, '        if self.host is not None:\n            hostpart = f"[{self.host}" if ":" in self.host else self.host\n'
                      '            s += hostpart\n'), "C20-R4")
R.mutant("r4-port-without-colon", URLPY, sub('            s += ":" + str(self.port)\n', '            s += str(self.port)\n'), "C20-R4")

_R_QUERY_BLOCK = ('        query: Optional[Dict[str, Union[str, List[str]]]]\n        if components["query"] is not None:\n'
                  '            query = {}\n\n            for key, value in parse_qsl(\n'
                  '                components["query"], keep_blank_values=True\n            ):\n'
                  '                if key in query:\n                    query[key] = util.to_list(query[key])\n'
                  '                    cast("List[str]", query[key]).append(value)\n                else:\n'
                  '                    query[key] = value\n        else:\n            query = None\n'
                  '        components["query"] = query\n')


def _qs_helper(parse_call, extra=""):
    return chain(
        sub('def _parse_url(name: str) -> URL:\n',
            'def _parse_query_string(query_string):\n    if query_string is None:\n        return None\n\n'
            '    query = {}\n\n    for key, value in ' + parse_call + ':\n' + extra +
            '        if key in query:\n            query[key] = util.to_list(query[key])\n'
            '            cast("List[str]", query[key]).append(value)\n        else:\n            query[key] = value\n'
            '    return query\n\n\ndef _parse_url(name: str) -> URL:\n'),
        sub(_R_QUERY_BLOCK, '        components["query"] = _parse_query_string(components["query"])\n'))


R.mutant("benign-rfE14-query-parsing-in-helper", URLPY, _qs_helper("parse_qsl(query_string, keep_blank_values=True)"), None)
R.mutant("r1-query-helper-drops-blank-values", URLPY, _qs_helper("parse_qsl(query_string)"), "C20-R1")
R.mutant("r5-query-helper-lowercases-keys", URLPY,
         _qs_helper("parse_qsl(query_string, keep_blank_values=True)", "        key = key.lower()\n"), "C20-R5")
R.mutant("r5-query-helper-strips-raw-text", URLPY,
         _qs_helper("parse_qsl(query_string.rstrip('+'), keep_blank_values=True)"), "C20-R5")
_R_DECODE = ('        for comp in "username", "password", "database":\n            if components[comp] is not None:\n'
             '                components[comp] = unquote(components[comp])\n\n'
             '        ipv4host = components.pop("ipv4host")\n        ipv6host = components.pop("ipv6host")\n'
             '        components["host"] = ipv4host or ipv6host\n')


def _decode_helper(comps):
    return chain(
        sub('def _parse_url(name: str) -> URL:\n',
            'def _decode_components(parts):\n    for comp in ' + comps + ':\n        raw = parts[comp]\n'
            '        if raw is not None:\n            parts[comp] = unquote(raw)\n'
            '    v4 = parts.pop("ipv4host")\n    v6 = parts.pop("ipv6host")\n    host = v4 or v6\n    parts["host"] = host\n\n\n'
            'def _parse_url(name: str) -> URL:\n'),
        sub(_R_DECODE, '        _decode_components(components)\n'))


R.mutant("benign-decoding-and-host-in-dict-helper", URLPY, _decode_helper('("username", "password", "database")'), None)
R.mutant("r1-dict-helper-forgets-password", URLPY, _decode_helper('("username", "database")'), "C20-R1")
R.mutant("benign-regex-compiled-at-module-level", URLPY,
         chain(sub('def _parse_url(name: str) -> URL:\n    pattern = re.compile(\n', '_URL_PATTERN = re.compile(\n'),
               sub('            """,\n        re.X,\n    )\n\n    m = pattern.match(name)\n',
                   '            """,\n        re.X,\n    )\n\n\ndef _parse_url(name: str) -> URL:\n    m = _URL_PATTERN.match(name)\n')), None)

_EQ_HEAD = '        return (\n            isinstance(other, URL)\n            and self.drivername == other.drivername\n'
_EQ_GUARD = ('        if not isinstance(other, URL):\n            return False\n\n'
             '        return (\n            self.drivername == other.drivername\n')
_MAKE_URL_TAIL = ('    elif not isinstance(name_or_url, URL) and not hasattr(\n'
                  '        name_or_url, "_sqla_is_testing_if_this_is_a_mock_object"\n    ):\n'
                  '        raise exc.ArgumentError(\n            f"Expected string or URL object, got {name_or_url!r}"\n        )\n'
                  '    else:\n        return name_or_url\n')
R.mutant("benign-rfE15-eq-early-return-make-url-guards", URLPY,
         chain(sub(_EQ_HEAD, _EQ_GUARD),
               sub(_MAKE_URL_TAIL, '\n    if not isinstance(name_or_url, URL):\n        if not hasattr(\n'
                                   '            name_or_url, "_sqla_is_testing_if_this_is_a_mock_object"\n        ):\n'
                                   '            raise exc.ArgumentError(\n                f"Expected string or URL object, got {name_or_url!r}"\n'
                                   '            )\n\n    return name_or_url\n')), None)
R.mutant("r3-eq-early-return-forgets-port", URLPY,
         chain(sub(_EQ_HEAD, _EQ_GUARD), sub("            and self.port == other.port\n", "")), "C20-R3")
R.mutant("r3-eq-port-or-instead-of-and", URLPY,
         sub("            and self.port == other.port\n", "            or self.port == other.port\n"), "C20-R3")
_EQ_BODY = ('        return (\n            isinstance(other, URL)\n            and self.drivername == other.drivername\n'
            '            and self.username == other.username\n            and self.password == other.password\n'
            '            and self.host == other.host\n            and self.database == other.database\n'
            '            and self.query == other.query\n            and self.port == other.port\n        )\n')
R.mutant("benign-eq-as-guard-sequence", URLPY,
         sub(_EQ_BODY, '        if not isinstance(other, URL):\n            return False\n'
                       '        if self.drivername != other.drivername or self.port != other.port:\n            return False\n'
                       '        same_login = self.username == other.username and self.password == other.password\n'
                       '        if not same_login:\n            return False\n'
                       '        return (self.host, self.database, self.query) == (other.host, other.database, other.query)\n'), None)
R.mutant("r3-eq-guard-sequence-skips-password", URLPY,
         sub(_EQ_BODY, '        if not isinstance(other, URL):\n            return False\n'
                       '        if self.drivername != other.drivername or self.port != other.port:\n            return False\n'
                       '        same_login = self.username == other.username\n'
                       '        if not same_login:\n            return False\n'
                       '        return (self.host, self.database, self.query) == (other.host, other.database, other.query)\n'), "C20-R3")
R.mutant("benign-host-rendering-in-method", URLPY,
         chain(sub(_W_HOST, '        if self.host is not None:\n            s += self._render_host()\n'),
               sub('    def __repr__(self) -> str:\n        return self.render_as_string()\n',
                   '    def _render_host(self) -> str:\n        host = self.host\n        if ":" in host:\n            return "[" + host + "]"\n'
                   '        return host\n\n    def __repr__(self) -> str:\n        return self.render_as_string()\n')), None)
R.mutant("r4-host-rendering-method-brackets-always", URLPY,
         chain(sub(_W_HOST, '        if self.host is not None:\n            s += self._render_host()\n'),
               sub('    def __repr__(self) -> str:\n        return self.render_as_string()\n',
                   '    def _render_host(self) -> str:\n        host = self.host\n        return "[" + host + "]"\n\n'
                   '    def __repr__(self) -> str:\n        return self.render_as_string()\n')), "C20-R4")
R.mutant("benign-hash-of-rendered-string-local", URLPY,
         sub("        return hash(str(self))\n", "        rendered = self.render_as_string()\n        return hash(rendered)\n"), None)
R.mutant("benign-copy-through-locals", URLPY,
         sub("        return self.__class__.create(\n            self.drivername,\n            self.username,\n",
             "        driver = self.drivername\n        return self.__class__.create(\n            driver,\n            self.username,\n"), None)
_W_BODY = '        s = self.drivername + "://"\n        if self.username is not None:\n            s += quote(self.username, safe=" +")\n            if self.password is not None:\n                s += ":" + (\n                    "***"\n                    if hide_password\n                    else quote(str(self.password), safe=" +")\n                )\n            s += "@"\n        if self.host is not None:\n            if ":" in self.host:\n                s += f"[{self.host}]"\n            else:\n                s += self.host\n        if self.port is not None:\n            s += ":" + str(self.port)\n        if self.database is not None:\n            s += "/" + quote(self.database, safe=" +/")\n        if self.query:\n            keys = list(self.query)\n            keys.sort()\n            s += "?" + "&".join(\n                f"{quote_plus(k)}={quote_plus(element)}"\n                for k in keys\n                for element in util.to_list(self.query[k])\n            )\n        return s\n\n'
_W_BODY_LIST = '        parts = [self.drivername, "://"]\n        user, pw = self.username, self.password\n        if user is not None:\n            parts.append(quote(user, safe=" +"))\n            if pw is not None:\n                parts.append(":")\n                parts.append("***" if hide_password else quote(str(pw), safe=" +"))\n            parts.append("@")\n        if self.host is not None:\n            parts.append("[%s]" % self.host if ":" in self.host else self.host)\n        if self.port is not None:\n            parts.append(":%s" % self.port)\n        if self.database is not None:\n            parts.extend(["/", quote(self.database, safe=" +/")])\n        if self.query:\n            pairs = []\n            for k in sorted(self.query):\n                for element in util.to_list(self.query[k]):\n                    pairs.append(quote_plus(k) + "=" + quote_plus(element))\n            parts.append("?" + "&".join(pairs))\n        return "".join(parts)\n\n'
R.mutant("benign-writer-collects-parts-and-joins", URLPY, sub(_W_BODY, _W_BODY_LIST), None)
R.mutant("r4-parts-writer-host-never-bracketed", URLPY,
         sub(_W_BODY, _W_BODY_LIST.replace('parts.append("[%s]" % self.host if ":" in self.host else self.host)', 'parts.append(self.host)')), "C20-R4")
R.mutant("r2-parts-writer-password-keeps-at-sign", URLPY,
         sub(_W_BODY, _W_BODY_LIST.replace('quote(str(pw), safe=" +")', 'quote(str(pw), safe=" +@")')), "C20-R2")
R.mutant("benign-reader-early-raise-and-value-local", URLPY,
         chain(sub('    m = pattern.match(name)\n    if m is not None:\n        components = m.groupdict()\n',
                   '    m = pattern.match(name)\n    if m is None:\n        raise exc.ArgumentError(\n'
                   '            "Could not parse SQLAlchemy URL from given URL string"\n        )\n    if True:\n        components = m.groupdict()\n'),
               sub('        for comp in "username", "password", "database":\n            if components[comp] is not None:\n'
                   '                components[comp] = unquote(components[comp])\n',
                   '        for comp in ("username", "password", "database"):\n            value = components[comp]\n'
                   '            if value is not None:\n                components[comp] = unquote(value)\n'),
               sub('        return URL.create(name, **components)  # type: ignore[arg-type]\n\n    else:\n        raise exc.ArgumentError(\n'
                   '            "Could not parse SQLAlchemy URL from given URL string"\n        )\n',
                   '        return URL.create(name, **components)  # type: ignore[arg-type]\n')), None)
R.mutant("r5-value-local-stripped-after-decoding", URLPY,
         sub('        for comp in "username", "password", "database":\n            if components[comp] is not None:\n'
             '                components[comp] = unquote(components[comp])\n',
             '        for comp in ("username", "password", "database"):\n            value = components[comp]\n'
             '            if value is not None:\n                value = unquote(value)\n                components[comp] = value.strip()\n'), "C20-R5")

# ---- round-2 seeds (str2-i): C20-R6, '' is a value -----------------------------------------------------------------
_ACC_TEST = ('                if key in query:\n                    query[key] = util.to_list(query[key])\n'
             '                    cast("List[str]", query[key]).append(value)\n')
# seed C20_3: presence of the key in the accumulator decided by the truthiness of what is stored for it
R.mutant("r6-seed3-accumulator-presence-by-truthiness", URLPY,
         sub(_ACC_TEST, '                existing = query.get(key)\n                if existing:\n'
                        '                    query[key] = existing = util.to_list(existing)\n'
                        '                    existing.append(value)\n'), "C20-R6")
R.mutant("r6-accumulator-get-in-test", URLPY, sub('                if key in query:\n', '                if query.get(key):\n'), "C20-R6")
R.mutant("r6-accumulator-truthiness-inside-query-helper", URLPY,
         chain(_qs_helper("parse_qsl(query_string, keep_blank_values=True)"),
               sub('        if key in query:\n', '        if query.get(key, None):\n')), "C20-R6")
# seed C20_4: the constructor collapses '' to None although the writer emits `user:pw@` iff username is not None
R.mutant("r6-seed4-create-blank-username-to-none", URLPY,
         sub('            cls._assert_none_str(username, "username"),\n', '            cls._assert_none_str(username or None, "username"),\n'), "C20-R6")
R.mutant("r6-create-blank-database-to-none-ifexp", URLPY,
         sub('            cls._assert_none_str(database, "database"),\n',
             '            cls._assert_none_str(database if database else None, "database"),\n'), "C20-R6")
R.mutant("r6-validator-maps-blank-to-none", URLPY,
         sub('        if v is None:\n            return v\n\n        return cls._assert_str(v, paramname)\n',
             '        if not v:\n            return None\n\n        return cls._assert_str(v, paramname)\n'), "C20-R6")
R.mutant("r6-writer-database-by-truthiness", URLPY,
         sub('        if self.database is not None:\n', '        if self.database:\n'), "C20-R6")
R.mutant("r6-writer-password-flag-by-truthiness", URLPY,
         sub('            if self.password is not None:\n                s += ":" + (\n',
             '            no_password = not self.password\n            if not no_password:\n                s += ":" + (\n'), "C20-R6")
R.mutant("r6-writer-skips-blank-query-values", URLPY,
         sub('                for element in util.to_list(self.query[k])\n',
             '                for element in util.to_list(self.query[k])\n                if element\n'), "C20-R6")
R.mutant("r6-reader-blank-password-becomes-none", URLPY,
         sub('            if components[comp] is not None:\n                components[comp] = unquote(components[comp])\n',
             '            components[comp] = unquote(components[comp]) if components[comp] else None\n'), "C20-R6")
# the same places written differently, '' still told from None / missing
R.mutant("benign-r6-accumulator-presence-via-get-is-none", URLPY,
         sub(_ACC_TEST, '                existing = query.get(key)\n                if existing is not None:\n'
                        '                    query[key] = existing = util.to_list(existing)\n'
                        '                    existing.append(value)\n'), None)
R.mutant("benign-r6-accumulator-branches-swapped", URLPY,
         sub(_ACC_TEST + '                else:\n                    query[key] = value\n',
             '                if key not in query:\n                    query[key] = value\n                else:\n'
             '                    values = util.to_list(query[key])\n                    values.append(value)\n'
             '                    query[key] = values\n'), None)
R.mutant("benign-r6-decode-under-truthiness", URLPY,       # unquote('') == '': both outcomes agree for a blank text
         sub('            if components[comp] is not None:\n', '            if components[comp]:\n'), None)
R.mutant("benign-r6-validator-inverted", URLPY,
         sub('        if v is None:\n            return v\n\n        return cls._assert_str(v, paramname)\n',
             '        if v is not None:\n            return cls._assert_str(v, paramname)\n        return None\n'), None)
R.mutant("benign-r6-create-validates-through-local", URLPY,
         sub('        return cls(\n            cls._assert_str(drivername, "drivername"),\n            cls._assert_none_str(username, "username"),\n',
             '        user = cls._assert_none_str(username, "username")\n'
             '        return cls(\n            cls._assert_str(drivername, "drivername"),\n            user,\n'), None)
R.mutant("benign-r6-writer-presence-flags", URLPY,
         chain(sub('        if self.database is not None:\n', '        has_database = self.database is not None\n        if has_database:\n'),
               sub('            if self.password is not None:\n                s += ":" + (\n',
                   '            no_password = self.password is None\n            if not no_password:\n                s += ":" + (\n')), None)
R.mutant("r6-reader-drops-blank-groups", URLPY,
         sub("        components = m.groupdict()\n", "        components = {g: t for g, t in m.groupdict().items() if t}\n"
                                                   "        components.update((g, None) for g in m.groupdict() if g not in components)\n"), "C20-R6")
R.mutant("r6-create-rebinds-blank-username", URLPY,
         sub('        return cls(\n            cls._assert_str(drivername, "drivername"),\n',
             '        if not username:\n            username = None\n        return cls(\n            cls._assert_str(drivername, "drivername"),\n'), "C20-R6")
R.mutant("r6-parts-writer-password-by-truthiness", URLPY,
         sub(_W_BODY, _W_BODY_LIST.replace("            if pw is not None:\n", "            if pw:\n")), "C20-R6")
