"""C44 -- Version counters prevent lost updates (version criterion + rowcount check)."""

from __future__ import annotations

import ast
import itertools
from typing import Dict, List, Optional, Set, Tuple

from ..astutil import calls_in, dotted, dotted_reads, name_stores, test_atoms, unparse, walk_local, walk_stmts
from ..cfg import no_exc
from ..report import Registry, sub
from ._helpers_rules_d import call_nodes, callee_is, const_is, guard_atom_set

R = Registry(
    "C44",
    title="Version counters prevent lost updates",
    decides=(
        "each of the three statement emitters (UPDATE, post-update UPDATE, DELETE) adds `version_id_col == bindparam` "
        "exactly when the table carries the version column, binds it under the key the collector fills with the "
        "LOADED version, checks the matched row count after executing and raises StaleDataError under a condition "
        "that depends only on row counts, the dialect's rowcount capabilities and the versioning flag, never uses "
        "executemany for versioned rows when only single-row counts are reliable, and the collectors put the old "
        "version into the WHERE parameter and the generator's result into the SET parameter."
    ),
    not_decided="interleavings of concurrent transactions; isolation behaviour of the backend; server-side version generation.",
)

PERS = "orm/persistence.py"
EMITTERS = {
    "_emit_update_statements": "_collect_update_commands",
    "_emit_post_update_statements": "_collect_post_update_commands",
    "_emit_delete_statements": "_collect_delete_commands",
}


def _version_flag(ctx, f) -> str:
    """Local that holds `mapper.version_id_col is not None and mapper.version_id_col in mapper._cols_by_table[table]`."""
    for n, v, st in name_stores(f.node):
        if v is None or not isinstance(v, ast.BoolOp) or not isinstance(v.op, ast.And):
            continue
        parts = {unparse(x).replace(" ", "") for x in v.values}
        if parts == {"mapper.version_id_colisnotNone", "mapper.version_id_colinmapper._cols_by_table[table]"}:
            return n
    return ""


def _version_flag_loose(ctx, f) -> str:
    """The strict flag, or (so that the other rules keep working when C44-R1 already reports a wrong definition)
    the local whose definition tests `mapper.version_id_col is not None`."""
    strict = _version_flag(ctx, f)
    if strict:
        return strict
    for n, v, st in name_stores(f.node):
        if v is not None and "mapper.version_id_col is not None" in unparse(v):
            return n
    return ""


def _stmt_builder(f):
    for n in walk_local(f.node):
        if isinstance(n, ast.FunctionDef):
            if any(isinstance(c.func, ast.Attribute) and c.func.attr in ("update", "delete") and dotted(c.func.value) == "table" for c in calls_in(n)):
                return n
    return None


def _version_criterion(builder) -> List[Tuple[ast.Call, ast.Compare, ast.Call]]:
    """[(append call, comparison, bindparam call)] for `clauses._append_inplace(mapper.version_id_col == bindparam(..))`."""
    out = []
    for c in calls_in(builder):
        if isinstance(c.func, ast.Attribute) and c.func.attr in ("_append_inplace", "append", "where") and c.args:
            cmp_ = c.args[0]
            if isinstance(cmp_, ast.Compare) and len(cmp_.ops) == 1 and isinstance(cmp_.ops[0], ast.Eq) and dotted(cmp_.left) == "mapper.version_id_col":
                bp = cmp_.comparators[0]
                if isinstance(bp, ast.Call) and callee_is(bp, "bindparam"):
                    out.append((c, cmp_, bp))
    return out


@R.rule("C44-R1", floor=9, template="T-GUARD",
        desc="each emitter: the versioning flag is `version_id_col is not None and in this table's columns`; the "
             "statement gains `version_id_col == bindparam(..)` exactly under that flag; the bindparam key is the key "
             "the matching collector fills with the loaded version")
def r1(ctx):
    for ename, cname in EMITTERS.items():
        f = ctx.func(f"{PERS}::{ename}")
        flag = _version_flag(ctx, f)
        ctx.check(bool(flag), f"{f.key}:version-flag", "no local defined as `mapper.version_id_col is not None and mapper.version_id_col in mapper._cols_by_table[table]`",
                  f"{flag} = version column present in this table", f.loc)
        b = _stmt_builder(f)
        ctx.require(b is not None, f"{ename}: no nested statement builder")
        crit = _version_criterion(b)
        g = ctx.cfg(b)
        good = len(crit) == 1
        key_attr = None
        if good:
            c, cmp_, bp = crit[0]
            nodes = g.nodes_containing(c)
            good = bool(nodes) and all(guard_atom_set(g, n) == {(flag, True)} for n in nodes)
            k = bp.args[0] if bp.args else None
            if isinstance(k, ast.Attribute) and dotted(k.value) == "mapper.version_id_col":
                key_attr = k.attr
        ctx.check(good, f"{f.key}:criterion-iff-flag",
                  f"the statement does not gain `mapper.version_id_col == bindparam(...)` exactly under `{flag}` ({len(crit)} criteria found)",
                  f"WHERE version_id_col == bindparam under {flag} only", f.loc)
        # the collector binds the loaded version under the same key
        cf = ctx.func(f"{PERS}::{cname}")
        vcols = {n for n, v, st in name_stores(cf.node) if v is not None and dotted(v) == "mapper.version_id_col"} | {"mapper.version_id_col"}
        keys = set()
        for st in walk_stmts(cf.node.body):
            if isinstance(st, ast.Assign) and isinstance(st.value, ast.Name) and st.value.id == "update_version_id":
                for t in st.targets:
                    if isinstance(t, ast.Subscript) and dotted(t.value) == "params" and isinstance(t.slice, ast.Attribute) and dotted(t.slice.value) in vcols:
                        keys.add(t.slice.attr)
        ctx.check(key_attr is not None and key_attr in keys, f"{f.key}:bind-key-agreement",
                  f"emitter binds the version under version_id_col.{key_attr}, collector {cname} stores the loaded version under {sorted(keys)}",
                  f"both use version_id_col.{key_attr}", f.loc)


# vocabulary on which the decision to raise StaleDataError may depend
def _allowed_read(d: str, flag: str, count_locals: Set[str]) -> bool:
    root = d.split(".")[0]
    if d.endswith("dialect.supports_sane_rowcount") or d.endswith("dialect.supports_sane_multi_rowcount"):
        return True
    if d == flag or d in ("len", "table", "True", "False", "None"):
        return True
    if d.startswith("mapper.version_id_col") or d == "mapper._cols_by_table":
        return True
    if root in count_locals or d.endswith(".rowcount"):
        return True
    return False


OPT_OUT_PARAMS = {
    "enable_check_rowcount": "explicit opt-out parameter used by the bulk UPDATE path, which cannot know how many rows a WHERE clause matches",
}


def _expand(ctx, f, expr, flag, depth=0, seen=None, stop=frozenset()) -> List[ast.AST]:
    """Leaves of `expr` after replacing locals by (all of) their defining expressions."""
    seen = seen or set()
    binds: Dict[str, List[ast.AST]] = {}
    loopvars = set()
    for n, v, st in name_stores(f.node):
        if v is None:
            loopvars.add(n)
        else:
            binds.setdefault(n, []).append(v)
    out = []
    for node in ast.walk(expr):
        if isinstance(node, ast.Name) and node.id in binds and node.id not in loopvars and node.id != flag and node.id not in seen and node.id not in stop and depth < 4:
            for v in binds[node.id]:
                if isinstance(v, ast.Constant):
                    continue
                out.extend(_expand(ctx, f, v, flag, depth + 1, seen | {node.id}, stop))
    out.append(expr)
    return out


@R.rule("C44-R2", floor=10, template="T-PATH",
        desc="each emitter: every execute() is followed by the row-count test; a StaleDataError raise exists whose "
             "condition depends only on row counts, the dialect rowcount capabilities and the versioning flag "
             "(any other condition must be disjoined with the versioning flag); warn-only never applies to versioned rows")
def r2(ctx):
    for ename in EMITTERS:
        f = ctx.func(f"{PERS}::{ename}")
        flag = _version_flag_loose(ctx, f)
        ctx.require(flag, f"{ename}: versioning flag not found")
        g = ctx.cfg(f)
        raises = g.find(lambda n: n.kind == "stmt" and isinstance(n.stmt, ast.Raise) and n.stmt.exc is not None and "StaleDataError" in unparse(n.stmt.exc).split("(")[0])
        ctx.check(bool(raises), f"{f.key}:raises-stale", "no StaleDataError is raised", f"{len(raises)} raise site(s)", f.loc)
        if not raises:
            for aspect in ("check-after-execute", "stale-condition-vocabulary"):
                ctx.violation(f"{f.key}:{aspect}", "cannot hold: the emitter never raises StaleDataError", f.loc)
            continue
        # (a) every execute is followed by the outermost test that guards the raise
        guards = g.edge_guards(raises[0])
        ctx.require(guards, f"{ename}: StaleDataError raise is unconditional")
        # count-locals: numbers derived from rowcount / len / constants
        count_locals = set()
        for n, v, st in name_stores(f.node):
            if v is None:
                if isinstance(st, ast.AugAssign) and "rowcount" in unparse(st.value):
                    count_locals.add(n)
                continue
            txt = unparse(v)
            if isinstance(v, ast.Constant) or txt.startswith("len(") or txt.endswith(".rowcount") or txt.startswith("list(") or isinstance(v, (ast.ListComp, ast.List)):
                count_locals.add(n)
        # the outermost guard test that is specific to the check (not the enclosing loop structure)
        first_test = None
        for t, pol in guards:
            leaves = _expand(ctx, f, t, flag, stop=count_locals)
            reads = set()
            for lf in leaves:
                reads |= dotted_reads(lf)
            if any("rowcount" in r or r in count_locals for r in reads):
                first_test = t
                break
        ctx.require(first_test is not None, f"{ename}: cannot find the row-count test guarding StaleDataError")
        test_nodes = [n.id for n in g.nodes if n.kind == "test" and n.stmt.test is first_test]
        execs = call_nodes(g, lambda c: isinstance(c.func, ast.Attribute) and c.func.attr == "execute" and dotted(c.func.value) == "connection")
        ctx.require(execs, f"{ename}: no connection.execute()")
        w = g.must_pass(execs, [g.exit], test_nodes, edge_ok=no_exc)
        ctx.check(w is None, f"{f.key}:check-after-execute", "a normal path from connection.execute() leaves the emitter without the row-count test", f"{len(execs)} execute sites -> row-count test", f.loc, w)
        # (b) vocabulary of the raise condition
        offenders = []
        for t, pol in guards:
            if not any(x is first_test or True for x in [t]):
                continue
            # only tests from the row-count test onwards belong to the decision
            if getattr(t, "lineno", 0) < getattr(first_test, "lineno", 0):
                continue
            conj = t.values if (isinstance(t, ast.BoolOp) and isinstance(t.op, ast.And) and pol) else [t]
            for part in conj:
                exempt = isinstance(part, ast.BoolOp) and isinstance(part.op, ast.Or) and any(isinstance(v, ast.Name) and v.id == flag for v in part.values)
                if exempt:
                    continue
                reads = set()
                for lf in _expand(ctx, f, part, flag, stop=count_locals):
                    reads |= dotted_reads(lf)
                for r in sorted(reads):
                    if r in f.params and r in OPT_OUT_PARAMS:
                        continue
                    binds = [v for n, v, st in name_stores(f.node) if n == r and v is not None]
                    if binds and all(not isinstance(v, ast.Constant) for v in binds) and r not in count_locals:
                        continue  # an expanded local: its definition's reads are judged instead
                    if binds and all(isinstance(v, ast.Constant) for v in binds):
                        continue
                    if not _allowed_read(r, flag, count_locals):
                        offenders.append(r)
        ctx.check(not offenders, f"{f.key}:stale-condition-vocabulary",
                  f"whether a stale versioned row raises StaleDataError also depends on {sorted(set(offenders))}: with that condition false a "
                  f"version mismatch passes silently (it must be disjoined with `{flag}`)",
                  "depends only on row counts, dialect rowcount support and the versioning flag", f.loc)
        # (c) boolean "warn only" locals are never set for versioned rows
        flags_true = [n.id for n in g.nodes if n.kind == "stmt" and isinstance(n.stmt, ast.Assign) and const_is(n.stmt.value, True)
                      and any(isinstance(t, ast.Name) and "warn" in t.id for t in n.stmt.targets)]
        if flags_true:
            good = all((flag, False) in guard_atom_set(g, n) for n in flags_true)
            ctx.check(good, f"{f.key}:warn-only-not-for-versioned", "the warn-instead-of-raise mode can be selected for a versioned table", f"warn-only requires not {flag}", f.loc)


def _bool_eval(expr, asg, defs, depth=0):
    if isinstance(expr, ast.UnaryOp) and isinstance(expr.op, ast.Not):
        return not _bool_eval(expr.operand, asg, defs, depth)
    if isinstance(expr, ast.BoolOp):
        vals = [_bool_eval(v, asg, defs, depth) for v in expr.values]
        return all(vals) if isinstance(expr.op, ast.And) else any(vals)
    txt = unparse(expr)
    if txt in asg:
        return asg[txt]
    if isinstance(expr, ast.Name) and expr.id in defs and depth < 5:
        return _bool_eval(defs[expr.id], asg, defs, depth + 1)
    raise KeyError(txt)


def _atoms_of(expr, defs, out, depth=0):
    if isinstance(expr, ast.UnaryOp) and isinstance(expr.op, ast.Not):
        return _atoms_of(expr.operand, defs, out, depth)
    if isinstance(expr, ast.BoolOp):
        for v in expr.values:
            _atoms_of(v, defs, out, depth)
        return
    if isinstance(expr, ast.Name) and expr.id in defs and depth < 5:
        return _atoms_of(defs[expr.id], defs, out, depth + 1)
    out.add(unparse(expr))


@R.rule("C44-R3", floor=3, template="T-GUARD/T-BOOL",
        desc="each emitter: an executemany (list of parameter sets) is never issued for a versioned table when the "
             "dialect reports reliable single-row counts but not multi-row counts")
def r3(ctx):
    for ename in EMITTERS:
        f = ctx.func(f"{PERS}::{ename}")
        flag = _version_flag_loose(ctx, f)
        ctx.require(flag, f"{ename}: versioning flag not found")
        g = ctx.cfg(f)
        single, multi = None, None
        # boolean locals with exactly one boolean-expression definition may be expanded
        counts: Dict[str, int] = {}
        for n, v, st in name_stores(f.node):
            counts[n] = counts.get(n, 0) + 1
        defs = {n: v for n, v, st in name_stores(f.node)
                if v is not None and counts[n] == 1 and n != flag and isinstance(v, (ast.BoolOp, ast.UnaryOp, ast.Attribute, ast.Name, ast.Compare))}
        listy = {n for n, v, st in name_stores(f.node) if isinstance(v, (ast.ListComp, ast.List))}
        many = call_nodes(g, lambda c: isinstance(c.func, ast.Attribute) and c.func.attr == "execute" and dotted(c.func.value) == "connection"
                          and len(c.args) >= 2 and isinstance(c.args[1], ast.Name) and c.args[1].id in listy)
        ctx.require(many, f"{ename}: no executemany site found")
        S = "connection.dialect.supports_sane_rowcount"
        M = "connection.dialect.supports_sane_multi_rowcount"
        bad = []
        for n in many:
            guards = g.edge_guards(n)
            atoms: Set[str] = set()
            for t, pol in guards:
                _atoms_of(t, defs, atoms)
            atoms |= {flag, S, M}
            free = sorted(atoms - {flag, S, M})
            sat = None
            for vals in itertools.product([False, True], repeat=len(free)):
                asg = dict(zip(free, vals))
                asg.update({flag: True, S: True, M: False})
                try:
                    if all(_bool_eval(t, asg, defs) == pol for t, pol in guards):
                        sat = {k: v for k, v in asg.items() if k in free}
                        break
                except KeyError as e:
                    ctx.error(f"{ename}: cannot evaluate guard atom {e}")
            if sat is not None:
                bad.append(f"line {g.node(n).lineno} reachable with {flag}, single-row counts reliable, multi-row counts not ({sat})")
        ctx.check(not bad, f"{f.key}:no-executemany-for-versioned-rows", "; ".join(bad), f"{len(many)} executemany site(s) excluded for versioned rows without reliable multi-row counts", f.loc)


@R.rule("C44-R4", floor=6, template="T-FLOW",
        desc="collectors: the WHERE parameter receives the loaded (committed) version, the SET parameter the "
             "generator's result computed from it; the loaded version comes from the committed state")
def r4(ctx):
    for cname in ("_collect_update_commands", "_collect_post_update_commands"):
        f = ctx.func(f"{PERS}::{cname}")
        vcols = {n for n, v, st in name_stores(f.node) if v is not None and dotted(v) == "mapper.version_id_col"} | {"mapper.version_id_col"}
        gen = {n for n, v, st in name_stores(f.node) if isinstance(v, ast.Call) and callee_is(v, "mapper.version_id_generator")
               and len(v.args) == 1 and isinstance(v.args[0], ast.Name) and v.args[0].id == "update_version_id"}
        where_ok, set_ok, swapped = False, False, False
        for st in walk_stmts(f.node.body):
            if not isinstance(st, ast.Assign):
                continue
            for t in st.targets:
                if isinstance(t, ast.Subscript) and dotted(t.value) == "params" and isinstance(t.slice, ast.Attribute) and dotted(t.slice.value) in vcols:
                    val = st.value
                    is_old = isinstance(val, ast.Name) and val.id == "update_version_id"
                    is_new = (isinstance(val, ast.Name) and val.id in gen) or (isinstance(val, ast.Call) and callee_is(val, "mapper.version_id_generator"))
                    if t.slice.attr == "_label":
                        where_ok = where_ok or is_old
                        swapped = swapped or is_new
                    elif t.slice.attr == "key":
                        set_ok = set_ok or is_new
        ctx.check(where_ok and not swapped, f"{f.key}:where-gets-loaded-version", "the WHERE parameter (version_id_col._label) is not bound to the loaded version", "params[col._label] = update_version_id", f.loc)
        ctx.check(set_ok, f"{f.key}:set-gets-generated-version", "the SET parameter (version_id_col.key) is not bound to version_id_generator(update_version_id)", "params[col.key] = version_id_generator(update_version_id)", f.loc)
    for oname in ("_organize_states_for_save", "_organize_states_for_delete"):
        f = ctx.func(f"{PERS}::{oname}")
        good = False
        for n, v, st in name_stores(f.node):
            if n == "update_version_id" and isinstance(v, ast.Call) and callee_is(v, "_get_committed_state_attr_by_column") and v.args and dotted(v.args[-1]) == "mapper.version_id_col":
                good = True
        ctx.check(good, f"{f.key}:loaded-version-source", "update_version_id is not read from the COMMITTED state of the version column",
                  "mapper._get_committed_state_attr_by_column(state, dict_, mapper.version_id_col)", f.loc)


# ---------------------------------------------------------------------- self-test battery
R.mutant("update-criterion-unconditional", PERS,
         sub("        if needs_version_id:\n            clauses._append_inplace(\n                mapper.version_id_col\n                == sql.bindparam(\n                    mapper.version_id_col._label,\n                    type_=mapper.version_id_col.type,\n                )\n            )\n\n        if existing_stmt is not None:",
             "        if True:\n            clauses._append_inplace(\n                mapper.version_id_col\n                == sql.bindparam(\n                    mapper.version_id_col._label,\n                    type_=mapper.version_id_col.type,\n                )\n            )\n\n        if existing_stmt is not None:"), "C44-R1")
R.mutant("delete-criterion-dropped", PERS,
         sub("        if need_version_id:\n            clauses._append_inplace(\n                mapper.version_id_col\n                == sql.bindparam(\n                    mapper.version_id_col.key, type_=mapper.version_id_col.type\n                )\n            )\n", ""), "C44-R1")
R.mutant("delete-bind-key-mismatch", PERS, sub("                    mapper.version_id_col.key, type_=mapper.version_id_col.type\n", "                    mapper.version_id_col._label, type_=mapper.version_id_col.type\n"), "C44-R1")
R.mutant("flag-ignores-table", PERS, sub("    need_version_id = (\n        mapper.version_id_col is not None\n        and mapper.version_id_col in mapper._cols_by_table[table]\n    )\n", "    need_version_id = (\n        mapper.version_id_col is not None\n    )\n"), "C44-R1")
R.mutant("update-no-stale-raise", PERS,
         sub("        if check_rowcount:\n            if rows != len(records):\n                raise orm_exc.StaleDataError(\n                    \"UPDATE statement on table '%s' expected to \"\n                    \"update %d row(s); %d were matched.\"\n                    % (table.description, len(records), rows)\n                )\n\n        elif needs_version_id:\n            util.warn(\n                \"Dialect %s does not support updated rowcount \"\n                \"- versioning cannot be verified.\"\n                % c.dialect.dialect_description\n            )\n\n\ndef _emit_insert_statements(",
             "        if check_rowcount:\n            if rows != len(records):\n                util.warn(\"stale\")\n\n\ndef _emit_insert_statements("), "C44-R2")
R.mutant("post-update-check-depends-on-option", PERS,
         sub("            check_rowcount = assert_multirow or (\n                assert_singlerow and len(multiparams) == 1\n            )\n\n            c = connection.execute(\n                statement, multiparams, execution_options=execution_options\n            )\n\n            rows += c.rowcount\n            for i, (",
             "            check_rowcount = base_mapper.confirm_deleted_rows and (assert_multirow or (\n                assert_singlerow and len(multiparams) == 1\n            ))\n\n            c = connection.execute(\n                statement, multiparams, execution_options=execution_options\n            )\n\n            rows += c.rowcount\n            for i, ("), "C44-R2")
R.mutant("delete-warn-only-for-versioned", PERS, sub("            if not need_version_id:\n                only_warn = True\n", "            if need_version_id:\n                only_warn = True\n"), "C44-R2")
R.mutant("update-executemany-for-versioned", PERS, sub("        allow_executemany = not return_defaults and not needs_version_id\n", "        allow_executemany = not return_defaults\n"), "C44-R3")
R.mutant("post-update-executemany-always", PERS, sub("        allow_executemany = not needs_version_id or assert_multirow\n", "        allow_executemany = not needs_version_id or assert_singlerow\n"), "C44-R3")
R.mutant("delete-executemany-for-versioned", PERS, sub("        if (\n            need_version_id\n            and not connection.dialect.supports_sane_multi_rowcount\n        ):\n            if connection.dialect.supports_sane_rowcount:", "        if (\n            need_version_id\n            and not connection.dialect.supports_sane_multi_rowcount\n        ):\n            if not connection.dialect.supports_sane_rowcount:"), "C44-R3")
R.mutant("collector-swaps-old-and-new", PERS,
         sub("            params[col._label] = update_version_id\n\n            if (\n                bulk or col.key not in params\n            ) and mapper.version_id_generator is not False:\n                val = mapper.version_id_generator(update_version_id)\n                params[col.key] = val\n",
             "            if (\n                bulk or col.key not in params\n            ) and mapper.version_id_generator is not False:\n                val = mapper.version_id_generator(update_version_id)\n                params[col._label] = val\n                params[col.key] = update_version_id\n"), "C44-R4")
R.mutant("collector-no-increment", PERS, sub("                val = mapper.version_id_generator(update_version_id)\n                params[col.key] = val\n            elif mapper.version_id_generator is False and no_params:", "                val = update_version_id\n                params[col.key] = val\n            elif mapper.version_id_generator is False and no_params:"), "C44-R4")
R.mutant("loaded-version-from-current-state", PERS,
         sub("            update_version_id = mapper._get_committed_state_attr_by_column(\n                state, dict_, mapper.version_id_col\n            )\n        else:\n            update_version_id = None\n",
             "            update_version_id = mapper._get_state_attr_by_column(\n                state, dict_, mapper.version_id_col\n            )\n        else:\n            update_version_id = None\n"), "C44-R4")
# benign
R.mutant("benign-rename-flag", PERS, sub("need_version_id", "versioned", count=4), None)
R.mutant("benign-log", PERS, sub("        allow_executemany = not needs_version_id or assert_multirow\n", "        allow_executemany = not needs_version_id or assert_multirow\n        _n = len(records)\n"), None)
